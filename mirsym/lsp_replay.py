"""Drive the REAL `glas --stdio` binary (built from /repo's current tree) with a scripted LSP session.
Replay / validation only — not a deciding technique."""
import os, sys, json, subprocess, threading, queue, time, tempfile, shutil, re, fcntl
from . import dump


def build_binary():
    env = dict(os.environ)
    env['CARGO_NET_OFFLINE'] = 'true'
    env['CARGO_TARGET_DIR'] = dump.scratch('target-glas')
    env.pop('RUSTFLAGS', None)
    lockf = open(dump.scratch('target-glas.lock'), 'w')
    fcntl.flock(lockf, fcntl.LOCK_EX)
    try:
        r = subprocess.run(['cargo', 'build', '--offline', '-q', '-p', 'glas'], cwd=dump.REPO, env=env, stdout=subprocess.PIPE, stderr=subprocess.PIPE)
        if r.returncode != 0:
            sys.stderr.write(r.stderr.decode(errors='replace')[-4000:])
            raise RuntimeError('building the glas binary failed')
    finally:
        fcntl.flock(lockf, fcntl.LOCK_UN); lockf.close()
    return os.path.join(env['CARGO_TARGET_DIR'], 'debug', 'glas')


class Session:
    def __init__(self, binary, timeout=20.0):
        self.root = tempfile.mkdtemp(prefix='glas-verif-lsp-', dir=dump.scratch('lsp'))
        os.makedirs(os.path.join(self.root, 'src'), exist_ok=True)
        open(os.path.join(self.root, 'gleam.toml'), 'w').write('name = "verif"\nversion = "0.1.0"\n')
        env = dict(os.environ, GLEAM_PATH='/nonexistent/gleam')
        self.p = subprocess.Popen([binary, '--stdio'], stdin=subprocess.PIPE, stdout=subprocess.PIPE, stderr=subprocess.DEVNULL, env=env, cwd=self.root)
        self.q = queue.Queue(); self.timeout = timeout; self.next_id = 1
        self.unexpected = []; self.notifications = []
        t = threading.Thread(target=self._reader, daemon=True); t.start()
        r = self.request('initialize', {'processId': None, 'rootUri': 'file://' + self.root, 'capabilities': {}})
        if 'result' not in (r or {}):
            raise RuntimeError('initialize failed: %r' % (r,))
        self.notify('initialized', {})

    def uri(self, name='main.gleam'):
        return 'file://%s/src/%s' % (self.root, name)

    def _reader(self):
        f = self.p.stdout
        while True:
            n = None
            while True:
                line = f.readline()
                if not line:
                    self.q.put(None); return
                line = line.strip()
                if not line:
                    break
                if line.lower().startswith(b'content-length:'):
                    n = int(line.split(b':')[1])
            body = f.read(n) if n else b''
            if n and len(body) < n:
                self.q.put(None); return
            try:
                self.q.put(json.loads(body))
            except Exception:
                pass

    def _send(self, msg):
        body = json.dumps(msg).encode()
        try:
            self.p.stdin.write(b'Content-Length: %d\r\n\r\n' % len(body) + body); self.p.stdin.flush()
            return True
        except (BrokenPipeError, OSError):
            return False

    def notify(self, method, params):
        return self._send({'jsonrpc': '2.0', 'method': method, 'params': params})

    def request_with_trailing(self, method, params, trailing):
        """a request and the notifications `trailing` [(method, params)..] delivered in ONE write, so that they sit in the server's read buffer
        together: the main loop dispatches the request and handles the notification before it yields to its runtime.  returns the response"""
        rid = self.next_id; self.next_id += 1
        buf = b''
        for msg in [{'jsonrpc': '2.0', 'id': rid, 'method': method, 'params': params}] + [{'jsonrpc': '2.0', 'method': m, 'params': p_} for m, p_ in trailing]:
            body = json.dumps(msg).encode()
            buf += b'Content-Length: %d\r\n\r\n' % len(body) + body
        try:
            self.p.stdin.write(buf); self.p.stdin.flush()
        except (BrokenPipeError, OSError):
            return {'dead': self.p.poll()}
        return self._await(rid)

    def request(self, method, params):
        """returns the response dict, or {'dead': exit status} / {'timeout': True}"""
        rid = self.next_id; self.next_id += 1
        self._send({'jsonrpc': '2.0', 'id': rid, 'method': method, 'params': params})
        return self._await(rid)

    def _await(self, rid):
        deadline = time.time() + self.timeout
        while True:
            left = deadline - time.time()
            if left <= 0:
                return {'timeout': True, 'status': self.p.poll()}
            try:
                m = self.q.get(timeout=left)
            except queue.Empty:
                return {'timeout': True, 'status': self.p.poll()}
            if m is None:
                try:
                    st = self.p.wait(timeout=5)
                except Exception:
                    st = None
                return {'dead': st}
            if 'method' in m:
                if 'id' in m:
                    self._send({'jsonrpc': '2.0', 'id': m['id'], 'result': None})
                else:
                    self.notifications.append(m)
                continue
            if m.get('id') == rid:
                return m
            self.unexpected.append(m)

    def alive(self):
        return self.p.poll() is None

    def server_text(self, name='main.gleam'):
        """text the server analyses, reconstructed from the leaf tokens of glas/syntaxTree (None if not available)"""
        r = self.request('glas/syntaxTree', {'textDocument': {'uri': self.uri(name)}})
        if not isinstance(r, dict) or 'result' not in r or not isinstance(r['result'], str):
            return None, r
        out = []
        for line in r['result'].split('\n'):
            m = re.match(r'^\s*[A-Z_0-9]+@\d+\.\.\d+ ("(?:[^"\\]|\\.)*")\s*$', line)
            if m:
                s = m.group(1)
                s = re.sub(r'\\u\{([0-9a-fA-F]+)\}', lambda mm: chr(int(mm.group(1), 16)), s)
                try:
                    out.append(json.loads(s.replace("\\'", "'")))
                except Exception:
                    out.append(eval(s))
        return ''.join(out), r

    def close(self):
        try:
            if self.alive():
                self.request('shutdown', None); self.notify('exit', None)
                self.p.wait(timeout=5)
        except Exception:
            pass
        try:
            self.p.kill()
        except Exception:
            pass
        shutil.rmtree(self.root, ignore_errors=True)


def did_change_scenario(binary, doc, changes, probe=True):
    """didOpen(doc) + ONE didChange with `changes` = [{'range': [l1,c1,l2,c2]|None, 'text': str}]; then liveness probes.
    returns dict(alive, exit_status, hover, text)"""
    s = Session(binary)
    try:
        uri = s.uri()
        s.notify('textDocument/didOpen', {'textDocument': {'uri': uri, 'languageId': 'gleam', 'version': 1, 'text': doc}})
        cc = []
        for c in changes:
            e = {'text': c['text']}
            if c.get('range') is not None:
                l1, c1, l2, c2 = c['range']
                e['range'] = {'start': {'line': l1, 'character': c1}, 'end': {'line': l2, 'character': c2}}
            cc.append(e)
        s.notify('textDocument/didChange', {'textDocument': {'uri': uri, 'version': 2}, 'contentChanges': cc})
        out = {}
        h = s.request('textDocument/hover', {'textDocument': {'uri': uri}, 'position': {'line': 0, 'character': 0}})
        out['hover'] = 'dead' if 'dead' in h else ('timeout' if 'timeout' in h else ('result' if 'result' in h else 'error'))
        if 'dead' in h:
            out['exit_status'] = h['dead']
        txt, raw = s.server_text()
        out['text'] = txt
        out['tree_response'] = 'result' if isinstance(raw, dict) and 'result' in raw else ('dead' if isinstance(raw, dict) and 'dead' in raw else 'error')
        # a second document must still be served
        u2 = s.uri('other.gleam')
        s.notify('textDocument/didOpen', {'textDocument': {'uri': u2, 'languageId': 'gleam', 'version': 1, 'text': 'pub fn other() { 1 }\n'}})
        h2 = s.request('textDocument/hover', {'textDocument': {'uri': u2}, 'position': {'line': 0, 'character': 8}})
        out['second_document'] = 'dead' if 'dead' in h2 else ('timeout' if 'timeout' in h2 else 'answered')
        out['alive'] = s.alive() and out['second_document'] == 'answered'
        return out
    finally:
        s.close()


def workspace_scenario(binary, files, open_rel, probes, timeout=30.0, pre_open=()):
    """files: {relative path: text} written to a fresh directory tree BEFORE the server starts; didOpen(open_rel); then
    textDocument/definition at each probe (line, character) of that document.  returns [target relative path or None per probe]"""
    root = tempfile.mkdtemp(prefix='glas-verif-ws-', dir=dump.scratch('lsp'))
    try:
        for rel, text in files.items():
            p = os.path.join(root, rel)
            os.makedirs(os.path.dirname(p), exist_ok=True)
            open(p, 'w').write(text)
        s = Session.__new__(Session)
        s.root = root
        env = dict(os.environ, GLEAM_PATH='/nonexistent/gleam')
        s.p = subprocess.Popen([binary, '--stdio'], stdin=subprocess.PIPE, stdout=subprocess.PIPE, stderr=subprocess.DEVNULL, env=env, cwd=root)
        s.q = queue.Queue(); s.timeout = timeout; s.next_id = 1; s.unexpected = []; s.notifications = []
        threading.Thread(target=s._reader, daemon=True).start()
        r = s.request('initialize', {'processId': None, 'rootUri': 'file://' + root, 'capabilities': {}})
        if 'result' not in (r or {}):
            raise RuntimeError('initialize failed: %r' % (r,))
        s.notify('initialized', {})
        for rel in pre_open:
            # documents opened BEFORE the probed one (the order in which package roots are discovered matters)
            s.notify('textDocument/didOpen', {'textDocument': {'uri': 'file://%s/%s' % (root, rel), 'languageId': 'gleam', 'version': 1, 'text': files[rel]}})
        uri = 'file://%s/%s' % (root, open_rel)
        s.notify('textDocument/didOpen', {'textDocument': {'uri': uri, 'languageId': 'gleam', 'version': 1, 'text': files[open_rel]}})
        out = []
        for (line, ch) in probes:
            r = s.request('textDocument/definition', {'textDocument': {'uri': uri}, 'position': {'line': line, 'character': ch}})
            res = r.get('result') if isinstance(r, dict) else None
            if isinstance(res, dict):
                res = [res]
            if not res:
                out.append(None if isinstance(r, dict) and 'result' in r else {'raw': r}); continue
            t = res[0].get('uri') or res[0].get('targetUri') or ''
            out.append(t[len('file://' + root) + 1:] if t.startswith('file://' + root) else t)
        alive = s.alive()
        try:
            s.request('shutdown', None); s.notify('exit', None); s.p.wait(timeout=5)
        except Exception:
            pass
        try:
            s.p.kill()
        except Exception:
            pass
        return out, alive
    finally:
        shutil.rmtree(root, ignore_errors=True)


def ondisk_session(binary, files, opens, requests, timeout=30.0):
    """files {relative path: text} written before the server starts; didOpen of every path in `opens` (in order); then the requests
    [(method, relative path, (line, character), extra params)] in order.  returns the list of raw responses and whether the server is alive"""
    root = tempfile.mkdtemp(prefix='glas-verif-ws-', dir=dump.scratch('lsp'))
    try:
        for rel, text in files.items():
            p = os.path.join(root, rel)
            os.makedirs(os.path.dirname(p), exist_ok=True)
            open(p, 'w').write(text)
        s = Session.__new__(Session)
        s.root = root
        env = dict(os.environ, GLEAM_PATH='/nonexistent/gleam')
        s.p = subprocess.Popen([binary, '--stdio'], stdin=subprocess.PIPE, stdout=subprocess.PIPE, stderr=subprocess.DEVNULL, env=env, cwd=root)
        s.q = queue.Queue(); s.timeout = timeout; s.next_id = 1; s.unexpected = []; s.notifications = []
        threading.Thread(target=s._reader, daemon=True).start()
        r = s.request('initialize', {'processId': None, 'rootUri': 'file://' + root, 'capabilities': {}})
        if 'result' not in (r or {}):
            raise RuntimeError('initialize failed: %r' % (r,))
        s.notify('initialized', {})
        for rel in opens:
            s.notify('textDocument/didOpen', {'textDocument': {'uri': 'file://%s/%s' % (root, rel), 'languageId': 'gleam', 'version': 1, 'text': files[rel]}})
        out = []
        for method, rel, (line, ch), extra in requests:
            params = {'textDocument': {'uri': 'file://%s/%s' % (root, rel)}, 'position': {'line': line, 'character': ch}}
            params.update(extra or {})
            r = s.request(method, params)
            out.append(json.loads(json.dumps(r).replace('file://' + root + '/', '')) if isinstance(r, dict) else r)
        alive = s.alive()
        try:
            s.request('shutdown', None); s.notify('exit', None); s.p.wait(timeout=5)
        except Exception:
            pass
        try:
            s.p.kill()
        except Exception:
            pass
        return out, alive
    finally:
        shutil.rmtree(root, ignore_errors=True)


def disk_vs_editor_scenario(binary):
    """files exist on disk with OTHER contents than the editor sends: didOpen(main) as the first document of a package that is not loaded yet,
    then didOpen(other), then an edit of main, then didOpen of a file in a second, nested package (its discovery reloads files from disk).
    After every step the text the server analyses for every open document must be the editor's.  returns a list of problems"""
    s = Session(binary)
    probs = []
    try:
        disk = {'main.gleam': 'pub fn disk_main() { 1 }\n', 'other.gleam': 'pub fn disk_other() { 1 }\n'}
        for n, t in disk.items():
            open(os.path.join(s.root, 'src', n), 'w').write(t)
        os.makedirs(os.path.join(s.root, 'libs', 'inner', 'src'), exist_ok=True)
        open(os.path.join(s.root, 'libs', 'inner', 'gleam.toml'), 'w').write('name = "inner"\nversion = "0.1.0"\n')
        open(os.path.join(s.root, 'libs', 'inner', 'src', 'inner.gleam'), 'w').write('pub fn disk_inner() { 1 }\n')
        editor = {}

        def check(step):
            for n, want in editor.items():
                got, raw = s.server_text(n)
                if got != want:
                    probs.append('%s: the server analyses %r for %s, the editor holds %r (on disk: %r)' % (step, got, n, want, disk.get(n)))
        editor['main.gleam'] = 'pub fn editor_main() { 2 }\n'
        s.notify('textDocument/didOpen', {'textDocument': {'uri': s.uri('main.gleam'), 'languageId': 'gleam', 'version': 1, 'text': editor['main.gleam']}})
        check('after didOpen of the first document of a package (its file on disk has another text)')
        editor['other.gleam'] = 'pub fn editor_other() { 3 }\n'
        s.notify('textDocument/didOpen', {'textDocument': {'uri': s.uri('other.gleam'), 'languageId': 'gleam', 'version': 1, 'text': editor['other.gleam']}})
        check('after didOpen of a second document of the package')
        editor['main.gleam'] = 'pub fn editor_main() { 22 }\n'
        s.notify('textDocument/didChange', {'textDocument': {'uri': s.uri('main.gleam'), 'version': 2}, 'contentChanges': [{'text': editor['main.gleam']}]})
        check('after an edit')
        inner_uri = 'file://%s/libs/inner/src/inner.gleam' % s.root
        s.notify('textDocument/didOpen', {'textDocument': {'uri': inner_uri, 'languageId': 'gleam', 'version': 1, 'text': 'pub fn editor_inner() { 4 }\n'}})
        check('after didOpen of a document of a nested package (a new package root is discovered and loaded)')
        if not s.alive():
            probs.append('the server died')
        return probs
    finally:
        s.close()


def drain(s, quiet=2.0, limit=20.0):
    """collect notifications until the server has been quiet for `quiet` seconds"""
    end = time.time() + limit; last = time.time()
    while time.time() < end and time.time() - last < quiet:
        try:
            m = s.q.get(timeout=0.2)
        except queue.Empty:
            continue
        if m is None:
            break
        last = time.time()
        if 'method' in m:
            if 'id' in m:
                s._send({'jsonrpc': '2.0', 'id': m['id'], 'result': None})
            else:
                s.notifications.append(m)


def two_docs_scenario(binary, nfuns=1500):
    """document A (large, with one syntax error) and document B open; edit A, 20 ms later edit B; once quiet, the LAST diagnostics
    published for A must be those of A's final text (at least the syntax error).  returns dict(last_a=count or None, alive)"""
    s = Session(binary, timeout=30.0)
    try:
        ua, ub = s.uri('a.gleam'), s.uri('b.gleam')
        big = ''.join('pub fn f%d() {\n  %d\n}\n' % (i, i) for i in range(nfuns)) + 'bla = bla\n'
        s.notify('textDocument/didOpen', {'textDocument': {'uri': ua, 'languageId': 'gleam', 'version': 1, 'text': big}})
        drain(s, quiet=2.0)
        s.notify('textDocument/didOpen', {'textDocument': {'uri': ub, 'languageId': 'gleam', 'version': 1, 'text': 'pub fn b() {\n  1\n}\n'}})
        drain(s, quiet=2.0)
        def last(uri):
            ds = [n['params']['diagnostics'] for n in s.notifications if n.get('method') == 'textDocument/publishDiagnostics' and n['params'].get('uri') == uri]
            return len(ds[-1]) if ds else None
        before = last(ua)
        s.notify('textDocument/didChange', {'textDocument': {'uri': ua, 'version': 2}, 'contentChanges': [{'range': {'start': {'line': 1, 'character': 2}, 'end': {'line': 1, 'character': 3}}, 'text': '5'}]})
        time.sleep(0.02)
        s.notify('textDocument/didChange', {'textDocument': {'uri': ub, 'version': 2}, 'contentChanges': [{'range': {'start': {'line': 1, 'character': 2}, 'end': {'line': 1, 'character': 3}}, 'text': '7'}]})
        drain(s, quiet=3.0)
        return {'before': before, 'last_a': last(ua), 'alive': s.alive()}
    finally:
        s.close()


def open_two_scenario(binary, nfuns=4000):
    """didOpen of document A (large, with one syntax error) and didOpen of document B in ONE write: B's didOpen is handled while A's diagnostics
    are being computed.  Once quiet, diagnostics for A's text must have been published.  returns dict(last_a=count or None, alive)"""
    s = Session(binary, timeout=30.0)
    try:
        ua, ub = s.uri('a.gleam'), s.uri('b.gleam')
        big = ''.join('pub fn f%d() {\n  %d\n}\n' % (i, i) for i in range(nfuns)) + 'bla = bla\n'
        buf = b''
        for m, p_ in (('textDocument/didOpen', {'textDocument': {'uri': ua, 'languageId': 'gleam', 'version': 1, 'text': big}}),
                      ('textDocument/didOpen', {'textDocument': {'uri': ub, 'languageId': 'gleam', 'version': 1, 'text': 'pub fn b() {\n  1\n}\n'}})):
            body = json.dumps({'jsonrpc': '2.0', 'method': m, 'params': p_}).encode()
            buf += b'Content-Length: %d\r\n\r\n' % len(body) + body
        s.p.stdin.write(buf); s.p.stdin.flush()
        drain(s, quiet=4.0, limit=30.0)
        ds = [n['params']['diagnostics'] for n in s.notifications if n.get('method') == 'textDocument/publishDiagnostics' and n['params'].get('uri') == ua]
        return {'last_a': len(ds[-1]) if ds else None, 'alive': s.alive()}
    finally:
        s.close()


def watched_files_scenario(binary, nfuns=4000):
    """document A (large, with one syntax error) is opened and, in the same write, the client reports a change of another (not opened)
    file on disk.  Once quiet, diagnostics for A's text (at least the syntax error) must have been published.
    returns dict(last_a=count or None, alive)"""
    s = Session(binary, timeout=30.0)
    try:
        ua = s.uri('a.gleam')
        other = os.path.join(s.root, 'src', 'other.gleam')
        open(other, 'w').write('pub fn o() { 1 }\n')
        big = ''.join('pub fn f%d() {\n  %d\n}\n' % (i, i) for i in range(nfuns)) + 'bla = bla\n'
        buf = b''
        for m, p_ in (('textDocument/didOpen', {'textDocument': {'uri': ua, 'languageId': 'gleam', 'version': 1, 'text': big}}),
                      ('workspace/didChangeWatchedFiles', {'changes': [{'uri': 'file://' + other, 'type': 2}]})):
            body = json.dumps({'jsonrpc': '2.0', 'method': m, 'params': p_}).encode()
            buf += b'Content-Length: %d\r\n\r\n' % len(body) + body
        s.p.stdin.write(buf); s.p.stdin.flush()
        drain(s, quiet=4.0, limit=30.0)
        ds = [n['params']['diagnostics'] for n in s.notifications if n.get('method') == 'textDocument/publishDiagnostics' and n['params'].get('uri') == ua]
        return {'last_a': len(ds[-1]) if ds else None, 'alive': s.alive()}
    finally:
        s.close()


def rename_scenario(binary, text, pos, new_name):
    """didOpen(text); textDocument/rename at pos=(line, character) -> list of LSP TextEdits for that document (or None)"""
    s = Session(binary, timeout=30.0)
    try:
        uri = s.uri('main.gleam')
        s.notify('textDocument/didOpen', {'textDocument': {'uri': uri, 'languageId': 'gleam', 'version': 1, 'text': text}})
        r = s.request('textDocument/rename', {'textDocument': {'uri': uri}, 'position': {'line': pos[0], 'character': pos[1]}, 'newName': new_name})
        res = r.get('result') if isinstance(r, dict) else None
        if not isinstance(res, dict):
            return None
        out = []
        for u, eds in (res.get('changes') or {}).items():
            if u == uri:
                out += eds
            else:
                out += [dict(e, uri=u) for e in eds]
        return out
    finally:
        s.close()
