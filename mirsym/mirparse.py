"""Parse `rustc -Zunpretty=mir` text into bodies and pre-compiled statement tuples.

Only the textual shapes that pre-optimisation MIR of this repository contains are accepted;
anything else compiles to an ('unsupported', text) node that raises Unsupported when *executed*
(so an unparsable statement in a function nobody runs does not matter, and one that is run is
never silently skipped).
"""
import re
from functools import lru_cache

BINOPS = {'Add', 'Sub', 'Mul', 'Div', 'Rem', 'BitAnd', 'BitOr', 'BitXor', 'Shl', 'Shr', 'Eq', 'Ne', 'Lt', 'Le',
          'Gt', 'Ge', 'AddWithOverflow', 'SubWithOverflow', 'MulWithOverflow', 'AddUnchecked', 'SubUnchecked',
          'MulUnchecked', 'ShlUnchecked', 'ShrUnchecked', 'Offset', 'Cmp'}
UNOPS = {'Not', 'Neg', 'PtrMetadata'}
SKIP_STMT = ('StorageLive', 'StorageDead', 'nop', 'FakeRead', 'PlaceMention', 'Retag', 'AscribeUserType',
             'Coverage', 'ConstEvalCounter', 'BackwardIncompatibleDropHint')


class Body:
    __slots__ = ('name', 'header', 'args', 'ret', 'locals', 'blocks', 'raw', 'crate', 'types', 'compiled', 'span', '_zst_closures')

    def __init__(self, name, header):
        self.name = name; self.header = header
        self.args = []      # list of (local, type)
        self.ret = None
        self.locals = {}    # local -> type
        self.blocks = {}    # bb -> (stmts, term)  raw text
        self.compiled = {}  # bb -> (compiled stmts, compiled term)
        self.crate = None
        self.types = None
        self.span = None


def split_items(text):
    items = []
    cur = None
    for line in text.split('\n'):
        if cur is None:
            if (line.startswith('fn ') or line.startswith('const ') or line.startswith('static ')) and line.rstrip().endswith('{'):
                cur = [line]
        else:
            cur.append(line)
            if line == '}':
                items.append(cur); cur = None
    return items


def split_top(s, sep=','):
    """split on sep at nesting depth 0 of ()[]{}<> and outside strings"""
    out = []; depth = 0; cur = []; i = 0; instr = False; n = len(s)
    while i < n:
        c = s[i]
        if instr:
            cur.append(c)
            if c == '\\':
                cur.append(s[i + 1]); i += 1
            elif c == '"':
                instr = False
        elif c == '"':
            instr = True; cur.append(c)
        elif c == "'" and i + 2 < n and (s[i + 2] == "'" or (s[i + 1] == '\\')):
            # char literal  'x'  or '\n' / '\u{..}'
            j = s.index("'", i + 2 if s[i + 1] == '\\' else i + 1)
            if s[i + 1] == '\\' and s[i + 2] == "'":
                j = s.index("'", i + 3)
            cur.append(s[i:j + 1]); i = j
        elif c in '([{':
            depth += 1; cur.append(c)
        elif c in ')]}':
            depth -= 1; cur.append(c)
        elif c == '<' and (i == 0 or s[i - 1] != '-') and not (i + 1 < n and s[i + 1] in '= '):
            depth += 1; cur.append(c)
        elif c == '>' and i > 0 and s[i - 1] not in '-=' and depth > 0 and not (s[i - 1] == ' '):
            depth -= 1; cur.append(c)
        elif c == sep and depth == 0:
            out.append(''.join(cur).strip()); cur = []
        else:
            cur.append(c)
        i += 1
    last = ''.join(cur).strip()
    if last:
        out.append(last)
    return out


def parse_item(lines):
    head = lines[0]
    if head.startswith('fn '):
        m = re.match(r'fn (.*?)\((.*)\) -> (.*) \{$', head)
        name, args, ret = m.group(1), m.group(2), m.group(3)
        b = Body(name, head); b.ret = ret
        for a in split_top(args):
            mm = re.match(r'(_\d+): (.*)', a)
            if mm:
                b.args.append((mm.group(1), mm.group(2)))
    else:
        impls = re.findall(r'<impl at [^>]*>', head)
        h2 = re.sub(r'<impl at [^>]*>', '@IMPL@', head)
        m = re.match(r'(?:const|static) (?:mut )?(.*?): (.*) = \{$', h2)
        nm = m.group(1)
        for im in impls:
            nm = nm.replace('@IMPL@', im, 1)
        b = Body(nm, head); b.ret = m.group(2)
    curbb = None; stmts = None
    for line in lines[1:-1]:
        s = line.strip()
        if not s or s.startswith('debug ') or s.startswith('scope ') or (s == '}' and curbb is None):
            continue
        if curbb is None:
            m = re.match(r'let (?:mut )?(_\d+): (.*);$', s)
            if m:
                b.locals[m.group(1)] = m.group(2); continue
        m = re.match(r'(bb\d+)(?: \(cleanup\))?: \{$', s)
        if m:
            curbb = m.group(1); stmts = []; continue
        if s == '}':
            if curbb is not None:
                b.blocks[curbb] = (stmts[:-1], stmts[-1]); curbb = None
            continue
        if curbb is not None:
            stmts.append(s)
    return b


def annotate_closures(text, vtext):
    """Closures expanded from one macro span print with identical type strings; the line-aligned
    -Zverbose-internals dump names them (`build_tree::{closure#5}`), so tag the ambiguous ones."""
    a = text.split('\n'); b = vtext.split('\n')
    if len(a) != len(b):
        raise ValueError('plain and verbose MIR dumps are not line-aligned (%d vs %d lines)' % (len(a), len(b)))
    cnt = {}
    for la in a:
        if la.startswith('fn ') and '{closure#' in la.split('(')[0]:
            m = re.search(r'\{closure@[^}]*\}', la)
            if m:
                cnt[m.group(0)] = cnt.get(m.group(0), 0) + 1
    amb = {k for k, v in cnt.items() if v > 1}
    if not amb:
        return text
    out = []
    for la, lb in zip(a, b):
        if '{closure@' in la and any(x in la for x in amb):
            ids = set(re.findall(r'\{closure#\d+\}', lb))
            if len(ids) == 1:
                m = re.search(r'([A-Za-z_][\w]*)(?:::<[^{}]*>)?::(\{closure#\d+\})', lb)
                tag = (m.group(1) + '::' + m.group(2)) if m else list(ids)[0]
                tag = tag.replace('{closure#', 'closure.').replace('}', '').replace('::', '.')
                la = re.sub(r'\{closure@([^}]*)\}', lambda mm: '{closure@' + mm.group(1) + ' #' + tag + '}', la)
        out.append(la)
    return '\n'.join(out)


def parse_mir(text, vtext=None, crate=None):
    if vtext is not None:
        text = annotate_closures(text, vtext)
    bodies = {}
    # one-line constants:  const path::NAME: u32 = const 64_u32;
    # (the name may contain `<impl at file.rs:13:14: 13:19>`: split at the LAST `: ` before ` = const`)
    for m in re.finditer(r'^const (\S.*): ((?:(?!: )[^=])+?) = const (.+);$', text, flags=re.M):
        b = Body(m.group(1), m.group(0)); b.ret = m.group(2); b.crate = crate
        b.blocks = {'bb0': (['_0 = const %s;' % m.group(3)], 'return;')}
        bodies.setdefault(b.name, b)
    for it in split_items(text):
        try:
            b = parse_item(it)
        except Exception:
            continue
        b.crate = crate
        if b.name not in bodies:
            bodies[b.name] = b            # first wins (runtime MIR before CTFE MIR)
        elif bodies[b.name].header != b.header:
            # macro-generated impls share one span and therefore one printed name: keep every distinct signature
            k = 2
            while '%s#%d' % (b.name, k) in bodies and bodies['%s#%d' % (b.name, k)].header != b.header:
                k += 1
            bodies.setdefault('%s#%d' % (b.name, k), b)
    return bodies


# --------------------------------------------------------------------------------------------
# places / operands / rvalues / terminators  ->  tuples

def match_paren(s, i):
    depth = 0
    for j in range(i, len(s)):
        if s[j] == '(':
            depth += 1
        elif s[j] == ')':
            depth -= 1
            if depth == 0:
                return j
    raise ValueError(s)


def balanced(s):
    d = 0
    for c in s:
        if c == '(':
            d += 1
        elif c == ')':
            d -= 1
            if d < 0:
                return False
    return d == 0


@lru_cache(maxsize=None)
def parse_place(s):
    s = s.strip()
    if re.match(r'^_\d+$', s):
        return ('local', s)
    if s.endswith(']') and not s.startswith('['):
        i = s.rindex('[')
        base = parse_place(s[:i]); idx = s[i + 1:-1]
        if idx.startswith('_'):
            return ('index', base, idx)
        mm = re.match(r'(-?\d+) of \d+', idx)
        if mm:
            return ('cindex', base, int(mm.group(1)))
        mm = re.match(r'(\d*):(-?\d*)', idx)
        if mm:
            return ('subslice', base, mm.group(1), mm.group(2))
        raise ValueError('place? ' + s)
    if s.startswith('(*') and s.endswith(')') and match_paren(s, 0) == len(s) - 1:
        return ('deref', parse_place(s[2:-1]))
    if s.startswith('*'):
        return ('deref', parse_place(s[1:]))
    if s.startswith('('):
        j = match_paren(s, 0)
        if j != len(s) - 1:
            raise ValueError('place? ' + s)
        inner = s[1:-1].strip()
        m = re.match(r'^(.*) as (\w+)$', inner)
        if m and balanced(m.group(1)) and not re.search(r'\.\d+: ', inner[len(m.group(1)):]):
            try:
                return ('downcast', parse_place(m.group(1)), m.group(2))
            except ValueError:
                pass
        depth = 0
        for i, c in enumerate(inner):
            if c == '(':
                depth += 1
            elif c == ')':
                depth -= 1
            elif c == '.' and depth == 0:
                mm = re.match(r'\.(\d+): ', inner[i:])
                if mm:
                    return ('field', parse_place(inner[:i]), int(mm.group(1)), inner[i + len(mm.group(0)):])
        raise ValueError('place? ' + s)
    raise ValueError('place? ' + s)


def strip_generics(c):
    out = []; i = 0; n = len(c)
    while i < n:
        if c.startswith('::<', i) and not c.startswith('::<impl', i):
            j = i + 3; dd = 1
            while dd > 0:
                if c[j] == '<':
                    dd += 1
                elif c[j] == '>' and c[j - 1] != '-':
                    dd -= 1
                j += 1
            i = j; continue
        out.append(c[i]); i += 1
    return ''.join(out)


def parse_operand(t):
    t = t.strip()
    if t.startswith('copy '):
        return ('copy', parse_place(t[5:]))
    if t.startswith('move '):
        return ('move', parse_place(t[5:]))
    if t.startswith('const '):
        return ('const', t[6:].strip())
    return ('fnname', t)


def parse_rvalue(t, destty):
    t = t.strip()
    if t.startswith('no_retag '):
        t = t[9:]
    if t.startswith('&raw const ') or t.startswith('&raw mut '):
        return ('ref', parse_place(t.split(' ', 2)[2]))
    if t.startswith('&mut '):
        return ('ref', parse_place(t[5:]))
    if t.startswith('&fake shallow '):
        return ('ref', parse_place(t[14:]))
    if t.startswith('&') and not t.startswith('&&'):
        return ('ref', parse_place(t[1:]))
    if t.startswith(('copy ', 'move ', 'const ')):
        m = re.match(r'^(.*) as (.*) \((\w+)(\(.*\))?\)$', t)
        if m and balanced(m.group(1)) and (t.startswith('const ') is False or ' as ' in t):
            try:
                return ('cast', parse_operand(m.group(1)), m.group(2).strip(), m.group(3), m.group(4) or '')
            except ValueError:
                pass
        return ('use', parse_operand(t))
    m = re.match(r'^discriminant\((.*)\)$', t)
    if m:
        return ('discriminant', parse_place(m.group(1)), destty)
    m = re.match(r'^(\w+)\((.*)\)$', t)
    if m and m.group(1) in BINOPS:
        a, b = split_top(m.group(2))
        return ('binop', m.group(1), parse_operand(a), parse_operand(b), destty)
    if m and m.group(1) in UNOPS:
        return ('unop', m.group(1), parse_operand(m.group(2)))
    if m and m.group(1) == 'Len':
        return ('len', parse_place(m.group(2)))
    if m and m.group(1) == 'CopyForDeref':
        return ('use', ('copy', parse_place(m.group(2))))
    if t.startswith('(') and t.endswith(')') and match_paren(t, 0) == len(t) - 1:
        inner = t[1:-1]
        return ('tuple', [parse_operand(x) for x in split_top(inner)] if inner.strip() else [])
    if t.startswith('['):
        inner = t[1:-1]
        parts = split_top(inner, ';')
        if len(parts) == 2 and ';' in inner:
            n = re.match(r'(?:const )?(\d+)', parts[1].strip())
            return ('repeat', parse_operand(parts[0]), int(n.group(1)) if n else None)
        return ('array', [parse_operand(x) for x in split_top(inner)])
    m = re.match(r'^(\{(?:closure|coroutine|coroutine-closure)@[^}]*\})(?: \{(.*)\})?$', t)
    if m:
        fields = []
        if m.group(2):
            for f in split_top(m.group(2)):
                fields.append(parse_operand(f.split(':', 1)[1]))
        nm = m.group(1)
        md = re.search(r'\{closure@[^}]*\}', destty or '')
        if md:
            nm = md.group(0)
        return ('closure', nm, fields)
    t2 = strip_generics(t)
    m = re.match(r'^([\w:<>\', \[\]&;]+?)(?: \{(.*)\}|\((.*)\))?$', t2)
    if m:
        path = m.group(1).strip()
        fields = []
        if m.group(2) is not None:
            for f in split_top(m.group(2)):
                fields.append(parse_operand(f.split(':', 1)[1]))
            form = 'struct'
        elif m.group(3) is not None:
            fields = [parse_operand(x) for x in split_top(m.group(3))]
            form = 'tuple'
        else:
            form = 'unit'
        return ('adt', path, form, fields, destty)
    return ('unsupported', 'rvalue ' + t)


def parse_stmt(s, types):
    if s.startswith(SKIP_STMT):
        return None
    if s.startswith('Deinit(') or s.startswith('Assume(') or s.startswith('assume('):
        return None
    try:
        m = re.match(r'^discriminant\((.*)\) = (\d+);$', s)
        if m:
            return ('setdisc', parse_place(m.group(1)), int(m.group(2)))
        i = s.index(' = ')
        lhs = s[:i]; rhs = s[i + 3:].rstrip(';')
        pl = parse_place(lhs)
        destty = types.get(pl[1], '') if pl[0] == 'local' else (pl[3] if pl[0] == 'field' else '')
        return ('assign', pl, parse_rvalue(rhs, destty))
    except (ValueError, AttributeError) as e:
        return ('unsupported', 'stmt %s (%s)' % (s, e))


def parse_term(t):
    try:
        if t == 'return;':
            return ('return',)
        m = re.match(r'^goto -> (bb\d+);$', t)
        if m:
            return ('goto', m.group(1))
        if t.startswith('unreachable'):
            return ('unreachable',)
        if t.startswith('resume') or t.startswith('terminate') or t.startswith('abort'):
            return ('unsupported', 'term ' + t)
        m = re.match(r'^switchInt\((.*)\) -> \[(.*)\];$', t)
        if m:
            targets = []
            for x in split_top(m.group(2)):
                val, tb = x.split(': ')
                targets.append((None if val == 'otherwise' else int(val), tb))
            return ('switch', parse_operand(m.group(1)), targets)
        m = re.match(r'^assert\((!?)(.*?), "(.*)"(.*)\) -> \[success: (bb\d+), unwind.*\];$', t)
        if m:
            return ('assert', m.group(1) == '!', parse_operand(m.group(2)), m.group(3), m.group(5))
        m = re.match(r'^drop\((.*)\) -> \[return: (bb\d+), unwind.*\];$', t)
        if m:
            return ('drop', parse_place(m.group(1)), m.group(2))
        m = re.match(r'^falseEdge -> \[real: (bb\d+), imaginary: bb\d+\];$', t)
        if m:
            return ('goto', m.group(1))
        m = re.match(r'^falseUnwind -> \[real: (bb\d+), unwind.*\];$', t)
        if m:
            return ('goto', m.group(1))
        k = t.rfind(') -> ')
        if k > 0:
            d = 0; j = k
            while j >= 0:
                if t[j] == ')':
                    d += 1
                elif t[j] == '(':
                    d -= 1
                    if d == 0:
                        break
                j -= 1
            head = t[:j]; argtxt = t[j + 1:k]; tail = t[k + 5:].rstrip(';')
            dest = None; callee = head
            mm = re.match(r'^((?:\(|\*|_)[^=]*?) = (.*)$', head)
            if mm:
                dest, callee = mm.group(1), mm.group(2)
            callee = callee.strip()
            args = [parse_operand(a) for a in split_top(argtxt)] if argtxt.strip() else []
            mm = re.search(r'return: (bb\d+)', tail)
            retbb = mm.group(1) if mm else None
            indirect = None
            if callee.startswith(('move ', 'copy ')):
                indirect = parse_operand(callee)
            return ('call', callee, args, parse_place(dest) if dest else None, retbb, indirect)
    except (ValueError, AttributeError) as e:
        return ('unsupported', 'term %s (%s)' % (t, e))
    return ('unsupported', 'term ' + t)


def compile_block(b, bb):
    c = b.compiled.get(bb)
    if c is None:
        if b.types is None:
            ty = dict(b.locals); ty.update(dict(b.args)); ty['_0'] = b.ret
            b.types = ty
        stmts, term = b.blocks[bb]
        cs = []
        for s in stmts:
            x = parse_stmt(s, b.types)
            if x is not None:
                cs.append(x)
        c = (cs, parse_term(term))
        b.compiled[bb] = c
    return c
