"""Exhaustive path exploration: replay-based DFS over decision prefixes, sharded over processes.

A *spec* object provides
    spec.make_interp()         -> Interp (fresh, with base constraints asserted on it.solver)
    spec.run_path(it)          -> record dict {'cls': str, 'ok': bool, ...}; may raise Panic / Unsupported
    spec.on_panic(it, e)       -> record dict (optional; default: violation of class 'panic:<kind>')
Records with ok == False carry 'cex' (a JSON-able concrete input from a solver model).
The explorer never samples: every feasible decision prefix is run to completion.
"""
import os, sys, time, collections, traceback, multiprocessing as mp
import z3
from .values import Panic, Unsupported, Pruned

_SPEC = None
SHARD_BUDGET_S = 0.5


class Result:
    def __init__(self):
        self.paths = 0; self.queries = 0; self.solver_s = 0.0; self.forks = 0; self.steps = 0
        self.classes = collections.Counter()
        self.samples = {}            # class -> list of sample dicts (first few)
        self.violations = []         # records with ok False
        self.unsupported = collections.Counter()
        self.maxdepth = 0
        self.executed = set()
        self.model_hits = collections.Counter()
        self.extra = {}              # spec-defined aggregations (merged with spec.merge_extra)
        self.wall = 0.0

    def merge(self, o, spec=None):
        self.paths += o.paths; self.queries += o.queries; self.solver_s += o.solver_s; self.forks += o.forks
        self.steps += o.steps
        self.classes.update(o.classes); self.unsupported.update(o.unsupported)
        for k, v in o.samples.items():
            cur = self.samples.setdefault(k, [])
            for s in v:
                if len(cur) < 3:
                    cur.append(s)
        self.violations.extend(o.violations)
        self.maxdepth = max(self.maxdepth, o.maxdepth)
        self.executed |= o.executed
        self.model_hits.update(o.model_hits)
        if spec is not None and hasattr(spec, 'merge_extra'):
            spec.merge_extra(self.extra, o.extra)
        else:
            for k, v in o.extra.items():
                if isinstance(v, (int, float)):
                    self.extra[k] = self.extra.get(k, 0) + v
                elif isinstance(v, list):
                    self.extra.setdefault(k, []).extend(v)
                elif isinstance(v, dict):
                    self.extra.setdefault(k, {}).update(v)


def run_one(spec, it, dec, res, max_viol=50):
    it.start_path(dec)
    rec = None
    try:
        rec = spec.run_path(it)
    except Panic as e:
        if hasattr(spec, 'on_panic'):
            rec = spec.on_panic(it, e)
        else:
            rec = {'cls': 'panic:' + e.kind, 'ok': False, 'panic': str(e), 'stack': list(e.stack[-6:])}
    except Pruned as e:
        rec = {'cls': 'pruned', 'ok': True}
    except Unsupported as e:
        res.unsupported[str(e)[:200]] += 1
        if os.environ.get('MIRSYM_DEBUG'):
            traceback.print_exc(); print('STACK', it.stack[-4:])
        rec = None
    except z3.Z3Exception as e:
        res.unsupported['z3: ' + str(e)[:160]] += 1
        rec = None
    except RecursionError:
        res.unsupported['python recursion limit'] += 1
        rec = None
    except Exception as e:
        res.unsupported['internal %s: %s @ %s' % (type(e).__name__, str(e)[:100], traceback.format_exc().strip().split('\n')[-3].strip()[:120])] += 1
        rec = None
    res.paths += 1
    res.maxdepth = max(res.maxdepth, it.maxdepth)
    if rec is not None:
        cls = rec.get('cls', 'ok')
        res.classes[cls] += 1
        if not rec.get('ok', True):
            if len(res.violations) < max_viol:
                res.violations.append(rec)
        else:
            sm = res.samples.setdefault(cls, [])
            if len(sm) < 2 and 'sample' in rec:
                sm.append(rec['sample'])
        if hasattr(spec, 'accumulate'):
            spec.accumulate(res.extra, rec, it)
    return list(it.new_alternatives)


def explore_prefixes(spec, it, prefixes, res, budget_s=None, t0=None):
    work = list(prefixes)
    while work:
        dec = work.pop()
        work.extend(run_one(spec, it, dec, res))
        if budget_s is not None and time.time() - t0 > budget_s:
            return work
    return []


_SPEC_KEY = None
_POOL = None
_POOL_JOBS = None
_POOL_GEN = 0


def _worker_init(spec_factory, args):
    pass


def _ensure_spec(key, spec_factory, args):
    global _SPEC, _SPEC_KEY
    if _SPEC_KEY != key:
        _SPEC = spec_factory(*args)
        _SPEC._it = _SPEC.make_interp()
        _SPEC_KEY = key
    return _SPEC


def shared_pool(jobs):
    """one fork pool per process, created lazily AFTER the MIR world is loaded (workers inherit it) and re-created
    when the world generation changes (explore.reset_pool() must be called after loading another World)"""
    global _POOL, _POOL_JOBS
    if _POOL is None or _POOL_JOBS != jobs:
        if _POOL is not None:
            _POOL.terminate()
        _POOL = mp.get_context('fork').Pool(jobs)
        _POOL_JOBS = jobs
    return _POOL


def reset_pool():
    global _POOL
    if _POOL is not None:
        _POOL.terminate(); _POOL = None


def _worker_run(task):
    key, spec_factory, args, prefix = task
    spec = _ensure_spec(key, spec_factory, args); it = spec._it
    res = Result()
    q0, s0, f0, st0 = it.nq, it.solver_s, it.nforks, it.steps
    left = []
    try:
        left = explore_prefixes(spec, it, [prefix], res, budget_s=SHARD_BUDGET_S, t0=time.time())
    except Exception as e:
        res.unsupported['internal: %s' % traceback.format_exc()[-400:]] += 1
    res.queries = it.nq - q0; res.solver_s = it.solver_s - s0; res.forks = it.nforks - f0; res.steps = it.steps - st0
    res.executed = set(it.executed); res.model_hits = collections.Counter(it.model_hits)
    it.model_hits.clear()
    return res, left


def explore(spec_factory, args=(), jobs=None, split_target=None, progress=None, timeout_s=None):
    """Run the whole path space of spec_factory(*args).  Returns (Result, complete: bool)."""
    jobs = jobs or int(os.environ.get('VERIF_JOBS', '16'))
    t0 = time.time()
    spec = spec_factory(*args)
    it = spec.make_interp()
    total = Result()
    # breadth phase in the parent: expand until there are enough independent prefixes
    split_target = split_target or jobs
    frontier = collections.deque([[]])
    done_in_parent = 0
    while frontier and len(frontier) < split_target and done_in_parent < (split_target if jobs > 1 else 10 ** 9):
        dec = frontier.popleft()
        alts = run_one(spec, it, dec, total)
        frontier.extend(alts)
        done_in_parent += 1
    total.queries = it.nq; total.solver_s = it.solver_s; total.forks = it.nforks; total.steps = it.steps
    total.executed = set(it.executed); total.model_hits = collections.Counter(it.model_hits)
    complete = True
    if frontier:
        prefixes = list(frontier)
        if jobs <= 1:
            r = Result()
            q0, s0, f0 = it.nq, it.solver_s, it.nforks
            explore_prefixes(spec, it, prefixes, r)
            r.queries = it.nq - q0; r.solver_s = it.solver_s - s0; r.forks = it.nforks - f0
            r.executed = set(it.executed)
            total.merge(r, spec)
        else:
            global _POOL_GEN
            _POOL_GEN += 1
            key = (_POOL_GEN, getattr(spec_factory, '__name__', '?'), repr(args))
            pool = shared_pool(jobs)
            if True:
                queue = collections.deque(prefixes); pending = []; n = 0
                while queue or pending:
                    while queue and len(pending) < jobs * 2:
                        pending.append(pool.apply_async(_worker_run, ((key, spec_factory, args, queue.popleft()),)))
                    still = []
                    got = False
                    for ar in pending:
                        if ar.ready():
                            r, left = ar.get()
                            total.merge(r, spec); queue.extend(left); n += 1; got = True
                            if progress and n % 50 == 0:
                                progress('%d shards done, %d queued, %d paths, %.0fs' % (n, len(queue), total.paths, time.time() - t0))
                        else:
                            still.append(ar)
                    pending = still
                    if timeout_s is not None and time.time() - t0 > timeout_s:
                        complete = False
                        reset_pool()
                        break
                    if not got:
                        time.sleep(0.02)
    total.wall = time.time() - t0
    return total, complete
