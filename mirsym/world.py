"""Load MIR of the crates a check needs from /repo's current tree and build interpreters over it."""
import os, time, shutil
from . import dump, mirparse, rustsrc, models
from .interp import Interp

REPO = dump.REPO


class World:
    def __init__(self, crates=('syntax',), profile='dev', rundir=None, log=None):
        self.profile = profile
        self.rundir = rundir or dump.scratch('run-%d' % os.getpid())
        self.crates = {}
        self.dumps = {}
        self.enums = {}
        t0 = time.time()
        for c in crates:
            d = dump.dump(c, profile, verbose=True, expanded=(c in ('syntax', 'glas')), rundir=self.rundir)
            self.dumps[c] = d
            text = open(d['mir'], encoding='utf-8').read()
            vtext = open(d['mir_v'], encoding='utf-8').read()
            self.crates[c] = mirparse.parse_mir(text, vtext, crate=c)
            if d['expanded']:
                src = open(d['expanded'], encoding='utf-8').read()
                for k, v in rustsrc.scan_enums(src, scope_fn=True).items():
                    self.enums.setdefault(k, v)
            if log:
                log('MIR %s (%s): %d bodies, dump %.1fs, sha %s' % (c, profile, len(self.crates[c]), d['secs'], d['sha']))
        for c in ('syntax', 'ide', 'glas'):
            cdir = os.path.join(REPO, 'crates', c, 'src')
            if c in crates or c == 'syntax':
                for k, v in rustsrc.scan_crate_enums(cdir).items():
                    if k == '__ambiguous__':
                        self.enums.setdefault(k, set()).update(v)
                    else:
                        if k in self.enums and self.enums[k] != v and '::' not in k:
                            self.enums.setdefault('__ambiguous__', set()).add(k)
                        self.enums.setdefault(k, v)
        self.load_s = time.time() - t0
        from . import explore
        explore.reset_pool()
        self.source_sha = dump.source_sha()

    def interp(self, main, uc=False):
        it = Interp(self.crates, main, src_base=REPO + '/', enums=self.enums, uc=uc)
        models.install(it)
        it.profile_overflow_checks = (self.profile == 'dev')
        it.logos_lex = None
        if 'syntax' in self.crates:
            for n, b in self.crates['syntax'].items():
                if n.endswith('>::lex') and 'kind.rs' in n:
                    it.logos_lex = b
        return it

    def kind(self, name):
        for vn, hf, d in self.enums['SyntaxKind']:
            if vn == name:
                return d
        raise KeyError(name)

    def kinds(self):
        return {vn: d for vn, hf, d in self.enums['SyntaxKind']}

    def find(self, crate, suffix):
        c = [b for n, b in self.crates[crate].items() if n == suffix or n.endswith('::' + suffix)]
        if len(c) != 1:
            raise KeyError('%d bodies match %s in %s' % (len(c), suffix, crate))
        return c[0]

    def cleanup(self):
        shutil.rmtree(self.rundir, ignore_errors=True)
