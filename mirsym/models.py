"""Library models (trusted, each a few lines).  Keys are canonical callee names (interp.canon_callee).

A model returns a value, raises Panic for the library's own documented panics, raises Unsupported
when it is asked something it does not cover, or returns NotImplemented to fall through to MIR.
Every model that was hit in a run is listed in that run's evidence file.
"""
import re
import z3
from .values import *
from .interp import PyFn, canon_type

M = {}          # canon key -> handler
TM = {}         # (trait, method) -> handler  (any Self type)


def model(*keys):
    def deco(f):
        for k in keys:
            M[k] = f
        return f
    return deco


def tmodel(trait, *meths):
    def deco(f):
        for m in meths:
            TM[(trait, m)] = f
        return f
    return deco


def install(it):
    it.models.update(M)
    it.trait_models.update(TM)


def deref(v):
    while isinstance(v, RefV):
        v = v.get()
    return v


def items_of(v):
    v = deref(v)
    if isinstance(v, (VecV, SliceV)):
        return v.items
    if isinstance(v, Agg) and v.kind == 'array':
        return v.fields
    raise Unsupported('items_of %r' % (v,))


def elem_refs(v):
    """references to the elements of a Vec / slice / array; a sub-slice taken by a range index writes through to the vector it borrows from"""
    t = deref(v)
    if isinstance(t, SliceV) and t.base is not None and t.base is not t.items and t.off + len(t.items) <= len(t.base) \
            and all(x is y for x, y in zip(t.items, t.base[t.off:t.off + len(t.items)])):
        return [RefV(t.base, t.off + i) for i in range(len(t.items))]
    xs = items_of(t)
    return [RefV(xs, i) for i in range(len(xs))]


def cint(it, v, what='value', fork=False):
    if isinstance(v, LazyV):
        v = v.as_int(64)
    if v.sym():
        if fork:
            return it.concretize(v)
        raise Unsupported('symbolic %s in %s' % (what, it.stack[-1] if it.stack else '?'))
    return v.v


def shape(it, o, names):
    """force an Option/Result-like value into a concrete variant (forks for lazy values)"""
    o = o
    if isinstance(o, LazyV):
        d = o.discriminant()
        i = it.choose([(d == j, j) for j in range(len(names))])
        return names[i], o.kid((names[i], 0))
    return o.variant, (o.fields[0] if o.fields else None)


# ---------------------------------------------------------------- panics / fmt

def fmt_msg(v):
    v = deref(v)
    if isinstance(v, Opaque) and isinstance(v.tag, tuple) and v.tag[0] == 'fmt':
        return v.tag[1]
    if isinstance(v, StrV):
        return v.s
    return ''


@model('Arguments::new_const', 'Arguments::new_v1', 'Arguments::new_v1_formatted', 'Arguments::from_str', 'Arguments::new')
def _fmt_args(it, c, a):
    pieces = deref(a[0]) if a else None
    s = ''
    try:
        if isinstance(pieces, StrV):
            s = pieces.s
        elif isinstance(pieces, (Agg, SliceV, VecV)):
            s = '{}'.join(x.s for x in items_of(pieces) if isinstance(x, StrV))
    except Exception:
        s = ''
    return Opaque(('fmt', s))


def _panic(kind):
    def h(it, c, a):
        raise Panic(kind, fmt_msg(a[0]) if a else '', it.stack)
    return h


for _k in ('panicking::panic_fmt', 'panicking::panic', 'panicking::panic_display', 'panicking::panic_str',
           'panicking::panic_explicit', 'rt::begin_panic', 'panicking::panic_nounwind', 'panicking::unreachable_display'):
    M[_k] = _panic('explicit-panic')
for _k in ('panicking::assert_failed', 'panicking::assert_failed_inner'):
    M[_k] = _panic('assert-failed')
M['panicking::panic_bounds_check'] = _panic('index-out-of-bounds')
M['option::unwrap_failed'] = _panic('unwrap-none')
M['option::expect_failed'] = _panic('unwrap-none')
M['result::unwrap_failed'] = _panic('unwrap-err')
M['str::slice_error_fail'] = _panic('str-slice')
M['process::abort'] = _panic('abort')


@model('Argument::new_display', 'Argument::new_debug', 'Argument::new_lower_hex')
def _fmt_arg(it, c, a):
    return Opaque('fmtarg')


@model('fmt::format', 'ToString::to_string', '<String as From>::from', '<str as ToString>::to_string',
       '<str as ToOwned>::to_owned', 'str::to_owned', 'str::to_string')
def _format(it, c, a):
    v = deref(a[0])
    if isinstance(v, StrV):
        return StringV([IntV(x, 8, 0) for x in v.s.encode()])
    if isinstance(v, StrSym):
        return StringV(list(v.b))
    return Opaque('formatted-string')


# ---------------------------------------------------------------- Cell / mem

@model('Cell::get')
def _cell_get(it, c, a):
    return deref(a[0]).v[0]


@model('Cell::set')
def _cell_set(it, c, a):
    deref(a[0]).v[0] = a[1]; return UNIT


@model('Cell::new')
def _cell_new(it, c, a):
    return CellV(a[0])


@model('mem::replace')
def _replace(it, c, a):
    old = a[0].get(); a[0].set(a[1]); return old


@model('mem::swap')
def _swap(it, c, a):
    x, y = a[0].get(), a[1].get(); a[0].set(y); a[1].set(x); return UNIT


@model('mem::drop', 'mem::forget')
def _drop(it, c, a):
    return UNIT


# ---------------------------------------------------------------- Vec / slices

@model('Vec::new', '<Vec as Default>::default')
def _vec_new(it, c, a):
    return VecV([])


@model('Vec::with_capacity')
def _vec_cap(it, c, a):
    return VecV([])


@model('Vec::len', '[]::len')
def _len(it, c, a):
    return IntV(len(items_of(a[0])), 64, 0)


@model('Vec::is_empty', '[]::is_empty')
def _is_empty(it, c, a):
    return BoolV(len(items_of(a[0])) == 0)


@model('Vec::push')
def _push(it, c, a):
    deref(a[0]).items.append(a[1]); return UNIT


@model('Vec::pop')
def _pop(it, c, a):
    xs = deref(a[0]).items
    return some(xs.pop()) if xs else none()


@model('Vec::clear')
def _clear(it, c, a):
    del deref(a[0]).items[:]; return UNIT


@model('Vec::retain', 'Vec::retain_mut')
def _vec_retain(it, c, a):
    v = deref(a[0]); xs = v.items
    keep = []
    for i, x in enumerate(list(xs)):
        if it.choose_bool(it.call_closure(a[1], [RefV(xs, i)])):
            keep.append(xs[i])
    xs[:] = keep
    return UNIT


@model('Vec::reverse')
def _vec_reverse(it, c, a):
    deref(a[0]).items.reverse(); return UNIT


@model('Vec::swap_remove')
def _vec_swap_remove(it, c, a):
    xs = deref(a[0]).items; i = cint(it, a[1], 'Vec::swap_remove index', fork=True)
    if i >= len(xs):
        raise Panic('vec-swap-remove-oob', 'swap_remove index (is %d) should be < len (is %d)' % (i, len(xs)), it.stack)
    x = xs[i]; xs[i] = xs[-1]; xs.pop()
    return x


@model('Vec::insert')
def _insert(it, c, a):
    xs = deref(a[0]).items; i = cint(it, a[1], 'Vec::insert index', fork=True)
    if i > len(xs):
        raise Panic('vec-insert-oob', 'insertion index (is %d) should be <= len (is %d)' % (i, len(xs)), it.stack)
    xs.insert(i, a[2]); return UNIT


@model('Vec::truncate')
def _truncate(it, c, a):
    xs = deref(a[0]).items; n = cint(it, a[1])
    del xs[n:]; return UNIT


@model('<Vec as Deref>::deref', '<Vec as DerefMut>::deref_mut', 'Vec::as_slice', 'Vec::as_mut_slice',
       '<Vec as AsRef>::as_ref', '<Vec as Borrow>::borrow')
def _vec_deref(it, c, a):
    return SliceV(deref(a[0]).items)


@model('<Vec as Clone>::clone')
def _vec_clone(it, c, a):
    return VecV([dcopy(x) for x in deref(a[0]).items])


def _index(it, xs, i):
    if isinstance(i, LazyV):
        i = i.as_int(64)
    if isinstance(i, IntV):
        if i.sym():
            inb = it.choose([(z3.ULT(i.v, len(xs)), True), (z3.UGE(i.v, len(xs)), False)])
            if not inb:
                raise Panic('index-out-of-bounds', 'symbolic index, len %d' % len(xs), it.stack)
            return RefV([it.sym_select(xs, i)], 0)
        if i.v >= len(xs):
            raise Panic('index-out-of-bounds', 'index %d len %d' % (i.v, len(xs)), it.stack)
        return RefV(xs, i.v)
    if isinstance(i, Agg) and i.name in ('Range', 'RangeFrom', 'RangeTo', 'RangeFull', 'RangeInclusive'):
        lo, hi = _range_bounds(it, i, len(xs))
        if lo > hi or hi > len(xs):
            raise Panic('slice-index', 'range %d..%d len %d' % (lo, hi, len(xs)), it.stack)
        return SliceV(xs[lo:hi], base=xs, off=lo)
    raise Unsupported('index by %r' % (i,))


def _range_bounds(it, r, n):
    # symbolic slice bounds are forked into their (few) feasible concrete values
    if r.name == 'Range':
        return cint(it, r.fields[0], fork=True), cint(it, r.fields[1], fork=True)
    if r.name == 'RangeFrom':
        return cint(it, r.fields[0], fork=True), n
    if r.name == 'RangeTo':
        return 0, cint(it, r.fields[0], fork=True)
    if r.name == 'RangeFull':
        return 0, n
    if r.name == 'RangeInclusive':
        return cint(it, r.fields[0], fork=True), cint(it, r.fields[1], fork=True) + 1
    raise Unsupported('range ' + r.name)


@model('<Vec as Index>::index', '<Vec as IndexMut>::index_mut', '<[] as Index>::index', '<[] as IndexMut>::index_mut')
def _vec_index(it, c, a):
    return _index(it, items_of(a[0]), a[1])


@model('[]::get', '[]::get_mut')
def _slice_get(it, c, a):
    xs = items_of(a[0]); i = a[1]
    if isinstance(i, LazyV):
        i = i.as_int(64)
    if isinstance(i, IntV):
        if i.sym():
            inb = it.choose([(z3.ULT(i.v, len(xs)), True), (z3.UGE(i.v, len(xs)), False)])
            if not inb:
                return none()
            return some(RefV([it.sym_select(xs, i)], 0))
        return some(RefV(xs, i.v)) if i.v < len(xs) else none()
    raise Unsupported('slice::get by %r' % (i,))


@model('[]::first')
def _first(it, c, a):
    xs = items_of(a[0]); return some(RefV(xs, 0)) if xs else none()


@model('[]::last', '[]::last_mut', 'Vec::last', 'Vec::last_mut')
def _last(it, c, a):
    xs = items_of(a[0]); return some(RefV(xs, len(xs) - 1)) if xs else none()


@model('[]::partition_point')
def _partition_point(it, c, a):
    # std's exact binary search steps (core::slice::binary_search_by shape used by partition_point)
    xs = items_of(a[0]); clo = a[1]

    def pred(i):
        return it.choose_bool(it.call_closure(clo, [RefV(xs, i)]))
    size = len(xs)
    if size == 0:
        return IntV(0, 64, 0)
    base = 0
    while size > 1:
        half = size // 2; mid = base + half
        base = mid if pred(mid) else base
        size -= half
    return IntV(base + (1 if pred(base) else 0), 64, 0)


@model('[]::to_vec', '[]::to_owned')
def _to_vec(it, c, a):
    return VecV([dcopy(x) for x in items_of(a[0])])


# ---------------------------------------------------------------- Option / Result

@model('Option::unwrap', 'Option::expect')
def _opt_unwrap(it, c, a):
    it.last_unwrap_lazy = isinstance(deref(a[0]), LazyV)          # was the unwrapped value an unconstrained (havoc'd) one?
    var, pay = shape(it, a[0], ['None', 'Some'])
    if var == 'None':
        raise Panic('unwrap-none', '', it.stack)
    return pay


@model('Result::unwrap', 'Result::expect')
def _res_unwrap(it, c, a):
    it.last_unwrap_lazy = isinstance(deref(a[0]), LazyV)
    var, pay = shape(it, a[0], ['Ok', 'Err'])
    if var != 'Ok':
        raise Panic('unwrap-err', '', it.stack)
    return pay


@model('Option::map_or')
def _map_or(it, c, a):
    var, pay = shape(it, a[0], ['None', 'Some'])
    return a[1] if var == 'None' else it.call_closure(a[2], [pay])


@model('Option::map')
def _opt_map(it, c, a):
    var, pay = shape(it, a[0], ['None', 'Some'])
    return none() if var == 'None' else some(it.call_closure(a[1], [pay]))


@model('Option::and_then')
def _and_then(it, c, a):
    var, pay = shape(it, a[0], ['None', 'Some'])
    return none() if var == 'None' else it.call_closure(a[1], [pay])


@model('Option::or_else')
def _opt_or_else(it, c, a):
    var, pay = shape(it, a[0], ['None', 'Some'])
    return (a[0] if not isinstance(a[0], LazyV) else some(pay)) if var == 'Some' else it.call_closure(a[1], [])


@model('Option::or')
def _opt_or(it, c, a):
    var, pay = shape(it, a[0], ['None', 'Some'])
    return (a[0] if not isinstance(a[0], LazyV) else some(pay)) if var == 'Some' else a[1]


@model('Option::unwrap_or_else')
def _unwrap_or_else(it, c, a):
    var, pay = shape(it, a[0], ['None', 'Some'])
    return pay if var == 'Some' else it.call_closure(a[1], [])


@model('Option::unwrap_or')
def _unwrap_or(it, c, a):
    var, pay = shape(it, a[0], ['None', 'Some'])
    return pay if var == 'Some' else a[1]


@model('Option::unwrap_or_default')
def _unwrap_or_default(it, c, a):
    var, pay = shape(it, a[0], ['None', 'Some'])
    if var == 'Some':
        return pay
    if it.uc:
        return LazyV('default')
    raise Unsupported('unwrap_or_default on None')


@model('Option::copied', 'Option::cloned')
def _copied(it, c, a):
    var, pay = shape(it, a[0], ['None', 'Some'])
    return none() if var == 'None' else some(dcopy(deref(pay)) if isinstance(pay, RefV) else pay)


@model('Option::is_none')
def _is_none(it, c, a):
    var, _ = shape(it, deref(a[0]), ['None', 'Some']); return BoolV(var == 'None')


@model('Option::is_some')
def _is_some(it, c, a):
    var, _ = shape(it, deref(a[0]), ['None', 'Some']); return BoolV(var == 'Some')


@model('Option::as_ref', 'Option::as_mut', 'Option::as_deref')
def _as_ref(it, c, a):
    o = deref(a[0])
    var, pay = shape(it, o, ['None', 'Some'])
    if var == 'None':
        return none()
    if isinstance(o, Agg):
        return some(RefV(o.fields, 0))
    return some(RefV([pay], 0))


@model('Option::ok_or_else', 'Option::ok_or')
def _ok_or_else(it, c, a):
    var, pay = shape(it, a[0], ['None', 'Some'])
    if var == 'Some':
        return ok(pay)
    if c.split('::')[-1].startswith('ok_or_else') or 'ok_or_else' in c:
        try:
            return err(it.call_closure(a[1], []))
        except Unsupported:
            return err(Opaque('err'))
    return err(a[1])


@model('Option::take')
def _take(it, c, a):
    old = a[0].get(); a[0].set(none()); return old


@model('Result::ok')
def _res_ok(it, c, a):
    var, pay = shape(it, a[0], ['Ok', 'Err'])
    return some(pay) if var == 'Ok' else none()


@model('Result::is_ok')
def _res_is_ok(it, c, a):
    var, _ = shape(it, deref(a[0]), ['Ok', 'Err']); return BoolV(var == 'Ok')


@model('Result::is_err')
def _res_is_err(it, c, a):
    var, _ = shape(it, deref(a[0]), ['Ok', 'Err']); return BoolV(var == 'Err')


@model('Result::map_err')
def _map_err(it, c, a):
    var, pay = shape(it, a[0], ['Ok', 'Err'])
    if var == 'Ok':
        return ok(pay)
    try:
        return err(it.call_closure(a[1], [pay]))
    except Unsupported:
        return err(Opaque('mapped-err'))


@tmodel('Try', 'branch')
def _try_branch(it, c, a):
    v = a[0]
    if (isinstance(v, Agg) and v.name == 'Option') or '<Option' in _ck(c):
        var, pay = shape(it, v, ['None', 'Some'])
        if var == 'Some':
            return Agg('enum', 'ControlFlow', 'Continue', [pay])
        return Agg('enum', 'ControlFlow', 'Break', [none()])
    var, pay = shape(it, v, ['Ok', 'Err'])
    if var == 'Ok':
        return Agg('enum', 'ControlFlow', 'Continue', [pay])
    return Agg('enum', 'ControlFlow', 'Break', [err(pay)])


@tmodel('FromResidual', 'from_residual')
def _from_residual(it, c, a):
    v = a[0]
    if isinstance(v, Agg) and v.name == 'Option':
        return none()
    if isinstance(v, Agg) and v.name == 'Result':
        return err(v.fields[0])
    if '<Option' in _ck(c):
        return none()
    return err(LazyV('residual') if it.uc else Opaque('residual'))


def _ck(c):
    from .interp import canon_callee
    return canon_callee(c)


# ---------------------------------------------------------------- integers / conversions

@model('usize::saturating_sub', 'u32::saturating_sub', 'u64::saturating_sub', 'u8::saturating_sub')
def _sat_sub(it, c, a):
    x, y = a
    if not x.sym() and not y.sym():
        return IntV(max(0, x.v - y.v), x.bits, 0)
    lt = z3.ULT(x.z(), y.z())
    return IntV(z3.If(lt, z3.BitVecVal(0, x.bits), x.z() - y.z()), x.bits, 0)


@model('usize::saturating_add', 'u32::saturating_add', 'u64::saturating_add', 'u16::saturating_add', 'u8::saturating_add')
def _sat_add(it, c, a):
    x, y = a
    M_ = (1 << x.bits) - 1
    if not x.sym() and not y.sym():
        return IntV(min(M_, x.v + y.v), x.bits, 0)
    s_ = x.z() + y.z()
    return IntV(z3.If(z3.ULT(s_, x.z()), z3.BitVecVal(M_, x.bits), s_), x.bits, 0)


@model('usize::checked_sub', 'u32::checked_sub')
def _checked_sub(it, c, a):
    x, y = a
    if not x.sym() and not y.sym():
        return some(IntV(x.v - y.v, x.bits, 0)) if x.v >= y.v else none()
    if it.choose([(z3.UGE(x.z(), y.z()), True), (z3.ULT(x.z(), y.z()), False)]):
        return some(IntV(x.z() - y.z(), x.bits, 0))
    return none()


@model('usize::checked_add', 'u32::checked_add')
def _checked_add(it, c, a):
    x, y = a
    r = it.binop('AddWithOverflow', x, y)
    ov = r.fields[1]
    if it.choose_bool(ov):
        return none()
    return some(r.fields[0])


@model('usize::min', 'u32::min', '<usize as Ord>::min', '<u32 as Ord>::min', 'cmp::min')
def _min(it, c, a):
    x, y = a
    if not x.sym() and not y.sym():
        return IntV(min(x.v, y.v), x.bits, x.signed)
    return IntV(z3.If(z3.ULE(x.z(), y.z()), x.z(), y.z()), x.bits, x.signed)


@model('usize::max', 'u32::max', '<usize as Ord>::max', '<u32 as Ord>::max', 'cmp::max')
def _max(it, c, a):
    x, y = a
    if not x.sym() and not y.sym():
        return IntV(max(x.v, y.v), x.bits, x.signed)
    return IntV(z3.If(z3.UGE(x.z(), y.z()), x.z(), y.z()), x.bits, x.signed)


def _try_from_int(bits):
    def h(it, c, a):
        x = a[0]
        if isinstance(x, LazyV):
            x = x.as_int(64)
        lim = (1 << bits) - 1
        if not x.sym():
            if x.v > lim:
                return err(Opaque('TryFromIntError'))
            return ok(IntV(x.v, bits, 0))
        if x.bits <= bits:
            return ok(it.int_cast(x, 'u%d' % bits))
        fits = it.choose([(z3.ULE(x.v, lim), True), (z3.UGT(x.v, lim), False)])
        if not fits:
            return err(Opaque('TryFromIntError'))
        return ok(IntV(z3.Extract(bits - 1, 0, x.v), bits, 0))
    return h


M['<u32 as TryFrom>::try_from'] = _try_from_int(32)
M['<u32 as TryInto>::try_into'] = _try_from_int(32)
M['<usize as TryInto>::try_into'] = _try_from_int(32)


@model('<usize as TryFrom>::try_from')
def _usize_try_from(it, c, a):
    return ok(it.int_cast(a[0], 'usize'))


@model('<u32 as From>::from', '<u32 as Into>::into', '<usize as From>::from')
def _u32_from(it, c, a):
    x = a[0]
    if isinstance(x, Agg) and x.name == 'TextSize':
        return x.fields[0]
    ty = 'usize' if _ck(c).startswith('<usize') else 'u32'
    return it.int_cast(x, ty)


@tmodel('Default', 'default')
def _default(it, c, a):
    m = re.match(r'^<(\w+) as ', c)
    if m and m.group(1) in INTW:
        bits, sg = INTW[m.group(1)]
        return IntV(0, bits, sg)
    if m and m.group(1) == 'bool':
        return BoolV(False)
    return NotImplemented


@tmodel('PartialEq', 'eq', 'ne')
def _peq(it, c, a):
    x, y = deref(a[0]), deref(a[1])
    if isinstance(x, (IntV, BoolV)) and isinstance(y, (IntV, BoolV)):
        return it.binop('Eq' if c.endswith('eq') else 'Ne', x, y)
    if isinstance(x, StrV) and isinstance(y, StrV):
        return BoolV((x.s == y.s) == c.endswith('eq'))
    if isinstance(x, Agg) and isinstance(y, Agg) and x.name == 'TextSize' and y.name == 'TextSize':
        return it.binop('Eq' if c.endswith('eq') else 'Ne', x.fields[0], y.fields[0])
    return NotImplemented


@tmodel('PartialOrd', 'lt', 'le', 'gt', 'ge')
def _pord(it, c, a):
    x, y = deref(a[0]), deref(a[1])
    op = {'lt': 'Lt', 'le': 'Le', 'gt': 'Gt', 'ge': 'Ge'}[c.split('::')[-1]]
    if isinstance(x, Agg) and x.name == 'TextSize':
        x, y = x.fields[0], y.fields[0]
    if isinstance(x, IntV) and isinstance(y, IntV):
        return it.binop(op, x, y)
    return NotImplemented


@tmodel('Ord', 'cmp')
def _ord_cmp(it, c, a):
    x, y = deref(a[0]), deref(a[1])
    if isinstance(x, IntV) and isinstance(y, IntV):
        return it.binop('Cmp', x, y)
    return NotImplemented


@tmodel('Clone', 'clone')
def _clone(it, c, a):
    v = deref(a[0])
    if isinstance(v, (IntV, BoolV, StrV, StrSym, Opaque, LazyV, FnV)):
        return v
    if isinstance(v, VecV):
        return VecV([dcopy(x) for x in v.items])
    if isinstance(v, StringV):
        return StringV(list(v.b))
    if isinstance(v, (Agg, MapV)):
        return dcopy(v)
    return NotImplemented


@tmodel('Into', 'into')
@tmodel('From', 'from')
def _into(it, c, a):
    k = _ck(c)
    if k == '<TextSize as Into>::into':
        return it.int_cast(tsz(a[0]), 'usize' if 'Into<usize>' in c else 'u32')
    if k in ('<SyntaxKind as Into>::into', '<SyntaxKind as From>::from'):
        x = a[0]
        if isinstance(x, Agg) and x.name == 'SyntaxKind' and x.kind == 'struct':   # rowan::SyntaxKind(u16)
            return x.fields[0]
        return x
    return NotImplemented


# ---------------------------------------------------------------- ranges

@model('RangeInclusive::new')
def _ri_new(it, c, a):
    return Agg('struct', 'RangeInclusive', None, [a[0], a[1]])


@model('RangeInclusive::contains', 'Range::contains')
def _r_contains(it, c, a):
    r = deref(a[0]); x = deref(a[1])
    lo = it.binop('Le', r.fields[0], x)
    hi = it.binop('Le' if r.name == 'RangeInclusive' else 'Lt', x, r.fields[1])
    return it.binop('BitAnd', lo, hi)


# ---------------------------------------------------------------- closures

@tmodel('Fn', 'call')
@tmodel('FnMut', 'call_mut')
@tmodel('FnOnce', 'call_once')
def _fn_call(it, c, a):
    clo = a[0]
    args = list(a[1].fields) if isinstance(a[1], Agg) else [a[1]]
    return it.call_closure(clo, args)


# ---------------------------------------------------------------- generic lazy iterator protocol

def as_iter(it, v):
    if isinstance(v, PyIter):
        return v
    if isinstance(v, RefV):
        return as_iter(it, v.get())
    if isinstance(v, SliceV):
        xs = v.items
        return PyIter((RefV(xs, i) for i in range(len(xs))))
    if isinstance(v, VecV):
        return PyIter((x for x in list(v.items)))
    if isinstance(v, Agg) and v.kind == 'array':
        return PyIter((x for x in list(v.fields)))
    if isinstance(v, Agg) and v.name == 'RangeFrom':
        st = v.fields[0]

        def g():
            k = cint(it, st)
            while True:
                yield IntV(k, st.bits, st.signed); k += 1
        return PyIter(g())
    if isinstance(v, Agg) and v.kind == 'enum' and v.name == 'Option':
        return PyIter((x for x in list(v.fields)))
    if isinstance(v, Agg) and v.name in ('Range', 'RangeInclusive'):
        def g():
            while True:
                cur = v.fields[0]; end = v.fields[1]
                more = it.choose_bool(it.binop('Lt' if v.name == 'Range' else 'Le', cur, end))
                if not more:
                    return
                v.fields[0] = it.binop('Add', cur, IntV(1, cur.bits, cur.signed))
                yield cur
        return PyIter(g())
    if isinstance(v, CharsV):
        return PyIter(chars_gen(it, v))
    if isinstance(v, MapV):
        return PyIter((tup(RefV([k], 0), RefV([x], 0)) for k, x in list(v.kv)))
    raise Unsupported('as_iter %r' % (v,))


def utf8_len_fork(it, b):
    """number of bytes of the UTF-8 sequence starting with lead byte b (forks if symbolic)"""
    if b.sym():
        return it.choose([(z3.ULT(b.v, 0x80), 1), (z3.And(z3.UGE(b.v, 0xC0), z3.ULE(b.v, 0xDF)), 2),
                          (z3.And(z3.UGE(b.v, 0xE0), z3.ULE(b.v, 0xEF)), 3), (z3.UGE(b.v, 0xF0), 4)])
    if 0x80 <= b.v <= 0xBF:
        raise Unsupported('char iteration starting on a continuation byte')
    return 1 if b.v < 0x80 else 2 if b.v < 0xE0 else 3 if b.v < 0xF0 else 4


def decode_char(it, bs):
    """code point (IntV u32) of a complete UTF-8 sequence given as 1..4 IntV bytes (exact bit arithmetic)"""
    k = len(bs)
    if all(not b.sym() for b in bs):
        return IntV(ord(bytes(b.v for b in bs).decode('utf-8')), 32, 0)
    z = [z3.ZeroExt(24, b.z()) for b in bs]
    if k == 1:
        return IntV(z[0], 32, 0)
    if k == 2:
        return IntV(((z[0] & 0x1F) << 6) | (z[1] & 0x3F), 32, 0)
    if k == 3:
        return IntV(((z[0] & 0x0F) << 12) | ((z[1] & 0x3F) << 6) | (z[2] & 0x3F), 32, 0)
    return IntV(((z[0] & 0x07) << 18) | ((z[1] & 0x3F) << 12) | ((z[2] & 0x3F) << 6) | (z[3] & 0x3F), 32, 0)


def chars_gen(it, ch):
    ss = ch.ss.b if isinstance(ch.ss, (StrSym, StringV)) else [IntV(x, 8, 0) for x in ch.ss.s.encode()]
    while ch.i < len(ss):
        k = utf8_len_fork(it, ss[ch.i])
        if ch.i + k > len(ss):
            raise Unsupported('truncated UTF-8 sequence in a str (input constraint missing)')
        cv = decode_char(it, ss[ch.i:ch.i + k])
        ch.i += k
        yield cv


@model('[]::iter', '[]::iter_mut', 'Vec::iter', 'Vec::iter_mut')
def _iter(it, c, a):
    return PyIter(iter(elem_refs(a[0])))


@model('Vec::drain')
def _drain(it, c, a):
    xs = deref(a[0]).items
    r = a[1]
    lo, hi = _range_bounds(it, r, len(xs))
    taken = xs[lo:hi]; del xs[lo:hi]
    return PyIter((x for x in taken))


@tmodel('IntoIterator', 'into_iter')
def _into_iter(it, c, a):
    v = a[0]
    if isinstance(v, SliceV):
        return PyIter(iter(elem_refs(v)))          # a slice value IS a borrow (&[T] / &mut [T])
    if isinstance(v, RefV):
        t = v.get()
        if isinstance(t, (VecV, SliceV)) or (isinstance(t, Agg) and t.kind == 'array'):
            return PyIter(iter(elem_refs(t)))
        if isinstance(t, MapV):
            return as_iter(it, t)
    return persist(it, v)


_STATEFUL_RANGES = ('Range', 'RangeInclusive', 'RangeFrom')


def persist(it, v):
    """turn an iterator *value* into something with identity, so repeated next() calls advance it"""
    t = v.get() if isinstance(v, RefV) else v
    if isinstance(t, PyIter):
        return t
    if isinstance(t, LazyV) and it.uc:
        # under-constrained mode: a collection returned by a havoc'd callee is iterated as empty (recorded in the trace)
        it.trace.append(('<iterate-unknown-collection>', [t], None, tuple(it.stack)))
        return PyIter((x for x in []))
    if isinstance(t, Agg) and t.name in _STATEFUL_RANGES and all(isinstance(f, IntV) for f in t.fields):
        return t
    if isinstance(t, Agg) and t.kind == 'struct' and it.resolve('<%s as std::iter::Iterator>::next' % t.name, 1) is not None:
        return t
    if isinstance(v, RefV) and (isinstance(t, (VecV, SliceV, MapV)) or (isinstance(t, Agg) and t.kind == 'array')):
        if isinstance(t, MapV):
            return as_iter(it, t)
        return PyIter(iter(elem_refs(t)))
    return as_iter(it, t)


def _it_next(it, src):
    if isinstance(src, RefV):
        src = src.get()
    if isinstance(src, Agg) and src.name in ('Range', 'RangeInclusive'):
        cur, end = src.fields[0], src.fields[1]
        more = it.choose_bool(it.binop('Lt' if src.name == 'Range' else 'Le', cur, end))
        if not more:
            return None
        src.fields[0] = it.binop('Add', cur, IntV(1, cur.bits, cur.signed))
        return cur
    if isinstance(src, Agg) and src.name == 'RangeFrom':
        cur = src.fields[0]
        src.fields[0] = it.binop('Add', cur, IntV(1, cur.bits, cur.signed))
        return cur
    if isinstance(src, Agg) and src.kind == 'struct':
        fb = it.resolve('<%s as std::iter::Iterator>::next' % src.name, 1)
        if fb is not None:
            r = it.run_body(fb, [RefV([src], 0)])
            var, pay = shape(it, r, ['None', 'Some'])
            return None if var == 'None' else pay
    if isinstance(src, PyIter):
        return src.nxt()
    raise Unsupported('next() on a non-iterator value %r (missing into_iter?)' % (src,))


@tmodel('Iterator', 'next')
def _next(it, c, a):
    x = _it_next(it, a[0])
    return none() if x is None else some(x)


def _drain_all(it, src):
    src = persist(it, src)
    while True:
        x = _it_next(it, src)
        if x is None:
            return
        yield x


@tmodel('Iterator', 'copied', 'cloned')
def _it_copied(it, c, a):
    src = persist(it, a[0])
    return PyIter((dcopy(deref(x)) for x in _drain_all(it, src)))


@tmodel('Iterator', 'by_ref')
def _by_ref(it, c, a):
    return a[0]


@tmodel('Iterator', 'enumerate')
def _enumerate(it, c, a):
    src = persist(it, a[0])
    return PyIter((tup(IntV(i, 64, 0), x) for i, x in enumerate(_drain_all(it, src))))


@tmodel('Iterator', 'zip')
def _zip(it, c, a):
    s1, s2 = persist(it, a[0]), persist(it, a[1])

    def g():
        while True:
            x = _it_next(it, s1)
            if x is None:
                return
            y = _it_next(it, s2)
            if y is None:
                return
            yield tup(x, y)
    return PyIter(g())


@tmodel('Iterator', 'chain')
def _chain(it, c, a):
    s1, s2 = persist(it, a[0]), persist(it, a[1])

    def g():
        for x in _drain_all(it, s1):
            yield x
        for x in _drain_all(it, s2):
            yield x
    return PyIter(g())


@tmodel('Iterator', 'rev')
def _rev(it, c, a):
    xs = list(_drain_all(it, a[0]))
    return PyIter((x for x in reversed(xs)))


@tmodel('Iterator', 'filter', 'take_while', 'skip_while', 'map', 'filter_map', 'flat_map', 'inspect', 'map_while')
def _adapt(it, c, a):
    src, clo = persist(it, a[0]), a[1]
    meth = re.sub(r'::<.*', '', c[c.rindex('>::') + 3:]) if '>::' in c else c.split('::')[-1]

    def g():
        skipping = True
        for x in _drain_all(it, src):
            if meth == 'map':
                yield it.call_closure(clo, [x]); continue
            if meth == 'inspect':
                it.call_closure(clo, [RefV([x], 0)]); yield x; continue
            if meth in ('filter_map', 'map_while'):
                r = it.call_closure(clo, [x])
                var, pay = shape(it, r, ['None', 'Some'])
                if var == 'Some':
                    yield pay
                elif meth == 'map_while':
                    return
                continue
            if meth == 'flat_map':
                for y in _drain_all(it, _into_iter(it, c, [it.call_closure(clo, [x])])):
                    yield y
                continue
            keep = it.choose_bool(it.call_closure(clo, [RefV([x], 0)]))
            if meth == 'filter':
                if keep:
                    yield x
            elif meth == 'take_while':
                if not keep:
                    return
                yield x
            else:
                if skipping and keep:
                    continue
                skipping = False
                yield x
    return PyIter(g())


@tmodel('Iterator', 'flatten')
def _flatten(it, c, a):
    src = persist(it, a[0])

    def g():
        for x in _drain_all(it, src):
            for y in _drain_all(it, _into_iter(it, c, [x])):
                yield y
    return PyIter(g())


@tmodel('Iterator', 'take')
def _take_n(it, c, a):
    src = persist(it, a[0]); n = cint(it, a[1])

    def g():
        for i in range(n):
            x = _it_next(it, src)
            if x is None:
                return
            yield x
    return PyIter(g())


@tmodel('Iterator', 'skip')
def _skip_n(it, c, a):
    src = persist(it, a[0]); n = cint(it, a[1])

    def g():
        for i in range(n):
            if _it_next(it, src) is None:
                return
        for x in _drain_all(it, src):
            yield x
    return PyIter(g())


@tmodel('Iterator', 'peekable')
def _peekable(it, c, a):
    p = persist(it, a[0])
    return p if isinstance(p, PyIter) else PyIter(_drain_all(it, p))


@model('Peekable::peek')
def _peek(it, c, a):
    p = deref(a[0])
    if not p.peeked:
        x = p.nxt()
        if x is None:
            return none()
        p.peeked.append(x)
    return some(RefV(p.peeked, 0))


@tmodel('Iterator', 'collect')
def _collect(it, c, a):
    xs = list(_drain_all(it, a[0]))
    m = re.search(r'collect::<(.*)>$', c)
    target = canon_type(m.group(1)) if m else 'Vec'
    if target in ('Vec', '_'):
        return VecV(xs)
    if target == 'String':
        out = []
        for x in xs:
            if isinstance(x, IntV):
                out.extend(encode_char(it, x))
            elif isinstance(x, (StrSym, StringV)):
                out.extend(x.b)
            elif isinstance(x, StrV):
                out.extend(IntV(y, 8, 0) for y in x.s.encode())
            else:
                raise Unsupported('collect String from %r' % (x,))
        return StringV(out)
    if target in ('HashMap', 'FxHashMap', 'IndexMap', 'BTreeMap'):
        mp = MapV()
        for x in xs:
            _map_insert(it, mp, x.fields[0], x.fields[1])
        return mp
    if target in ('HashSet', 'FxHashSet', 'IndexSet', 'BTreeSet'):
        mp = MapV()
        for x in xs:
            _map_insert(it, mp, x, UNIT)
        return mp
    if target == 'PathBuf':
        return PathV([_comp_of(x) for x in xs])
    raise Unsupported('collect into ' + target)


@tmodel('Iterator', 'sum')
def _sum(it, c, a):
    m = re.search(r'sum::<(\w+)>$', c)
    ty = m.group(1) if m else 'u32'
    bits, sg = INTW.get(ty, (32, 0))
    acc = IntV(0, bits, sg)
    for x in _drain_all(it, a[0]):
        x = deref(x)
        r = it.binop('AddWithOverflow', acc, x)
        # std: overflow in sum panics with overflow checks on; wrap otherwise -- both profiles see the
        # same MIR-external code, so treat overflow as a reported panic (never observed in bounds used)
        if it.choose_bool(r.fields[1]):
            raise Panic('arith-overflow', 'iterator sum', it.stack)
        acc = r.fields[0]
    return acc


@tmodel('Iterator', 'count')
def _count(it, c, a):
    return IntV(sum(1 for _ in _drain_all(it, a[0])), 64, 0)


@tmodel('Iterator', 'last')
def _it_last(it, c, a):
    last = None
    for x in _drain_all(it, a[0]):
        last = x
    return none() if last is None else some(last)


@tmodel('Iterator', 'nth')
def _nth(it, c, a):
    n = cint(it, a[1])
    for i, x in enumerate(_drain_all(it, a[0])):
        if i == n:
            return some(x)
    return none()


@tmodel('Iterator', 'for_each')
def _for_each(it, c, a):
    for x in _drain_all(it, a[0]):
        it.call_closure(a[1], [x])
    return UNIT


@tmodel('Iterator', 'fold')
def _fold(it, c, a):
    acc = a[1]
    for x in _drain_all(it, a[0]):
        acc = it.call_closure(a[2], [acc, x])
    return acc


@tmodel('Iterator', 'find', 'position', 'any', 'all', 'find_map')
def _find(it, c, a):
    meth = re.sub(r'::<.*', '', c[c.rindex('>::') + 3:])
    for i, x in enumerate(_drain_all(it, a[0])):
        if meth == 'find_map':
            r = it.call_closure(a[1], [x])
            var, pay = shape(it, r, ['None', 'Some'])
            if var == 'Some':
                return some(pay)
            continue
        r = it.choose_bool(it.call_closure(a[1], [RefV([x], 0) if meth == 'find' else x]))
        if meth == 'find' and r:
            return some(x)
        if meth == 'position' and r:
            return some(IntV(i, 64, 0))
        if meth == 'any' and r:
            return BoolV(True)
        if meth == 'all' and not r:
            return BoolV(False)
    return {'find': none, 'position': none, 'find_map': none, 'any': lambda: BoolV(False), 'all': lambda: BoolV(True)}[meth]()


@tmodel('Iterator', 'max', 'min')
def _it_max(it, c, a):
    best = None
    mx = c.split('::')[-1].startswith('max')
    for x in _drain_all(it, a[0]):
        if best is None:
            best = x; continue
        xv, bv = deref(x), deref(best)
        ge = it.choose_bool(it.binop('Ge' if mx else 'Lt', xv, bv))
        if ge:
            best = x
    return none() if best is None else some(best)


@model('iter::successors')
def _successors(it, c, a):
    first, clo = a[0], a[1]

    def g():
        cur = first
        while True:
            var, pay = shape(it, cur, ['None', 'Some'])
            if var == 'None':
                return
            yield pay
            cur = it.call_closure(clo, [RefV([pay], 0)])
    return PyIter(g())


@model('iter::once')
def _once(it, c, a):
    return PyIter((x for x in [a[0]]))


@model('iter::empty')
def _empty(it, c, a):
    return PyIter((x for x in []))


@model('iter::repeat')
def _repeat(it, c, a):
    def g():
        while True:
            yield dcopy(a[0])
    return PyIter(g())


# ---------------------------------------------------------------- maps (ordered association list)

def _key_eq(it, k1, k2):
    """returns python bool, forking when the keys are symbolic"""
    k1, k2 = deref(k1), deref(k2)
    if isinstance(k1, IntV) and isinstance(k2, IntV):
        return it.choose_bool(it.binop('Eq', k1, k2))
    if isinstance(k1, BoolV) and isinstance(k2, BoolV):
        return it.choose_bool(it.binop('Eq', k1, k2))
    if isinstance(k1, StrV) and isinstance(k2, StrV):
        return k1.s == k2.s
    if isinstance(k1, Agg) and isinstance(k2, Agg):
        if k1.kind != k2.kind or k1.variant != k2.variant or len(k1.fields) != len(k2.fields):
            return False
        for f1, f2 in zip(k1.fields, k2.fields):
            if not _key_eq(it, f1, f2):
                return False
        return True
    if isinstance(k1, Opaque) and isinstance(k2, Opaque):
        return k1.tag == k2.tag
    if isinstance(k1, PathV) and isinstance(k2, PathV):
        return len(k1.comps) == len(k2.comps) and all(_comp_eq(it, x, y) for x, y in zip(k1.comps, k2.comps))
    if isinstance(k1, (StrSym, StringV)) and isinstance(k2, (StrSym, StringV)):
        if len(k1.b) != len(k2.b):
            return False
        for x, y in zip(k1.b, k2.b):
            if not it.choose_bool(it.binop('Eq', x, y)):
                return False
        return True
    raise Unsupported('key equality of %r and %r' % (k1, k2))


def _map_find(it, mp, key):
    for j, (k, v) in enumerate(mp.kv):
        if _key_eq(it, k, key):
            return j
    return None


def _map_insert(it, mp, k, v):
    j = _map_find(it, mp, k)
    if j is None:
        mp.kv.append((k, v)); return none()
    old = mp.kv[j][1]
    mp.kv[j] = (mp.kv[j][0], v)
    return some(old)


for _t in ('HashMap', 'IndexMap', 'BTreeMap'):
    M['<%s as Default>::default' % _t] = lambda it, c, a: MapV()
    M['%s::new' % _t] = lambda it, c, a: MapV()
    M['%s::default' % _t] = lambda it, c, a: MapV()
    M['%s::with_capacity_and_hasher' % _t] = lambda it, c, a: MapV()
    M['%s::insert' % _t] = lambda it, c, a: _map_insert(it, deref(a[0]), a[1], a[2])
    M['%s::len' % _t] = lambda it, c, a: IntV(len(deref(a[0]).kv), 64, 0)
    M['%s::is_empty' % _t] = lambda it, c, a: BoolV(len(deref(a[0]).kv) == 0)

    def _get(it, c, a):
        mp = deref(a[0]); j = _map_find(it, mp, a[1])
        if j is None:
            return none()
        cell = [mp.kv[j][1]]
        return some(RefV(_KVRef(mp, j), 1))
    M['%s::get' % _t] = _get
    M['%s::get_mut' % _t] = _get
    M['%s::contains_key' % _t] = lambda it, c, a: BoolV(_map_find(it, deref(a[0]), a[1]) is not None)

    def _remove(it, c, a):
        mp = deref(a[0]); j = _map_find(it, mp, a[1])
        if j is None:
            return none()
        return some(mp.kv.pop(j)[1])
    M['%s::remove' % _t] = _remove
    def _map_retain(it, c, a):
        mp = deref(a[0]); keep = []
        for j in range(len(mp.kv)):
            k = mp.kv[j][0]
            if it.choose_bool(it.call_closure(a[1], [RefV([k], 0), RefV(_KVRef(mp, j), 1)])):
                keep.append(j)
        mp.kv[:] = [mp.kv[j] for j in keep]
        return UNIT
    M['%s::retain' % _t] = _map_retain
    M['%s::clear' % _t] = lambda it, c, a: (deref(a[0]).kv.clear(), UNIT)[1]
    M['%s::iter' % _t] = lambda it, c, a: as_iter(it, deref(a[0]))
    M['%s::keys' % _t] = lambda it, c, a: PyIter((RefV([k], 0) for k, v in list(deref(a[0]).kv)))
    M['%s::values' % _t] = lambda it, c, a: PyIter((RefV(_KVRef(deref(a[0]), j), 1) for j in range(len(deref(a[0]).kv))))
    M['<%s as Index>::index' % _t] = lambda it, c, a: _map_index(it, a)


for _t in ('HashSet', 'IndexSet', 'BTreeSet'):
    # sets are maps to unit (see the collect model); iteration in insertion order, as IndexSet does
    M['%s::iter' % _t] = lambda it, c, a: PyIter(iter([RefV([k], 0) for k, _ in list(deref(a[0]).kv)]))
    M['%s::len' % _t] = lambda it, c, a: IntV(len(deref(a[0]).kv), 64, 0)
    M['%s::is_empty' % _t] = lambda it, c, a: BoolV(len(deref(a[0]).kv) == 0)


def _entry(it, c, a):
    mp = deref(a[0]); key = a[1]
    j = _map_find(it, mp, key)
    return Agg('enum', 'Entry', 'Vacant' if j is None else 'Occupied', [tup(RefV([mp], 0), key if j is None else IntV(j, 64, 0))])


def _entry_slot(it, e, mk):
    mp = deref(e.fields[0].fields[0])
    if e.variant == 'Vacant':
        mp.kv.append((e.fields[0].fields[1], mk()))
        j = len(mp.kv) - 1
    else:
        j = e.fields[0].fields[1].v
    return RefV(_KVRef(mp, j), 1)


def _entry_default(it, c, a):
    m = re.search(r'Entry::<[^,]*,\s*[^,]+,\s*(.*)>::or_default', c)
    vt = m.group(1).strip() if m else ''

    def mk():
        if re.match(r'^(std::vec::|alloc::vec::)?Vec<', vt):
            return VecV([])
        if re.match(r'^[\w:]*(HashMap|IndexMap|BTreeMap|HashSet|IndexSet)<', vt):
            return MapV()
        mi = re.match(r'^([ui])(8|16|32|64|size)$', vt)
        if mi:
            return IntV(0, 64 if mi.group(2) == 'size' else int(mi.group(2)), 1 if mi.group(1) == 'i' else 0)
        raise Unsupported('Entry::or_default for the value type %r' % vt)
    return _entry_slot(it, a[0], mk)


def _entry_and_modify(it, c, a):
    e = a[0]
    if e.variant == 'Occupied':
        mp = deref(e.fields[0].fields[0]); j = e.fields[0].fields[1].v
        it.call_closure(a[1], [RefV(_KVRef(mp, j), 1)])
    return e


for _t in ('HashMap', 'IndexMap', 'BTreeMap'):
    M['%s::entry' % _t] = _entry
M['Entry::or_default'] = _entry_default
M['Entry::or_insert_with'] = lambda it, c, a: _entry_slot(it, a[0], lambda: it.call_closure(a[1], []))
M['Entry::or_insert'] = lambda it, c, a: _entry_slot(it, a[0], lambda: a[1])
M['Entry::and_modify'] = _entry_and_modify


def _map_index(it, a):
    mp = deref(a[0]); j = _map_find(it, mp, a[1])
    if j is None:
        raise Panic('map-index-missing', 'no entry found for key', it.stack)
    return RefV(_KVRef(mp, j), 1)


class _KVRef:
    """container adaptor so a RefV can point at the value slot of an association-list entry"""
    __slots__ = ('mp', 'j')

    def __init__(s, mp, j):
        s.mp = mp; s.j = j

    def __getitem__(s, k):
        return s.mp.kv[s.j][k]

    def __setitem__(s, k, v):
        e = list(s.mp.kv[s.j]); e[k] = v; s.mp.kv[s.j] = tuple(e)


# ---------------------------------------------------------------- str / String over byte lists

def str_bytes(v):
    v = deref(v)
    if isinstance(v, (StrSym, StringV)):
        return v.b
    if isinstance(v, StrV):
        return [IntV(x, 8, 0) for x in v.s.encode()]
    raise Unsupported('str_bytes %r' % (v,))


def is_cont_fork(it, b):
    if b.sym():
        c = z3.And(z3.UGE(b.v, 0x80), z3.ULE(b.v, 0xBF))
        return it.choose([(c, True), (z3.Not(c), False)])
    return 0x80 <= b.v <= 0xBF


def encode_char(it, ch):
    if not ch.sym():
        return [IntV(x, 8, 0) for x in chr(ch.v).encode('utf-8')]
    v = ch.v
    k = it.choose([(z3.ULT(v, 0x80), 1), (z3.And(z3.UGE(v, 0x80), z3.ULT(v, 0x800)), 2),
                   (z3.And(z3.UGE(v, 0x800), z3.ULT(v, 0x10000)), 3), (z3.UGE(v, 0x10000), 4)])
    ex = lambda hi, lo: z3.Extract(hi, lo, v)
    if k == 1:
        return [IntV(ex(7, 0), 8, 0)]
    if k == 2:
        return [IntV(z3.Concat(z3.BitVecVal(0b110, 3), ex(10, 6)), 8, 0), IntV(z3.Concat(z3.BitVecVal(0b10, 2), ex(5, 0)), 8, 0)]
    if k == 3:
        return [IntV(z3.Concat(z3.BitVecVal(0b1110, 4), ex(15, 12)), 8, 0), IntV(z3.Concat(z3.BitVecVal(0b10, 2), ex(11, 6)), 8, 0),
                IntV(z3.Concat(z3.BitVecVal(0b10, 2), ex(5, 0)), 8, 0)]
    return [IntV(z3.Concat(z3.BitVecVal(0b11110, 5), ex(20, 18)), 8, 0), IntV(z3.Concat(z3.BitVecVal(0b10, 2), ex(17, 12)), 8, 0),
            IntV(z3.Concat(z3.BitVecVal(0b10, 2), ex(11, 6)), 8, 0), IntV(z3.Concat(z3.BitVecVal(0b10, 2), ex(5, 0)), 8, 0)]


@model('str::len', 'String::len')
def _str_len(it, c, a):
    return IntV(len(str_bytes(a[0])), 64, 0)


@model('str::is_empty', 'String::is_empty')
def _str_is_empty(it, c, a):
    return BoolV(len(str_bytes(a[0])) == 0)


@model('str::as_bytes', 'String::as_bytes')
def _as_bytes(it, c, a):
    v = deref(a[0])
    if isinstance(v, Opaque):
        return Opaque('bytes')
    return SliceV(str_bytes(v))


@model('str::bytes', 'String::bytes')
def _str_bytes_iter(it, c, a):
    return PyIter(iter(list(str_bytes(a[0]))))


@model('u8::is_ascii')
def _u8_is_ascii(it, c, a):
    return it.binop('Lt', deref(a[0]), IntV(0x80, 8, 0))


@model('u8::is_ascii_alphanumeric', 'u8::is_ascii_uppercase', 'u8::is_ascii_lowercase', 'u8::is_ascii_digit', 'u8::is_ascii_alphabetic')
def _u8_class(it, c, a):
    x = deref(a[0]); name = c.split('::')[-1].split('(')[0]
    rng = lambda lo, hi: it.binop('BitAnd', it.binop('Ge', x, IntV(lo, 8, 0)), it.binop('Le', x, IntV(hi, 8, 0)))
    up, lo, dg = rng(0x41, 0x5A), rng(0x61, 0x7A), rng(0x30, 0x39)
    if 'uppercase' in name:
        return up
    if 'lowercase' in name:
        return lo
    if 'digit' in name:
        return dg
    al = it.binop('BitOr', up, lo)
    return al if 'alphabetic' in name else it.binop('BitOr', al, dg)


@model('str::chars')
def _chars(it, c, a):
    return PyIter(chars_gen(it, CharsV(deref(a[0]))))


@model('str::char_indices')
def _char_indices(it, c, a):
    ch = CharsV(deref(a[0]))

    def g():
        gen = chars_gen(it, ch)
        while True:
            pos = ch.i
            try:
                cv = next(gen)
            except StopIteration:
                return
            yield tup(IntV(pos, 64, 0), cv)
    return PyIter(g())


@model('char::len_utf8')
def _len_utf8(it, c, a):
    x = a[0]
    if x.sym():
        k = it.choose([(z3.ULT(x.v, 0x80), 1), (z3.And(z3.UGE(x.v, 0x80), z3.ULT(x.v, 0x800)), 2),
                       (z3.And(z3.UGE(x.v, 0x800), z3.ULT(x.v, 0x10000)), 3), (z3.UGE(x.v, 0x10000), 4)])
    else:
        k = 1 if x.v < 0x80 else 2 if x.v < 0x800 else 3 if x.v < 0x10000 else 4
    return IntV(k, 64, 0)


@model('char::len_utf16')
def _len_utf16(it, c, a):
    x = a[0]
    if x.sym():
        k = it.choose([(z3.ULT(x.v, 0x10000), 1), (z3.UGE(x.v, 0x10000), 2)])
    else:
        k = 1 if x.v < 0x10000 else 2
    return IntV(k, 64, 0)


_WS_POINTS = [0x20, 0x85, 0xA0, 0x1680, 0x2028, 0x2029, 0x202F, 0x205F, 0x3000]


@model('char::is_whitespace')
def _is_whitespace(it, c, a):
    # Unicode White_Space, as core::char::methods::is_whitespace
    x = deref(a[0])
    if not x.sym():
        v = x.v
        return BoolV(0x09 <= v <= 0x0D or v in _WS_POINTS or 0x2000 <= v <= 0x200A)
    v = x.v
    return BoolV(z3.Or([z3.And(z3.UGE(v, 0x09), z3.ULE(v, 0x0D)), z3.And(z3.UGE(v, 0x2000), z3.ULE(v, 0x200A))] + [v == p for p in _WS_POINTS]))


@model('char::is_ascii_whitespace')
def _is_ascii_whitespace(it, c, a):
    x = deref(a[0])
    if not x.sym():
        return BoolV(x.v in (0x20, 0x09, 0x0A, 0x0C, 0x0D))
    return BoolV(z3.Or([x.v == p for p in (0x20, 0x09, 0x0A, 0x0C, 0x0D)]))


@model('char::is_ascii')
def _is_ascii(it, c, a):
    x = deref(a[0])
    return it.binop('Lt', x, IntV(0x80, 32, 0))


@model('str::is_char_boundary', 'String::is_char_boundary')
def _is_char_boundary(it, c, a):
    b = str_bytes(a[0]); i = a[1]
    if isinstance(i, Agg):
        i = i.fields[0]
    if i.sym():
        i = IntV(it.concretize(i), 64, 0)
    if i.v == 0 or i.v == len(b):
        return BoolV(True)
    if i.v > len(b):
        return BoolV(False)
    return BoolV(not is_cont_fork(it, b[i.v]))


def str_slice(it, b, lo, hi):
    if lo > hi or hi > len(b):
        raise Panic('str-slice', 'byte range %d..%d out of bounds of len %d' % (lo, hi, len(b)), it.stack)
    for p in (lo, hi):
        if 0 < p < len(b) and is_cont_fork(it, b[p]):
            raise Panic('str-slice', 'byte index %d is not a char boundary' % p, it.stack)
    return StrSym(b[lo:hi], off=lo)


def text_range_bounds(it, r):
    r = deref(r)
    if isinstance(r, Agg) and r.name == 'TextRange':
        return cint(it, r.fields[0].fields[0], fork=True), cint(it, r.fields[1].fields[0], fork=True)
    raise Unsupported('text range %r' % (r,))


@model('<str as Index>::index', '<String as Index>::index')
def _str_index(it, c, a):
    s = deref(a[0]); r = deref(a[1])
    if isinstance(s, StrV) and isinstance(r, Opaque):
        return Opaque(('slice', r))
    if isinstance(r, Opaque):
        return Opaque(('slice', r))
    b = str_bytes(s)
    if isinstance(r, Agg) and r.name == 'TextRange':
        lo, hi = text_range_bounds(it, r)
    else:
        lo, hi = _range_bounds(it, r, len(b))
    r2 = str_slice(it, b, lo, hi)
    if isinstance(s, StrSym):
        r2.off += s.off
    return r2


@model('str::get', 'String::get')
def _str_get(it, c, a):
    """str::get(range) -> Option<&str>: None where indexing would panic (out of bounds, not on a char boundary)"""
    r = deref(a[1])
    if isinstance(r, Opaque) or isinstance(deref(a[0]), Opaque):
        return some(Opaque(('slice', r)))
    try:
        return some(_str_index(it, c, a))
    except Panic as e:
        if e.kind != 'str-slice':
            raise
        return none()


@tmodel('Context', 'with_context', 'context')
def _anyhow_context(it, c, a):
    """anyhow::Context on Option / Result: Some(x) | Ok(x) -> Ok(x), None | Err(_) -> Err(error); the message closure is not run"""
    v = a[0]
    if isinstance(v, Agg) and v.name in ('Option', 'Result'):
        if v.variant in ('Some', 'Ok'):
            return ok(v.fields[0])
        return err(Opaque('anyhow-error'))
    return NotImplemented


@tmodel('Extend', 'extend')
def _extend(it, c, a):
    tgt = deref(a[0])
    if isinstance(tgt, StringV):
        for x in _drain_all(it, a[1]):
            x = deref(x)
            if isinstance(x, (StrSym, StringV, StrV)):
                tgt.b.extend(str_bytes(x))
            else:
                tgt.b.extend(encode_char(it, x))
        return UNIT
    if isinstance(tgt, VecV):
        for x in _drain_all(it, a[1]):
            tgt.items.append(x)
        return UNIT
    return NotImplemented


@model('String::new', '<String as Default>::default')
def _string_new(it, c, a):
    return StringV([])


@model('String::with_capacity')
def _string_cap(it, c, a):
    return StringV([])


@model('String::push_str', '<String as AddAssign>::add_assign')
def _push_str(it, c, a):
    deref(a[0]).b.extend(str_bytes(a[1])); return UNIT


@model('String::push')
def _string_push(it, c, a):
    deref(a[0]).b.extend(encode_char(it, a[1])); return UNIT


@model('<String as Add>::add')
def _string_add(it, c, a):
    s = a[0]; s.b.extend(str_bytes(a[1])); return s


@model('<String as Deref>::deref', 'String::as_str', '<String as AsRef>::as_ref', '<String as Borrow>::borrow',
       'String::as_mut_str', '<String as DerefMut>::deref_mut')
def _string_deref(it, c, a):
    return StrSym(deref(a[0]).b)


@model('String::retain')
def _retain(it, c, a):
    st = deref(a[0]); clo = a[1]; out = []; i = 0
    while i < len(st.b):
        k = utf8_len_fork(it, st.b[i])
        if i + k > len(st.b):
            raise Unsupported('truncated UTF-8 in String::retain')
        chv = decode_char(it, st.b[i:i + k])
        keep = it.choose_bool(it.call_closure(clo, [chv]))
        if keep:
            out.extend(st.b[i:i + k])
        i += k
    st.b[:] = out
    return UNIT


@model('String::replace_range')
def _replace_range(it, c, a):
    st = deref(a[0]); r = a[1]; w = str_bytes(a[2])
    lo, hi = _range_bounds(it, r, len(st.b))
    if lo > hi or hi > len(st.b):
        raise Panic('str-slice', 'replace_range %d..%d out of bounds of len %d' % (lo, hi, len(st.b)), it.stack)
    for p in (lo, hi):
        if 0 < p < len(st.b) and is_cont_fork(it, st.b[p]):
            raise Panic('str-slice', 'replace_range: byte index %d is not a char boundary' % p, it.stack)
    st.b[lo:hi] = list(w)
    return UNIT


@model('<String as Clone>::clone')
def _string_clone(it, c, a):
    return StringV(list(deref(a[0]).b))


# ---------------------------------------------------------------- text-size

def tsz(v):
    v = deref(v)
    if isinstance(v, Agg) and v.name == 'TextSize':
        return v.fields[0]
    if isinstance(v, IntV):
        return v
    raise Unsupported('TextSize of %r' % (v,))


def mk_tsz(iv):
    return Agg('struct', 'TextSize', None, [iv])


def mk_range(a, b):
    return Agg('struct', 'TextRange', None, [mk_tsz(a), mk_tsz(b)])


@model('<TextSize as From>::from', 'TextSize::new', '<u32 as Into>::into')
def _ts_from(it, c, a):
    x = a[0]
    if isinstance(x, Opaque):
        return Opaque('TextSize')
    return mk_tsz(it.int_cast(x, 'u32'))


@model('<TextSize as TryFrom>::try_from')
def _ts_try_from(it, c, a):
    r = _try_from_int(32)(it, c, a)
    return ok(mk_tsz(r.fields[0])) if r.variant == 'Ok' else r


@model('<u32 as From>::from')
def _u32_from_ts(it, c, a):
    x = a[0]
    return tsz(x) if isinstance(x, Agg) else it.int_cast(x, 'u32')


@model('<usize as From>::from')
def _usize_from_ts(it, c, a):
    x = a[0]
    return it.int_cast(tsz(x), 'usize')


@model('TextRange::new')
def _tr_new(it, c, a):
    if isinstance(a[0], Opaque) or isinstance(a[1], Opaque):
        return Opaque('TextRange')
    s, e = tsz(a[0]), tsz(a[1])
    okc = it.binop('Le', s, e)
    if not it.choose_bool(okc):
        raise Panic('assert-failed', 'TextRange::new: assertion failed: start <= end', it.stack)
    return mk_range(s, e)


@model('TextRange::empty')
def _tr_empty(it, c, a):
    if isinstance(a[0], Opaque):
        return Opaque(('empty-range', a[0]))
    return mk_range(tsz(a[0]), tsz(a[0]))


@model('TextRange::at')
def _tr_at(it, c, a):
    s, l = tsz(a[0]), tsz(a[1])
    r = it.binop('AddWithOverflow', s, l)
    if it.choose_bool(r.fields[1]):
        raise Panic('arith-overflow', 'TextRange::at', it.stack)
    return mk_range(s, r.fields[0])


@model('TextRange::up_to')
def _tr_up_to(it, c, a):
    return mk_range(IntV(0, 32, 0), tsz(a[0]))


@model('TextRange::start')
def _tr_start(it, c, a):
    return dcopy(deref(a[0]).fields[0])


@model('TextRange::end')
def _tr_end(it, c, a):
    return dcopy(deref(a[0]).fields[1])


@model('TextRange::len')
def _tr_len(it, c, a):
    r = deref(a[0])
    return mk_tsz(it.binop('Sub', tsz(r.fields[1]), tsz(r.fields[0])))


@model('TextRange::is_empty')
def _tr_is_empty(it, c, a):
    r = deref(a[0])
    return it.binop('Eq', tsz(r.fields[1]), tsz(r.fields[0]))


@model('TextRange::contains')
def _tr_contains(it, c, a):
    r = deref(a[0]); x = tsz(a[1])
    return it.binop('BitAnd', it.binop('Le', tsz(r.fields[0]), x), it.binop('Lt', x, tsz(r.fields[1])))


@model('TextRange::intersect')
def _tr_intersect(it, c, a):
    # text-size: start = max(starts), end = min(ends); None if end < start
    r1, r2 = deref(a[0]), deref(a[1])
    s1, e1, s2, e2 = tsz(r1.fields[0]), tsz(r1.fields[1]), tsz(r2.fields[0]), tsz(r2.fields[1])
    s_ = IntV(z3.simplify(z3.If(z3.UGE(s1.z(), s2.z()), s1.z(), s2.z())), 32, 0)
    e_ = IntV(z3.simplify(z3.If(z3.ULE(e1.z(), e2.z()), e1.z(), e2.z())), 32, 0)
    if it.choose_bool(it.binop('Lt', e_, s_)):
        return none()
    return some(mk_range(s_, e_))


@model('TextRange::cover')
def _tr_cover(it, c, a):
    r1, r2 = deref(a[0]), deref(a[1])
    s1, e1, s2, e2 = tsz(r1.fields[0]), tsz(r1.fields[1]), tsz(r2.fields[0]), tsz(r2.fields[1])
    s_ = IntV(z3.simplify(z3.If(z3.ULE(s1.z(), s2.z()), s1.z(), s2.z())), 32, 0)
    e_ = IntV(z3.simplify(z3.If(z3.UGE(e1.z(), e2.z()), e1.z(), e2.z())), 32, 0)
    return mk_range(s_, e_)


@model('TextRange::contains_inclusive')
def _tr_contains_incl(it, c, a):
    r = deref(a[0]); x = tsz(a[1])
    return it.binop('BitAnd', it.binop('Le', tsz(r.fields[0]), x), it.binop('Le', x, tsz(r.fields[1])))


@model('<TextSize as Add>::add', '<TextSize as Sub>::sub')
def _ts_arith(it, c, a):
    op = 'Add' if '::add' in c else 'Sub'
    x, y = tsz(a[0]), tsz(a[1])
    r = it.binop(op + 'WithOverflow', x, y)
    # text-size uses plain u32 +/-: panics with overflow checks (dev), wraps in release; the crate is a
    # dependency compiled in the profile of the build, so follow the executor's profile
    if it.profile_overflow_checks:
        if it.choose_bool(r.fields[1]):
            raise Panic('arith-overflow', 'TextSize ' + op, it.stack)
    return mk_tsz(r.fields[0])


@model('<TextSize as AddAssign>::add_assign')
def _ts_add_assign(it, c, a):
    cur = a[0].get()
    a[0].set(_ts_arith(it, '::add', [cur, a[1]])); return UNIT


@model('TextSize::of')
def _ts_of(it, c, a):
    v = deref(a[0])
    if isinstance(v, IntV):     # char
        return mk_tsz(it.int_cast(_len_utf8(it, c, [v]), 'u32'))
    return mk_tsz(IntV(len(str_bytes(v)), 32, 0))


@model('TextSize::checked_sub')
def _ts_checked_sub(it, c, a):
    r = _checked_sub(it, c, [tsz(a[0]), tsz(a[1])])
    return r if r.variant == 'None' else some(mk_tsz(r.fields[0]))


# ---------------------------------------------------------------- rowan GreenNodeBuilder (event log + rowan's panics)

@model('<GreenNodeBuilder as Default>::default', 'GreenNodeBuilder::new')
def _gb_new(it, c, a):
    return BuilderV()


@model('GreenNodeBuilder::start_node')
def _gb_start(it, c, a):
    b = deref(a[0]); b.log.append(('start', a[1])); b.depth += 1; b.flat.append(0); return UNIT


@model('GreenNodeBuilder::finish_node')
def _gb_finish_node(it, c, a):
    b = deref(a[0])
    if b.depth == 0:
        raise Panic('rowan-builder', 'finish_node without open node (unwrap on None)', it.stack)
    b.depth -= 1; b.log.append(('finish',)); b.flat.pop(); b.flat[-1] += 1
    if b.depth == 0:
        b.roots += 1
    return UNIT


@model('GreenNodeBuilder::token')
def _gb_token(it, c, a):
    b = deref(a[0]); b.log.append(('token', a[1], a[2])); b.flat[-1] += 1
    if b.depth == 0:
        b.roots += 1
    return UNIT


@model('GreenNodeBuilder::finish')
def _gb_finish(it, c, a):
    """rowan 0.15: `assert_eq!(self.children.len(), 1)` over the FLAT children vector -- nodes still open are NOT checked.
    With open nodes and exactly one flat child, that child is returned as the root (the unmatched start_node calls are lost)."""
    b = deref(a[0])
    n = sum(b.flat)
    if n != 1:
        raise Panic('rowan-builder', 'finish: assert_eq!(self.children.len(), 1): %d flat children (open nodes %d, finished roots %d)' % (n, b.depth, b.roots), it.stack)
    if b.depth:
        b.open_at_finish = b.depth
        keep = [True] * len(b.log); st = []
        for i, e in enumerate(b.log):
            if e[0] == 'start':
                st.append(i)
            elif e[0] == 'finish':
                st.pop()
        for i in st:
            keep[i] = False
        b.log = [e for i, e in enumerate(b.log) if keep[i]]
    if b.log and b.log[0][0] == 'token':
        raise Panic('rowan-builder', 'finish: the single child is a token (panic!())', it.stack)
    return Agg('struct', 'GreenNode', None, [b])


@model('<SyntaxKind as Into>::into', '<SyntaxKind as From>::from')
def _kind_into(it, c, a):
    return NotImplemented


# ---------------------------------------------------------------- logos 0.12 runtime

def _lx(a):
    return deref(a[0])


def _lx_read(lx, off, spec):
    if spec == 'u8':
        return some(lx.src[off]) if off < lx.n else none()
    k = int(re.match(r'&\[u8; (\d+)\]', spec).group(1))
    if off + k <= lx.n:
        return some(RefV([Agg('array', '[]', None, list(lx.src[off:off + k]))], 0))
    return none()


@model('<Lexer as LexerInternal>::read')
def _lx_read0(it, c, a):
    lx = _lx(a)
    m = re.search(r'::read::<(.*)>$', c)
    return _lx_read(lx, lx.end, m.group(1))


@model('<Lexer as LexerInternal>::read_at')
def _lx_read_at(it, c, a):
    lx = _lx(a)
    m = re.search(r'::read_at::<(.*)>$', c)
    return _lx_read(lx, lx.end + cint(it, a[1]), m.group(1))


@model('<Lexer as LexerInternal>::test')
def _lx_test(it, c, a):
    lx = _lx(a)
    m = re.search(r'::test::<(.*?),', c)
    if m.group(1) != 'u8':
        raise Unsupported('logos test::<%s>' % m.group(1))
    if lx.end < lx.n:
        return it.call_closure(a[1], [lx.src[lx.end]])
    return BoolV(False)


@model('<Lexer as LexerInternal>::bump_unchecked')
def _lx_bump_unchecked(it, c, a):
    lx = _lx(a); n = cint(it, a[1])
    if lx.end + n > lx.n:
        raise Panic('logos-bump', 'Bumping out of bounds!', it.stack)     # debug_assert in logos
    lx.end += n; return UNIT


@model('<Lexer as LexerInternal>::set')
def _lx_set(it, c, a):
    _lx(a).token = a[1]; return UNIT


@model('<Lexer as LexerInternal>::end')
def _lx_end(it, c, a):
    _lx(a).token = None; return UNIT


@model('<Lexer as LexerInternal>::trivia')
def _lx_trivia(it, c, a):
    lx = _lx(a); lx.start = lx.end; return UNIT


# ---------------------------------------------------------------- std::path over component lists (PathV)

def _pv(v):
    v = deref(v)
    while isinstance(v, RefV):
        v = v.get()
    if not isinstance(v, PathV):
        raise Unsupported('path operation on %r' % (v,))
    return v


def _comp_eq(it, x, y):
    if x == 'ROOT' or y == 'ROOT':
        return x == y
    if len(x) != len(y):
        return False
    conds = [a.z() == b.z() for a, b in zip(x, y)]
    if not conds:
        return True
    return it.choose_bool(BoolV(z3.simplify(z3.And(conds))))


def _comp_val(cmp_):
    return Agg('enum', 'Component', 'RootDir', []) if cmp_ == 'ROOT' else Agg('enum', 'Component', 'Normal', [StrSym(list(cmp_))])


def _comp_of(v):
    v = deref(v)
    if isinstance(v, Agg) and v.name == 'Component':
        return 'ROOT' if v.variant == 'RootDir' else list(deref(v.fields[0]).b)
    raise Unsupported('path component %r' % (v,))


@model('Path::components', 'Path::iter')
def _path_components(it, c, a):
    return PyIter((_comp_val(x) for x in list(_pv(a[0]).comps)))


@model('<Component as PartialEq>::eq', '<Component as PartialEq>::ne')
def _component_eq(it, c, a):
    r = _comp_eq(it, _comp_of(a[0]), _comp_of(a[1]))
    return BoolV(r if c.endswith('eq') else not r)


@model('Path::strip_prefix')
def _path_strip_prefix(it, c, a):
    p_, b_ = _pv(a[0]), _pv(a[1])
    if len(b_.comps) > len(p_.comps):
        return err(UNIT)
    for x, y in zip(b_.comps, p_.comps):
        if not _comp_eq(it, x, y):
            return err(UNIT)
    return ok(PathV(p_.comps[len(b_.comps):]))


@model('Path::starts_with')
def _path_starts_with(it, c, a):
    p_, b_ = _pv(a[0]), _pv(a[1])
    if len(b_.comps) > len(p_.comps):
        return BoolV(False)
    return BoolV(all(_comp_eq(it, x, y) for x, y in zip(b_.comps, p_.comps)))


@model('Path::to_path_buf', '<PathBuf as Clone>::clone', '<Path as ToOwned>::to_owned', 'Path::to_owned')
def _path_to_buf(it, c, a):
    return PathV(_pv(a[0]).comps)


@model('<PathBuf as Deref>::deref', 'PathBuf::as_path', '<PathBuf as AsRef>::as_ref', '<Path as AsRef>::as_ref', '<PathBuf as Borrow>::borrow')
def _path_deref(it, c, a):
    return a[0]


@model('Path::parent')
def _path_parent(it, c, a):
    p_ = _pv(a[0])
    if not p_.comps or p_.comps == ['ROOT']:
        return none()
    return some(RefV([PathV(p_.comps[:-1])], 0))


@model('PathBuf::pop')
def _path_pop(it, c, a):
    p_ = _pv(a[0])
    if not p_.comps or p_.comps == ['ROOT']:
        return BoolV(False)
    p_.comps.pop()
    return BoolV(True)


def _path_arg(v):
    """a path-like argument: PathV, &str, OsStr"""
    v = deref(v)
    while isinstance(v, RefV):
        v = v.get()
    if isinstance(v, PathV):
        return list(v.comps)
    if isinstance(v, StrV):
        parts = [x for x in v.s.split('/') if x != '']
        return (['ROOT'] if v.s.startswith('/') else []) + [[IntV(b, 8, 0) for b in x.encode()] for x in parts]
    if isinstance(v, (StrSym, StringV)):
        return [list(v.b)]
    raise Unsupported('path argument %r' % (v,))


@model('Path::join', 'PathBuf::join')
def _path_join(it, c, a):
    p_ = _pv(a[0]); other = _path_arg(a[1])
    if other and other[0] == 'ROOT':
        return PathV(other)
    return PathV(p_.comps + other)


@model('PathBuf::push')
def _path_push(it, c, a):
    p_ = _pv(a[0]); other = _path_arg(a[1])
    if other and other[0] == 'ROOT':
        p_.comps[:] = other
    else:
        p_.comps.extend(other)
    return UNIT


@model('Path::ends_with')
def _path_ends_with(it, c, a):
    p_ = _pv(a[0]); other = _path_arg(a[1])
    if len(other) > len(p_.comps):
        return BoolV(False)
    if not other:
        return BoolV(True)
    return BoolV(all(_comp_eq(it, x, y) for x, y in zip(other, p_.comps[len(p_.comps) - len(other):])))


def _wrapping(op):
    def f(it, c, a):
        x, y = deref(a[0]), deref(a[1])
        if not (isinstance(x, IntV) and isinstance(y, IntV)):
            return NotImplemented
        bits = x.bits; mask = (1 << bits) - 1
        if not x.sym() and not y.sym():
            v = {'sub': x.v - y.v, 'add': x.v + y.v, 'mul': x.v * y.v}[op] & mask
            return IntV(v, bits, x.signed)
        xz, yz = x.z(), y.z()
        return IntV(z3.simplify({'sub': xz - yz, 'add': xz + yz, 'mul': xz * yz}[op]), bits, x.signed)
    return f


for _ty in ('u8', 'u16', 'u32', 'u64', 'usize', 'i32', 'i64'):
    for _op in ('sub', 'add', 'mul'):
        M['%s::wrapping_%s' % (_ty, _op)] = _wrapping(_op)


def _checked_shl(it, c, a):
    x, sh = deref(a[0]), deref(a[1])
    if not (isinstance(x, IntV) and isinstance(sh, IntV)):
        return NotImplemented
    bits = x.bits
    if not sh.sym():
        if sh.v >= bits:
            return none()
        if not x.sym():
            return some(IntV((x.v << sh.v) & ((1 << bits) - 1), bits, x.signed))
        return some(IntV(z3.simplify(x.z() << sh.v), bits, x.signed))
    if it.choose_bool(BoolV(z3.UGE(sh.v, bits))):
        return none()
    shz = sh.v
    if shz.size() < bits:
        shz = z3.ZeroExt(bits - shz.size(), shz)
    elif shz.size() > bits:
        shz = z3.Extract(bits - 1, 0, shz)
    return some(IntV(z3.simplify(x.z() << shz), bits, x.signed))


for _ty in ('u8', 'u16', 'u32', 'u64', 'usize'):
    M['%s::checked_shl' % _ty] = _checked_shl


@model('hint::must_use', 'hint::black_box', 'convert::identity')
def _identity(it, c, a):
    return a[0]


@model('<bool as Not>::not', '<&bool as Not>::not')
def _bool_not(it, c, a):
    v = deref(a[0])
    if isinstance(v, LazyV):
        v = v.as_bool()
    return BoolV(not v.v) if not v.sym() else BoolV(z3.Not(v.v))


@model('OsStr::new')
def _osstr_new(it, c, a):
    return a[0]


@model('<Option as PartialEq>::eq', '<Option as PartialEq>::ne')
def _option_eq(it, c, a):
    x, y = deref(a[0]), deref(a[1])
    if isinstance(x, LazyV) or isinstance(y, LazyV):
        return NotImplemented
    vx, px = shape(it, x, ['None', 'Some']); vy, py = shape(it, y, ['None', 'Some'])
    if vx != vy:
        r = False
    elif vx == 'None':
        r = True
    else:
        px, py = deref(px), deref(py)
        if isinstance(px, (StrV, StrSym, StringV)) and isinstance(py, (StrV, StrSym, StringV)):
            r = _osstr_eq(it, '::eq', [px, py]).v
        else:
            r = _key_eq(it, px, py)
    return BoolV(r if c.endswith('eq') else not r)


def _split_name(it, name):
    """std: file_stem / extension of a file name: (stem bytes, extension bytes or None)"""
    dots = [i for i, b in enumerate(name) if it.choose_bool(BoolV(b.z() == 0x2E) if b.sym() else BoolV(b.v == 0x2E))]
    if len(name) == 2 and dots == [0, 1]:
        return list(name), None                   # ".."
    if not dots or dots[-1] == 0:
        return list(name), None                   # no dot, or only a leading dot
    return list(name[:dots[-1]]), list(name[dots[-1] + 1:])


@model('Path::extension')
def _path_extension(it, c, a):
    p_ = _pv(a[0])
    if not p_.comps or p_.comps[-1] == 'ROOT':
        return none()
    stem, ext = _split_name(it, p_.comps[-1])
    return none() if ext is None else some(StrSym(ext))


@model('Path::file_name')
def _path_file_name(it, c, a):
    p_ = _pv(a[0])
    if not p_.comps or p_.comps[-1] == 'ROOT':
        return none()
    return some(StrSym(list(p_.comps[-1])))


@model('PathBuf::set_extension')
def _path_set_extension(it, c, a):
    p_ = _pv(a[0]); new = deref(a[1])
    if not p_.comps or p_.comps[-1] == 'ROOT':
        return BoolV(False)
    stem, ext = _split_name(it, p_.comps[-1])
    nb = [IntV(x, 8, 0) for x in new.s.encode()] if isinstance(new, StrV) else list(new.b)
    p_.comps[-1] = stem + ([IntV(0x2E, 8, 0)] + nb if nb else [])
    return BoolV(True)


@model('Path::to_str')
def _path_to_str(it, c, a):
    # valid UTF-8 is the caller's assumption (the specs constrain the bytes)
    p_ = _pv(a[0]); out = []
    for i, x in enumerate(p_.comps):
        if x == 'ROOT':
            out.append(IntV(0x2F, 8, 0)); continue
        if i and p_.comps[i - 1] != 'ROOT':
            out.append(IntV(0x2F, 8, 0))
        out.extend(x)
    return some(StrSym(out))


@model('<&OsStr as PartialEq>::eq', '<&OsStr as PartialEq>::ne', '<OsStr as PartialEq>::eq', '<OsStr as PartialEq>::ne')
def _osstr_eq(it, c, a):
    x, y = deref(a[0]), deref(a[1])
    xb = list(x.b) if isinstance(x, (StrSym, StringV)) else [IntV(v, 8, 0) for v in x.s.encode()]
    yb = list(y.b) if isinstance(y, (StrSym, StringV)) else [IntV(v, 8, 0) for v in y.s.encode()]
    if len(xb) != len(yb):
        r = False
    else:
        r = it.choose_bool(BoolV(z3.simplify(z3.And([p.z() == q.z() for p, q in zip(xb, yb)])))) if xb else True
    return BoolV(r if c.endswith('eq') else not r)


@model('str::replace')
def _str_replace_char(it, c, a):
    # only the `replace::<char>(c, &str of one byte)` form: byte-wise, no fork
    if '<char>' not in c:
        return NotImplemented
    s_ = deref(a[0]); frm = a[1]; to = deref(a[2])
    tb = to.s.encode() if isinstance(to, StrV) else None
    if tb is None or len(tb) != 1 or not isinstance(frm, IntV) or frm.sym() or frm.v >= 0x80:
        raise Unsupported('str::replace form')
    src = s_.b if isinstance(s_, (StrSym, StringV)) else [IntV(v, 8, 0) for v in s_.s.encode()]
    out = []
    for b in src:
        if b.sym():
            out.append(IntV(z3.If(b.v == frm.v, z3.BitVecVal(tb[0], 8), b.v), 8, 0))
        else:
            out.append(IntV(tb[0] if b.v == frm.v else b.v, 8, 0))
    return StringV(out)


@model('<String as Into>::into', '<&str as Into>::into', '<SmolStr as From>::from')
def _into_smolstr(it, c, a):
    if 'SmolStr' not in c:
        return NotImplemented
    v = deref(a[0])
    if isinstance(v, StringV):
        v = StrSym(list(v.b))
    if isinstance(v, Agg) and v.name == 'SmolStr':
        return v
    return Agg('struct', 'SmolStr', None, [v])


@model('[]::contains', 'Vec::contains', 'slice::contains')
def _slice_contains(it, c, a):
    v = deref(a[0])
    if not isinstance(v, (VecV, SliceV)):
        return NotImplemented
    x = deref(a[1])
    return BoolV(any(_key_eq(it, y, x) for y in list(v.items)))


def _flat_key(k):
    """sort key -> flat list of (IntV, reversed?) components (tuples, newtypes, Reverse)"""
    out = []

    def go(v, rev):
        v = deref(v)
        if isinstance(v, IntV):
            out.append((v, rev)); return
        if isinstance(v, BoolV):
            out.append((IntV((1 if v.v else 0) if not v.sym() else z3.If(v.v, z3.BitVecVal(1, 8), z3.BitVecVal(0, 8)), 8, 0), rev)); return
        if isinstance(v, Agg) and v.kind in ('struct', 'tuple') and v.variant is None:
            for f in v.fields:
                go(f, rev != (v.name == 'Reverse'))
            return
        raise Unsupported('sort key component %r' % (v,))
    go(k, False)
    return out


def _key_less(it, ka, kb):
    """lexicographic ka < kb; forks on symbolic components"""
    for (x, rx), (y, _) in zip(ka, kb):
        if rx:
            x, y = y, x
        if not x.sym() and not y.sym():
            xv, yv = x.v, y.v
            if x.signed:
                xv = xv - (1 << x.bits) if xv >> (x.bits - 1) else xv
                yv = yv - (1 << y.bits) if yv >> (y.bits - 1) else yv
            if xv != yv:
                return xv < yv
            continue
        lt = (x.z() < y.z()) if x.signed else z3.ULT(x.z(), y.z())
        r = it.choose([(lt, 'lt'), (x.z() == y.z(), 'eq'), (z3.And(z3.Not(lt), x.z() != y.z()), 'gt')])
        if r != 'eq':
            return r == 'lt'
    return False


@model('Vec::sort_by_key', 'slice::sort_by_key', '[]::sort_by_key', 'Vec::sort_unstable_by_key', 'slice::sort_unstable_by_key', '[]::sort_unstable_by_key')
def _sort_by_key(it, c, a):
    v = deref(a[0]); xs = v.items if isinstance(v, VecV) or (isinstance(v, SliceV) and v.off == 0) else None
    if xs is None:
        raise Unsupported('sort_by_key on %r' % (v,))
    keyed = []
    for i, x in enumerate(xs):
        keyed.append((_flat_key(it.call_closure(a[1], [RefV(xs, i)])), x))
    # stable insertion sort; comparisons on symbolic keys fork the path
    out = []
    for k, x in keyed:
        j = len(out)
        while j > 0 and _key_less(it, k, out[j - 1][0]):
            j -= 1
        out.insert(j, (k, x))
    xs[:] = [t[1] for t in out]
    return UNIT


@model('Itertools::dedup_by')
@tmodel('Itertools', 'dedup_by')
def _dedup_by(it, c, a):
    src, clo = persist(it, a[0]), a[1]

    def g():
        last = None
        for x in _drain_all(it, src):
            if last is not None:
                same = it.call_closure(clo, [RefV([last], 0), RefV([x], 0)])
                if it.choose_bool(same):
                    continue
                yield last
            last = x
        if last is not None:
            yield last
    return PyIter(g())


@model('Vec::dedup_by_key', 'Vec::dedup_by')
def _vec_dedup_by(it, c, a):
    v = deref(a[0])
    if not isinstance(v, VecV):
        return NotImplemented
    bykey = c.split('::')[-1].startswith('dedup_by_key')
    out = []
    for x in list(v.items):
        if out:
            if bykey:
                ka = it.call_closure(a[1], [RefV([x], 0)]); kb = it.call_closure(a[1], [RefV([out[-1]], 0)])
                same = BoolV(not _key_less(it, _flat_key(ka), _flat_key(kb)) and not _key_less(it, _flat_key(kb), _flat_key(ka)))
            else:
                same = it.call_closure(a[1], [RefV([x], 0), RefV([out[-1]], 0)])
            if it.choose_bool(same):
                continue
        out.append(x)
    v.items[:] = out
    return UNIT


@model('Box::new_uninit')
def _box_new_uninit(it, c, a):
    cell = [Agg('struct', 'MaybeUninit', None, [UNIT, Agg('struct', 'ManuallyDrop', None, [Agg('struct', 'MaybeDangling', None, [Agg('array', '[]', None, [])])])])]
    return Agg('struct', 'Box', None, [Agg('struct', 'Unique', None, [Agg('struct', 'NonNull', None, [RefV(cell, 0)])]), UNIT])


@model('boxed::box_assume_init_into_vec_unsafe')
def _box_into_vec(it, c, a):
    # the lowering of vec![a, b, ..]: Box<MaybeUninit<[T; N]>> written through a raw pointer, then turned into a Vec
    mu = a[0].fields[0].fields[0].fields[0].get()
    arr = mu.fields[1].fields[0].fields[0]
    return VecV(list(arr.fields))


@model('logos::skip')
def _logos_skip(it, c, a):
    return Agg('struct', 'Skip', None, [])


@model('<Skip as CallbackResult>::construct')
def _logos_skip_construct(it, c, a):
    # logos 0.12 internal.rs: `lex.trivia(); T::lex(lex);`
    lx = deref(a[2]); lx.start = lx.end
    it.run_body(it.logos_lex, [a[2]])
    return UNIT


@model('<Lexer as LexerInternal>::error')
def _lx_error(it, c, a):
    # logos 0.12: token_end = source.find_boundary(token_end); token = ERROR
    lx = _lx(a)
    while lx.end < lx.n and is_cont_fork(it, lx.src[lx.end]):
        lx.end += 1
    lx.token = it.make_adt('SyntaxKind::ERROR', 'unit', [], '')
    return UNIT


@model('<bool as CallbackResult>::construct')
def _cb_bool(it, c, a):
    okv = it.choose_bool(a[0]); lx = deref(a[2])
    if okv:
        it.call_closure(a[1], [UNIT]) if False else None
        lx.token = it.call_closure(a[1], [UNIT])
    else:
        lx.token = it.make_adt('SyntaxKind::ERROR', 'unit', [], '')
    return UNIT


@model('Lexer::remainder')
def _lx_remainder(it, c, a):
    lx = _lx(a); return StrSym(lx.src[lx.end:], off=lx.end)


@model('Lexer::bump')
def _lx_bump(it, c, a):
    lx = _lx(a); n = cint(it, a[1])
    lx.end += n
    if lx.end > lx.n or (lx.end < lx.n and is_cont_fork(it, lx.src[lx.end])):
        raise Panic('logos-bump', 'Invalid Lexer bump', it.stack)
    return UNIT


@model('Lexer::span')
def _lx_span(it, c, a):
    lx = _lx(a); return Agg('struct', 'Range', None, [IntV(lx.start, 64, 0), IntV(lx.end, 64, 0)])


@model('Lexer::slice')
def _lx_slice(it, c, a):
    lx = _lx(a); return StrSym(lx.src[lx.start:lx.end], off=lx.start)


@model('Lexer::new', '<SyntaxKind as Logos>::lexer', 'Logos::lexer')
def _lx_new(it, c, a):
    return LexerV(str_bytes(a[0]))


@model('<Lexer as Iterator>::next')
def _lx_next(it, c, a):
    # logos 0.12 Lexer::next: token_start = token_end; Token::lex(self); self.token.take()
    lx = _lx(a)
    lx.start = lx.end
    lexfn = it.logos_lex
    it.run_body(lexfn, [a[0]])
    tok = lx.token; lx.token = None
    return none() if tok is None else some(tok)
