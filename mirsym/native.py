"""Build and drive the native oracle binaries (replay + translator validation; not a deciding technique).

The oracle crates are generated into the scratch directory with path dependencies on /repo's
*current working tree* and rebuilt by cargo on every check (incremental)."""
import os, subprocess, json, shutil, fcntl, sys, time
from . import dump

HERE = os.path.dirname(os.path.abspath(__file__))
NATIVE = os.path.join(os.path.dirname(HERE), 'native')


def _prepare(name, extra_files=None):
    src = os.path.join(NATIVE, name)
    dst = dump.scratch('native', name)
    os.makedirs(os.path.join(dst, 'src'), exist_ok=True)
    for root, dirs, files in os.walk(src):
        rel = os.path.relpath(root, src)
        os.makedirs(os.path.join(dst, rel), exist_ok=True)
        for f in files:
            sp = os.path.join(root, f); dp = os.path.join(dst, rel, f[:-3] if f.endswith('.in') else f)
            data = open(sp).read()
            if f.endswith('.in'):
                data = data.replace('@REPO@', dump.REPO)
            if not os.path.exists(dp) or open(dp).read() != data:
                open(dp, 'w').write(data)
    for rel, data in (extra_files or {}).items():
        dp = os.path.join(dst, rel)
        os.makedirs(os.path.dirname(dp), exist_ok=True)
        if not os.path.exists(dp) or open(dp).read() != data:
            open(dp, 'w').write(data)
    lock = os.path.join(dump.REPO, 'Cargo.lock')
    if os.path.exists(lock) and not os.path.exists(os.path.join(dst, 'Cargo.lock')):
        shutil.copy(lock, os.path.join(dst, 'Cargo.lock'))
    return dst


def build(name, release=False, extra_files=None):
    dst = _prepare(name, extra_files)
    env = dict(os.environ)
    env['CARGO_NET_OFFLINE'] = 'true'
    env['CARGO_TARGET_DIR'] = dump.scratch('target-native')
    env.pop('RUSTFLAGS', None)
    cmd = ['cargo', 'build', '--offline', '-q'] + (['--release'] if release else [])
    lockf = open(dump.scratch('target-native.lock'), 'w')
    fcntl.flock(lockf, fcntl.LOCK_EX)
    try:
        r = subprocess.run(cmd, cwd=dst, env=env, stdout=subprocess.PIPE, stderr=subprocess.PIPE)
        if r.returncode != 0 and b'Cargo.lock' in r.stderr:
            os.remove(os.path.join(dst, 'Cargo.lock'))
            r = subprocess.run(cmd, cwd=dst, env=env, stdout=subprocess.PIPE, stderr=subprocess.PIPE)
        if r.returncode != 0:
            sys.stderr.write(r.stderr.decode(errors='replace')[-6000:])
            raise RuntimeError('native oracle build failed: ' + name)
    finally:
        fcntl.flock(lockf, fcntl.LOCK_UN); lockf.close()
    return os.path.join(env['CARGO_TARGET_DIR'], 'release' if release else 'debug', name)


class Oracle:
    """line-oriented client; restarts the process if it died (abort / stack overflow)"""

    def __init__(self, binary):
        self.binary = binary; self.p = None; self.deaths = 0

    def _start(self):
        self.p = subprocess.Popen([self.binary], stdin=subprocess.PIPE, stdout=subprocess.PIPE, stderr=subprocess.DEVNULL)

    def ask(self, cmd, payload):
        if self.p is None or self.p.poll() is not None:
            self._start()
        if isinstance(payload, str):
            payload = payload.encode('utf-8')
        line = ('%s %s\n' % (cmd, payload.hex())).encode()
        try:
            self.p.stdin.write(line); self.p.stdin.flush()
            out = self.p.stdout.readline()
        except BrokenPipeError:
            out = b''
        if not out:
            rc = self.p.wait(); self.p = None; self.deaths += 1
            return {'died': rc}
        return json.loads(out)

    def close(self):
        if self.p is not None:
            try:
                self.p.stdin.close(); self.p.wait(timeout=5)
            except Exception:
                self.p.kill()
            self.p = None
