"""Path-wise symbolic executor for rustc MIR text (replay-based DFS; z3 decides every fork).

One *path* = one equivalence class of inputs on which the executed code behaves identically.
A fork happens only where a symbolic value is inspected (switchInt / assert / symbolic table
index / a library model that must case-split) and only into alternatives the solver proves
satisfiable together with the path condition.
"""
import os, re, time
import z3
from .values import *
from .mirparse import compile_block, parse_place, split_top, strip_generics, balanced
from . import rustsrc

XCHECK_N = int(os.environ.get('VERIF_XCHECK', '4'))          # cross-checked queries per worker process and exploration (0 = off)
XCHECK_STEP = int(os.environ.get('VERIF_XCHECK_STEP', '97'))
_MUTATOR = re.compile(r'^(Vec|VecDeque|String|HashMap|HashSet|IndexMap|IndexSet|BTreeMap|BTreeSet)::(retain\w*|dedup\w*|truncate|clear|drain\w*|sort\w*|reverse|swap\w*|remove\w*|shift_remove\w*|insert\w*|push\w*|pop\w*|extend\w*|append|split_off|resize\w*|rotate\w*|fill\w*|entry|get_mut|iter_mut|values_mut|take)$')

MAX_DEPTH = 400          # modelled call-stack limit (frames); exceeding it is a Panic('stack-overflow')
SOLVER_TIMEOUT_MS = int(os.environ.get('MIRSYM_SOLVER_TIMEOUT_MS', '60000'))


# --------------------------------------------------------------------------------------------
# canonical callee keys for library models

def _strip_angle(t):
    out = []; d = 0; i = 0; n = len(t)
    while i < n:
        c = t[i]
        if c == '<':
            d += 1
        elif c == '>' and i > 0 and t[i - 1] != '-':
            d -= 1
        elif d == 0:
            out.append(c)
        i += 1
    return ''.join(out)


def canon_type(t):
    t = t.strip()
    while True:
        if t.startswith('&'):
            t = t[1:].lstrip()
            m = re.match(r"'\w+\s+", t)
            if m:
                t = t[m.end():]
            if t.startswith('mut '):
                t = t[4:]
            continue
        if t.startswith('*const '):
            t = t[7:]; continue
        if t.startswith('*mut '):
            t = t[5:]; continue
        if t.startswith('dyn '):
            t = t[4:]; continue
        break
    if t.startswith('['):
        return '[]'
    if t.startswith('('):
        return '()'
    if t.startswith('{closure'):
        return '{closure}'
    if t.startswith('impl '):
        return 'impl'
    if t.startswith('fn(') or t.startswith('for<'):
        return 'fn'
    if t.startswith('<'):
        # <T as Trait>::Assoc
        j = _angle_end(t, 0)
        rest = t[j + 1:]
        return rest.split('::')[-1] if rest else canon_type(t[1:j].split(' as ')[0])
    t = _strip_angle(t)
    return t.split('::')[-1].strip()


def _angle_end(s, i):
    d = 0
    for j in range(i, len(s)):
        if s[j] == '<':
            d += 1
        elif s[j] == '>' and s[j - 1] != '-':
            d -= 1
            if d == 0:
                return j
    raise ValueError(s)


def _split_as(inner):
    d = 0
    for i, c in enumerate(inner):
        if c in '<([{':
            d += 1
        elif c in ')]}' or (c == '>' and inner[i - 1] != '-'):
            d -= 1
        elif d == 0 and inner.startswith(' as ', i):
            return inner[:i], inner[i + 4:]
    return inner, None


_canon_cache = {}


def canon_callee(c):
    r = _canon_cache.get(c)
    if r is not None:
        return r
    try:
        r = _canon_callee(c)
    except Exception:
        r = c
    _canon_cache[c] = r
    return r


def _canon_callee(c):
    c = c.strip()
    if c.startswith('<'):
        j = _angle_end(c, 0)
        inner = c[1:j]; rest = strip_generics(c[j + 1:])
        meth = rest.split('::')[-1]
        ty, tr = _split_as(inner)
        if tr is None:
            return '%s::%s' % (canon_type(ty), meth)
        return '<%s as %s>::%s' % (canon_type(ty), canon_type(tr), meth)
    s = strip_generics(c)
    m = re.search(r'<impl (.*)>::(\w+)$', s)
    if m and not m.group(1).startswith('at '):
        ity = m.group(1)
        tr = None
        d = 0
        for i, ch in enumerate(ity):
            if ch in '<([':
                d += 1
            elif ch in ')]' or (ch == '>' and ity[i - 1] != '-'):
                d -= 1
            elif d == 0 and ity.startswith(' for ', i):
                tr, ity = ity[:i], ity[i + 5:]; break
        if tr:
            return '<%s as %s>::%s' % (canon_type(ity), canon_type(tr), m.group(2))
        return '%s::%s' % (canon_type(ity), m.group(2))
    segs = s.split('::')
    if len(segs) >= 2:
        return '%s::%s' % (_strip_angle(segs[-2]), segs[-1])
    return s


# --------------------------------------------------------------------------------------------

class Interp:
    def __init__(self, crates, main, src_base='/repo/', enums=None, uc=False):
        """crates: {crate_name: {body_name: Body}}; main: crate whose names are unprefixed"""
        self.crates = crates; self.main = main; self.src_base = src_base
        self.bodies = crates[main]
        self.uc = uc
        self.enums = dict(rustsrc.STD_ENUMS)
        if enums:
            self.enums.update(enums)
        self.cenum_bits = {}         # C-like enums represented as ints: name -> bits
        for n, vs in self.enums.items():
            if n == '__ambiguous__':
                continue
            if vs and all(not hf for _, hf, _ in vs) and n not in ('Ordering',):
                self.cenum_bits[n] = 16
        self.byname = {}
        for cn, bs in crates.items():
            for n, b in bs.items():
                self.byname.setdefault((cn, n.split('::')[-1].split('#')[0]), []).append(b)
        self.closures = {}
        for cn, bs in crates.items():
            for n, b in bs.items():
                if '{closure#' in n and b.args:
                    m = re.search(r'\{closure@[^}]*\}', b.args[0][1])
                    if m:
                        self.closures.setdefault(m.group(0), b)
        self.solver = z3.Solver()
        if SOLVER_TIMEOUT_MS:
            self.solver.set('timeout', SOLVER_TIMEOUT_MS)
        self.nq = 0; self.steps = 0; self.solver_s = 0.0; self.nforks = 0
        self.constcache = {}
        self._implcache = {}; self._rescache = {}; self._arrcache = {}; self._fresh = 0
        self._litcache = {}; self._adtcache = {}; self._dispatch = {}
        self.models = {}             # canon key -> handler(it, callee, args)
        self.model_hits = {}
        self.trait_models = {}       # (trait, method) -> handler
        self.allow = None            # UC: regex list of bodies that are executed, others havoc'd
        self.trace = []              # UC: (callee, args, result)
        self._xdone = 0
        self.call_hooks = []         # fn(it, callee, args)
        self.adt_hooks = {}          # struct name -> fn(it, Agg) called when the struct is built by an aggregate rvalue (symbolic start states)
        self.stack = []
        self.cur_crate = None
        self.depth = 0; self.maxdepth = 0
        self.pc = []; self.decisions = []; self.dpos = 0; self.new_alternatives = []
        self.model = None
        self._in_path = False
        self.executed = set()        # names of MIR bodies actually run

    # ---- registration
    def register(self, table):
        self.models.update(table)

    # ---- path machinery
    def start_path(self, decisions):
        if self._in_path:
            self.solver.pop()
        self.solver.push(); self._in_path = True
        self.decisions = list(decisions); self.dpos = 0; self.pc = []; self.new_alternatives = []
        self.depth = 0; self.maxdepth = 0; self.stack = []; self.trace = []
        self.model = None
        self._fresh = 0
        LazyV.n = 0

    def assume(self, cond):
        """add a constraint to the path condition"""
        self.pc.append(cond); self.solver.add(cond); self.model = None

    def fresh(self, prefix, bits):
        self._fresh += 1
        return z3.BitVec('%s%d' % (prefix, self._fresh), bits)

    def check(self, *conds):
        """sat-check pc ∧ conds; returns z3 result"""
        self.nq += 1
        t0 = time.time()
        self.solver.push()
        for c in conds:
            self.solver.add(c)
        r = self.solver.check()
        m = self.solver.model() if r == z3.sat else None
        smt = None
        if XCHECK_N and r != z3.unknown and self._xdone < XCHECK_N and self.nq % XCHECK_STEP == 1:
            smt = self.solver.to_smt2()
        self.solver.pop()
        self.solver_s += time.time() - t0
        if r == z3.unknown:
            raise Unsupported('solver returned unknown: ' + self.solver.reason_unknown())
        if smt is not None:
            self._cross_check(smt, r)
        return r, m

    def _cross_check(self, smt, r):
        """second opinion on a sampled query: the same assertions through cvc5 (SMT-LIB2 export); disagreement = inconclusive"""
        import subprocess
        self._xdone += 1
        try:
            p = subprocess.run(['cvc5', '--lang', 'smt2', '--tlimit=5000'], input='(set-logic ALL)\n' + smt, capture_output=True, text=True, timeout=20)
            out = p.stdout.strip().split('\n')[0] if p.stdout.strip() else ''
        except Exception:
            out = ''
        self.model_hits['__xcheck_total__'] = self.model_hits.get('__xcheck_total__', 0) + 1
        if out not in ('sat', 'unsat'):
            self.model_hits['__xcheck_noanswer__'] = self.model_hits.get('__xcheck_noanswer__', 0) + 1
            return
        if (out == 'sat') != (r == z3.sat):
            raise Unsupported('solver disagreement on a cross-checked query: z3 says %s, cvc5 says %s' % (r, out))
        self.model_hits['__xcheck_agree__'] = self.model_hits.get('__xcheck_agree__', 0) + 1

    def feasible(self, cond):
        r, m = self.check(cond)
        return r == z3.sat

    def get_model(self):
        """a model of the current path condition"""
        if self.model is None:
            r, m = self.check()
            if r != z3.sat:
                raise Unsupported('path condition unsat')
            self.model = m
        return self.model

    def choose(self, cands):
        """cands: list of (z3 condition, payload); returns payload of the branch taken on this path"""
        if self.dpos < len(self.decisions):
            i = self.decisions[self.dpos]; self.dpos += 1
            c = cands[i][0]
            self.pc.append(c); self.solver.add(c)
            return cands[i][1]
        feas = []
        mdl = self.model
        for i, (c, _) in enumerate(cands):
            if mdl is not None:
                try:
                    if z3.is_true(mdl.eval(c, model_completion=True)):
                        feas.append(i); continue
                except z3.Z3Exception:
                    pass
            r, m = self.check(c)
            if r == z3.sat:
                feas.append(i)
                if mdl is None:
                    mdl = m; self.model = m
        if not feas:
            raise Unsupported('no feasible branch (path condition unsat?)')
        self.nforks += len(feas) - 1
        for j in feas[1:]:
            self.new_alternatives.append(self.decisions + [j])
        self.decisions.append(feas[0]); self.dpos += 1
        c = cands[feas[0]][0]
        self.pc.append(c); self.solver.add(c)
        if mdl is not None and not z3.is_true(mdl.eval(c, model_completion=True)):
            self.model = None
        return cands[feas[0]][1]

    def choose_bool(self, b):
        if isinstance(b, LazyV):
            b = b.as_bool()
        if not b.sym():
            return b.v
        return self.choose([(b.v, True), (z3.Not(b.v), False)])

    def concretize(self, iv, lo=None, hi=None, limit=64):
        """fork on the concrete value of a symbolic int (small domains only)"""
        if not iv.sym():
            return iv.v
        vals = []
        self.solver.push()
        try:
            while len(vals) <= limit:
                self.nq += 1
                if self.solver.check() != z3.sat:
                    break
                v = self.solver.model().eval(iv.v, model_completion=True).as_long()
                vals.append(v); self.solver.add(iv.v != v)
        finally:
            self.solver.pop()
        if len(vals) > limit:
            raise Unsupported('concretize: domain too large')
        vals.sort()
        return self.choose([(iv.v == z3.BitVecVal(v, iv.bits), v) for v in vals])

    # ---- function resolution
    def impl_info(self, name):
        m = re.search(r'<impl at ([^:>]+):(\d+):(\d+): (\d+):(\d+)>', name)
        if not m:
            return None
        key = (m.group(1), int(m.group(2)), int(m.group(3)))
        if key in self._implcache:
            return self._implcache[key]
        try:
            lines = open(os.path.join(self.src_base, m.group(1)), encoding='utf-8').read().split('\n')
        except Exception:
            return None
        L = int(m.group(2)) - 1; line = lines[L]
        res = None
        mm = re.match(r'\s*(?:unsafe\s+)?impl(?:<[^>]*>)?\s+(?:(.+?)\s+for\s+)?([\w:]+)', line[int(m.group(3)) - 1:] if 'impl' in line[int(m.group(3)) - 1:] else line)
        if mm and 'derive' not in line:
            tr = mm.group(1)
            res = (re.sub(r'<.*', '', tr).split('::')[-1] if tr else None, mm.group(2).split('::')[-1])
        else:
            tr = line[int(m.group(3)) - 1:int(m.group(5)) - 1] if int(m.group(2)) == int(m.group(4)) else None
            ty = None
            for l in lines[L:L + 16]:
                m2 = re.search(r'\b(?:enum|struct)\s+(\w+)', l)
                if m2:
                    ty = m2.group(1); break
            if ty is None and 'def!' in ''.join(lines[max(0, L - 4):L + 1]) or ty is None:
                # derive inside a macro_rules body (kind.rs def!): the only such type is SyntaxKind
                mk = re.search(r'pub enum (\w+)', '\n'.join(lines[L:L + 8]))
                ty = mk.group(1) if mk else ty
            res = (tr, ty)
        self._implcache[key] = res
        return res

    def resolve(self, callee, nargs):
        key = (callee, nargs, self.cur_crate)
        if key in self._rescache:
            return self._rescache[key]
        r = self._resolve(callee, nargs)
        self._rescache[key] = r
        return r

    def _crate_of(self, path):
        """names in a body are relative to that body's crate; `othercrate::path` names another loaded crate"""
        cur = self.cur_crate or self.main
        seg = path.split('::')[0]
        if seg in self.crates and seg != cur:
            rest = path[len(seg) + 2:]
            # `ide::rename::f` inside crate ide is a module path, not a crate prefix
            if rest in self.crates[seg] or not (path in self.crates.get(cur, {})):
                return seg, rest
        return cur, path

    def _resolve(self, callee, nargs):
        c = strip_generics(callee)
        cn, local = self._crate_of(c)
        bs = self.crates[cn]
        if local in bs:
            return bs[local]
        if c in self.bodies:
            return self.bodies[c]
        trait = None; ty = None; tycrate = None
        m = re.match(r"^<(.+) as (.+)>::(\w+)::([\w:{}#]+)$", c)
        if m and balanced(m.group(1)):
            # item nested inside a trait method (`<T as Tr>::lex::goto12`): unique suffix match
            tail = '::%s::%s' % (m.group(3), m.group(4))
            c2 = [b for cn2 in self.crates for n, b in self.crates[cn2].items() if n.endswith(tail)]
            if len(c2) == 1:
                return c2[0]
        m = re.match(r"^<(.+) as (.+)>::(\w+)$", c)
        if m:
            tyfull = re.sub(r"<.*", "", m.group(1)).replace('&', '').replace('mut ', '').strip()
            ty = tyfull.split('::')[-1]
            trait = re.sub(r'<.*', '', m.group(2)).split('::')[-1]; meth = m.group(3)
        else:
            m = re.match(r"^(?:.*::)?<impl (.+)>::(\w+)$", c)
            if m and not m.group(1).startswith('at '):
                ty = re.sub(r"<.*", "", m.group(1)).split('::')[-1]; meth = m.group(2)
            else:
                segs = local.split('::'); meth = segs[-1]
                if len(segs) >= 2 and segs[-2][:1].isupper():
                    ty = _strip_angle(segs[-2])
        cands = []
        for cname in self.crates:
            cands += [b for b in self.byname.get((cname, meth), []) if len(b.args) == nargs]
        if ty is None:
            free = [b for b in cands if '<impl at' not in b.name and (b.name == local or b.name.endswith('::' + meth) or b.name == meth)]
            free = [b for b in free if b.crate == cn] or free
            if not free:
                # item nested inside an inherent method (`Type::<'a>::method::nested`): unique suffix match on `::method::nested`
                segs = local.split('::')
                if len(segs) >= 3 and segs[-3][:1].isupper():
                    tail = '::%s::%s' % (segs[-2], segs[-1])
                    c2 = [b for b in cands if b.name.endswith(tail) and '<impl at' in b.name]
                    if len(c2) == 1:
                        return c2[0]
            return free[0] if len(free) >= 1 else None
        good = []
        for b in cands:
            info = self.impl_info(b.name)
            if info and info[1] == ty and (trait is None or info[0] == trait):
                good.append(b)
        if trait is None:
            g2 = [b for b in good if self.impl_info(b.name)[0] is None]
            if g2:
                good = g2
        if not good and trait in ('From', 'Into') and cands:
            # macro-generated impls share one source span: match by signature (argument and return types)
            mt = re.match(r"^<(.+) as ([\w:]+)<(.*)>>::(\w+)", callee)
            if mt:
                last = lambda t: re.sub(r"<.*", '', t.strip().lstrip('&')).split('::')[-1]
                selfty, garg = last(mt.group(1)), last(mt.group(3))
                want_ret, want_arg = (selfty, garg) if trait == 'From' else (garg, selfty)
                g4 = [b for b in cands if b.args and last(b.args[0][1]) == want_arg and last(b.ret or '') == want_ret]
                if len(g4) == 1:
                    return g4[0]
        if len(good) > 1:
            # several impls of one generic trait for the same type (Index<ExprId> / Index<PatternId> for Body):
            # pick the one whose parameter types mention the trait's generic argument
            mt = re.match(r"^<(.+) as ([\w:]+)<(.*)>>::(\w+)", callee)
            if mt:
                norm = lambda t: re.sub(r"\b\w+::", '', t).replace(' ', '')
                targ = norm(mt.group(3))
                g3 = [b for b in good if targ in norm(' '.join(t for _, t in b.args))]
                if len(g3) == 1:
                    good = g3
                elif len(g3) != 1:
                    return None
        return good[0] if good else None

    # ---- constants
    def const(self, t):
        lc = self._litcache.get(t)
        if lc is not None:
            return IntV(lc[0], lc[1], lc[2])
        m = re.match(r'^(-?\d+)_([iu](?:8|16|32|64|128|size))$', t)
        if m:
            bits, sg = INTW[m.group(2)]
            self._litcache[t] = (int(m.group(1)) % (1 << bits), bits, sg)
            return IntV(int(m.group(1)) % (1 << bits), bits, sg)
        if t == 'true':
            return BoolV(True)
        if t == 'false':
            return BoolV(False)
        if t.startswith('"'):
            return StrV(eval(_rust_str_to_py(t)))
        if t.startswith('b"'):
            return RefV([Agg('array', '[]', None, [IntV(x, 8, 0) for x in eval(_rust_str_to_py(t))])], 0)
        if t.startswith("'") and t.endswith("'"):
            return IntV(ord(eval(_rust_str_to_py(t))), 32, 0)
        if t == '()':
            return UNIT
        mce = re.match(r'^(?:[\w:]+::)?(Option|Result)(?:::<.*>)?::(Some|Ok|Err)\((.*)\)$', t)
        if mce:
            return Agg('enum', mce.group(1), mce.group(2), [self.const(mce.group(3))])
        mce = re.match(r'^(?:[\w:]+::)?Option(?:::<.*>)?::None$', t)
        if mce:
            return none()
        if t.startswith('ZeroSized'):
            m = re.search(r'\{closure@[^}]*\}', t)
            if m:
                return Agg('closure', m.group(0), None, [])
            return Opaque(t)
        m = re.match(r'^(-?[\d.eE+-]+)f(32|64)$', t)
        if m:
            return Opaque('float ' + t)
        ms = re.match(r'^<static\(DefId\([^~]*~ [^:]*(?:::[^:)]+)*::(\w+)\)\)>$', t)
        if ms:
            nm = ms.group(1)
            if ('static', nm) not in self.constcache:
                sb = self.crates[self.cur_crate or self.main]
                c = [n for n in sb if n.split('::')[-1] == nm and sb[n].header.startswith('static')]
                if len(c) != 1:
                    raise Unsupported('static ' + t)
                self.constcache[('static', nm)] = [self.run_const(sb[c[0]])]
            return RefV(self.constcache[('static', nm)], 0)
        ckey = (self.cur_crate, t)
        if ckey in self.constcache:
            return dcopy(self.constcache[ckey])
        bi = BUILTIN_CONSTS.get(canon_callee(t))
        if bi is not None:
            return bi()
        name = strip_generics(t)
        cn, local = self._crate_of(name)
        bs = self.crates[cn]
        b = bs.get(local) or self.bodies.get(name)
        if b is None and name.startswith('<'):
            try:
                j = _angle_end(name, 0)
                tail = name[j + 1:]
                c = [n for n in bs if n.endswith(tail) and not bs[n].args]
                if len(c) == 1:
                    b = bs[c[0]]
            except ValueError:
                pass
        if b is None:
            c = [n for n in bs if (n == local or n.endswith('::' + local) or local.endswith('::' + n)) and not bs[n].args]
            if len(c) == 1:
                b = bs[c[0]]
            if b is None and '::promoted[' not in name:
                last = local.split('::')[-1]
                c = [n for n in bs if n.split('::')[-1] == last and not bs[n].args and bs[n].header.startswith('const')]
                if len(c) == 1:
                    b = bs[c[0]]
            if b is None and '::promoted[' in name:
                tail = '::'.join(local.split('::')[-2:])
                c = [n for n in bs if n.endswith('::' + tail) or n == tail]
                if len(c) == 1:
                    b = bs[c[0]]
        if b is not None and not b.args:
            v = self.run_const(b)
            self.constcache[ckey] = v
            return dcopy(v)
        # unit enum variant / unit struct printed as a constant
        segs = name.split('::')
        if len(segs) >= 2 and segs[-2] in self.enums:
            return self.make_adt(name, 'unit', [], '')
        return Opaque('const ' + t)

    def run_const(self, b):
        # constants are evaluated outside the path machinery (they never depend on symbolic input)
        sd, sm, st = self.depth, self.maxdepth, list(self.stack)
        try:
            return self.run_body(b, [])
        finally:
            self.depth, self.maxdepth, self.stack = sd, sm, st

    # ---- places
    def place_ref(self, p, frame):
        k = p[0]
        if k == 'local':
            return RefV(frame, p[1])
        if k == 'deref':
            r = self.place_ref(p[1], frame).get()
            if isinstance(r, RefV):
                return r
            if isinstance(r, (SliceV, StrV, StrSym)):
                return RefV([r], 0)
            if isinstance(r, LazyV):
                return RefV([r.kid('*')], 0)
            if isinstance(r, Agg) and r.name == 'Box':
                return RefV(r.fields, 0)
            raise Unsupported('deref of %r' % (r,))
        if k == 'field':
            base = self.place_ref(p[1], frame); v = base.get()
            if isinstance(v, Agg):
                while len(v.fields) <= p[2]:
                    v.fields.append(Opaque('uninit'))
                return RefV(v.fields, p[2])
            if isinstance(v, LazyV):
                var = p[1][2] if p[1][0] == 'downcast' else None
                return RefV([v.kid((var, p[2]))], 0)
            if v is None or (isinstance(v, Opaque) and v.tag == 'uninit'):
                a = Agg('struct', '?', None, []); base.set(a)
                while len(a.fields) <= p[2]:
                    a.fields.append(Opaque('uninit'))
                return RefV(a.fields, p[2])
            raise Unsupported('field %d of %r' % (p[2], v))
        if k == 'downcast':
            return self.place_ref(p[1], frame)
        if k == 'index':
            base = self.place_ref(p[1], frame).get(); i = frame[p[2]]
            items = base.items if isinstance(base, (VecV, SliceV)) else base.fields
            if i.sym():
                inb = self.choose([(z3.ULT(i.v, len(items)), True), (z3.UGE(i.v, len(items)), False)])
                if not inb:
                    raise Panic('index-out-of-bounds', 'symbolic index', self.stack)
                return RefV([self.sym_select(items, i)], 0)
            if i.v >= len(items):
                raise Panic('index-out-of-bounds', 'index %d len %d' % (i.v, len(items)), self.stack)
            return RefV(items, i.v)
        if k == 'cindex':
            base = self.place_ref(p[1], frame).get()
            items = base.items if isinstance(base, (VecV, SliceV)) else base.fields
            return RefV(items, p[2])
        raise Unsupported('place ' + str(p))

    def sym_select(self, items, i):
        """read-only symbolic index into a table: ints -> z3 array select; others -> fork on distinct values"""
        if all(isinstance(x, IntV) and not x.sym() for x in items):
            # pure bit-vector encoding (no array theory): nested ite over index ranges grouped by table value
            key = (tuple(x.v for x in items), items[0].bits, i.v.size())
            fn = self._arrcache.get(key)
            if fn is None:
                bits = items[0].bits; sz = i.v.size()
                byval = {}
                for j, x in enumerate(items):
                    byval.setdefault(x.v, []).append(j)
                order = sorted(byval.items(), key=lambda kv: -len(kv[1]))
                default = order[0][0]
                plan = []
                for val, js in order[1:]:
                    rngs = []; lo = js[0]; hi = js[0]
                    for j in js[1:] + [None]:
                        if j is not None and j == hi + 1:
                            hi = j; continue
                        rngs.append((lo, hi))
                        if j is not None:
                            lo = hi = j
                    plan.append((val, rngs))
                fn = (plan, default, bits, sz)
                self._arrcache[key] = fn
            plan, default, bits, sz = fn
            term = z3.BitVecVal(default, bits)
            for val, rngs in plan:
                conds = [(i.v == z3.BitVecVal(lo, sz)) if lo == hi else z3.And(z3.UGE(i.v, lo), z3.ULE(i.v, hi)) for lo, hi in rngs]
                term = z3.If(z3.Or(conds) if len(conds) > 1 else conds[0], z3.BitVecVal(val, bits), term)
            return IntV(term, items[0].bits, items[0].signed)
        groups = {}
        for j, x in enumerate(items):
            groups.setdefault(repr(x), (x, []))[1].append(j)
        cands = []
        for k, (x, js) in groups.items():
            conds = []; a = js[0]; b = js[0]
            for j in js[1:] + [None]:
                if j is not None and j == b + 1:
                    b = j; continue
                conds.append(i.v == a if a == b else z3.And(z3.UGE(i.v, a), z3.ULE(i.v, b)))
                if j is not None:
                    a = b = j
            cands.append((z3.Or(conds) if len(conds) > 1 else conds[0], x))
        return dcopy(self.choose(cands))

    def operand(self, o, frame):
        k = o[0]
        if k == 'copy':
            v = self.place_ref(o[1], frame).get()
            if type(v) is Poison:
                raise Unsupported(v.reason)
            return dcopy(v)
        if k == 'move':
            v = self.place_ref(o[1], frame).get()
            if type(v) is Poison:
                raise Unsupported(v.reason)
            return v
        if k == 'const':
            return self.const(o[1])
        if k == 'fnname':
            return FnV(o[1])
        raise Unsupported('operand ' + str(o))

    # ---- arithmetic
    def binop(self, op, a, b):
        if isinstance(a, LazyV) and isinstance(b, LazyV) and op in ('Eq', 'Ne', 'Lt', 'Le', 'Gt', 'Ge'):
            # two havoc'd scalars compared (e.g. the lengths of two unknown vectors): both become integers of one width; nothing relates
            # them, so signedness cannot matter for which outcomes are feasible
            if any(z.ival is not None and z3.is_bool(z.ival) for z in (a, b)):
                a = a.as_bool(); b = b.as_bool()
            else:
                bits = next((z.ival.size() for z in (a, b) if z.ival is not None), 64)
                a = a.as_int(bits, 0); b = b.as_int(bits, 0)
        if isinstance(a, LazyV) and isinstance(b, IntV):
            a = a.as_int(b.bits, b.signed)
        if isinstance(b, LazyV) and isinstance(a, IntV):
            b = b.as_int(a.bits, a.signed)
        if isinstance(a, LazyV) and isinstance(b, BoolV):
            a = a.as_bool()
        if isinstance(b, LazyV) and isinstance(a, BoolV):
            b = b.as_bool()
        if isinstance(a, BoolV) and isinstance(b, BoolV):
            if not a.sym() and not b.sym():
                x, y = a.v, b.v
                return BoolV({'Eq': x == y, 'Ne': x != y, 'BitAnd': x and y, 'BitOr': x or y, 'BitXor': x != y,
                              'Lt': (not x) and y, 'Le': (not x) or y, 'Gt': x and not y, 'Ge': x or not y}[op])
            x, y = a.z(), b.z()
            return BoolV({'Eq': x == y, 'Ne': x != y, 'BitAnd': z3.And(x, y), 'BitOr': z3.Or(x, y), 'BitXor': z3.Xor(x, y)}[op])
        if not (isinstance(a, IntV) and isinstance(b, IntV)):
            raise Unsupported('binop %s on %r, %r' % (op, a, b))
        bits = a.bits; sg = a.signed; M = 1 << bits
        if not a.sym() and not b.sym():
            x, y = a.v, b.v
            sx = a.sval(); sy = IntV(y % M if op not in ('Shl', 'Shr', 'ShlUnchecked', 'ShrUnchecked') else y, bits, sg).sval() if b.bits == bits else b.sval()
            if op in ('Eq', 'Ne', 'Lt', 'Le', 'Gt', 'Ge'):
                return BoolV({'Eq': sx == sy, 'Ne': sx != sy, 'Lt': sx < sy, 'Le': sx <= sy, 'Gt': sx > sy, 'Ge': sx >= sy}[op])
            if op == 'Cmp':
                return Agg('enum', 'Ordering', 'Less' if sx < sy else 'Equal' if sx == sy else 'Greater', [])
            if op.endswith('WithOverflow'):
                r = {'Add': sx + sy, 'Sub': sx - sy, 'Mul': sx * sy}[op[:3]]
                lo, hi = (-(M // 2), M // 2 - 1) if sg else (0, M - 1)
                return tup(IntV(r % M, bits, sg), BoolV(not (lo <= r <= hi)))
            base = op.replace('Unchecked', '')
            if base in ('Shl', 'Shr'):
                sh = b.v % bits
                if base == 'Shl':
                    r = (x << sh) % M
                else:
                    r = (sx >> sh) % M if sg else (x >> sh)
                return IntV(r, bits, sg)
            if base == 'Div':
                if sy == 0:
                    raise Panic('division-by-zero', '', self.stack)
                q = abs(sx) // abs(sy)
                r = q if (sx < 0) == (sy < 0) else -q
            elif base == 'Rem':
                if sy == 0:
                    raise Panic('division-by-zero', '', self.stack)
                r = abs(sx) % abs(sy)
                r = r if sx >= 0 else -r
            else:
                r = {'Add': x + y, 'Sub': x - y, 'Mul': x * y, 'BitAnd': x & y, 'BitOr': x | y, 'BitXor': x ^ y}.get(base)
                if r is None:
                    raise Unsupported('binop ' + op)
            return IntV(r % M, bits, sg)
        za = a.z(); zb = b.z()
        if zb.size() != za.size():
            zb = z3.ZeroExt(za.size() - zb.size(), zb) if zb.size() < za.size() else z3.Extract(za.size() - 1, 0, zb)
        if op == 'Eq':
            return BoolV(za == zb)
        if op == 'Ne':
            return BoolV(za != zb)
        if op == 'Lt':
            return BoolV(za < zb if sg else z3.ULT(za, zb))
        if op == 'Le':
            return BoolV(za <= zb if sg else z3.ULE(za, zb))
        if op == 'Gt':
            return BoolV(za > zb if sg else z3.UGT(za, zb))
        if op == 'Ge':
            return BoolV(za >= zb if sg else z3.UGE(za, zb))
        if op == 'Cmp':
            lt = za < zb if sg else z3.ULT(za, zb)
            r = self.choose([(lt, 'Less'), (za == zb, 'Equal'), (z3.And(z3.Not(lt), za != zb), 'Greater')])
            return Agg('enum', 'Ordering', r, [])
        if op.endswith('WithOverflow'):
            w = bits + 1 if op[:3] != 'Mul' else bits * 2
            ext = (lambda z: z3.SignExt(w - bits, z)) if sg else (lambda z: z3.ZeroExt(w - bits, z))
            wa, wb = ext(za), ext(zb)
            wr = {'Add': wa + wb, 'Sub': wa - wb, 'Mul': wa * wb}[op[:3]]
            r = z3.Extract(bits - 1, 0, wr)
            ovf = (ext(r) != wr)
            return tup(IntV(r, bits, sg), BoolV(ovf))
        base = op.replace('Unchecked', '')
        if base == 'Shl':
            return IntV(za << (zb & (bits - 1)), bits, sg)
        if base == 'Shr':
            return IntV((za >> (zb & (bits - 1))) if sg else z3.LShR(za, zb & (bits - 1)), bits, sg)
        if base == 'BitAnd':
            return IntV(za & zb, bits, sg)
        if base == 'BitOr':
            return IntV(za | zb, bits, sg)
        if base == 'BitXor':
            return IntV(za ^ zb, bits, sg)
        if base == 'Add':
            return IntV(za + zb, bits, sg)
        if base == 'Sub':
            return IntV(za - zb, bits, sg)
        if base == 'Mul':
            return IntV(za * zb, bits, sg)
        if base in ('Div', 'Rem'):
            if self.choose([(zb == 0, True), (zb != 0, False)]):
                raise Panic('division-by-zero', '', self.stack)
            if base == 'Div':
                return IntV(za / zb if sg else z3.UDiv(za, zb), bits, sg)
            return IntV(z3.SRem(za, zb) if sg else z3.URem(za, zb), bits, sg)
        raise Unsupported('symbolic binop ' + op)

    def int_cast(self, v, ty):
        bits, sg = INTW[ty]
        if isinstance(v, LazyV):
            v = v.as_int(bits, sg)
        if isinstance(v, BoolV):
            v = IntV(int(v.v), 8, 0) if not v.sym() else IntV(z3.If(v.v, z3.BitVecVal(1, 8), z3.BitVecVal(0, 8)), 8, 0)
        if isinstance(v, Agg) and v.kind == 'enum':
            v = IntV(self.variant_disc(v) % (1 << 64), 64, 1)
        if not isinstance(v, IntV):
            raise Unsupported('int cast of %r' % (v,))
        if not v.sym():
            return IntV(v.sval() % (1 << bits), bits, sg)
        z = v.v
        if bits > z.size():
            z = z3.SignExt(bits - z.size(), z) if v.signed else z3.ZeroExt(bits - z.size(), z)
        elif bits < z.size():
            z = z3.Extract(bits - 1, 0, z)
        return IntV(z, bits, sg)

    def variant_disc(self, v):
        vs = self.enums.get(v.name)
        if vs is None and '::' in v.name:
            vs = self.enums.get(v.name.split('::')[-1])
        if vs is None:
            raise Unsupported('discriminant of unknown enum %s::%s' % (v.name, v.variant))
        for vn, hf, d in vs:
            if vn == v.variant:
                return d
        raise Unsupported('discriminant: %s has no variant %s' % (v.name, v.variant))

    def make_adt(self, path, form, fields, destty):
        ck = (path, form, destty if form == 'unit' and '::' not in path else None)
        hit = self._adtcache.get(ck)
        if hit is not None:
            if hit[0] == 'cenum' and not fields:
                return IntV(hit[1], hit[2], 0)
            if hit[0] == 'enum':
                return Agg('enum', hit[1], hit[2], fields)
            if hit[0] == 'struct':
                return Agg('struct', hit[1], None, fields)
        r = self._make_adt(path, form, fields, destty)
        if isinstance(r, IntV) and not fields:
            self._adtcache[ck] = ('cenum', r.v, r.bits)
        elif isinstance(r, Agg) and r.kind == 'enum':
            self._adtcache[ck] = ('enum', r.name, r.variant)
        elif isinstance(r, Agg) and r.kind == 'struct':
            self._adtcache[ck] = ('struct', r.name)
        return r

    def _make_adt(self, path, form, fields, destty):
        segs = path.split('::')
        last = segs[-1]
        if len(segs) >= 2:
            en = _strip_angle(segs[-2])
            ekey = None
            if en == 'Jump' and len(segs) >= 3:
                ekey = segs[-3] + '::Jump'
            elif len(segs) >= 3 and '::'.join(_strip_angle(x) for x in segs[:-1]) in self.enums:
                ekey = '::'.join(_strip_angle(x) for x in segs[:-1])      # module-qualified (two enums may share a short name)
            elif en in self.enums:
                if en in self.enums.get('__ambiguous__', ()):
                    raise Unsupported('enum name %s is declared in several modules and %s does not say which' % (en, path))
                ekey = en
            if ekey is not None and ekey in self.enums:
                vs = self.enums[ekey]
                for vn, hf, d in vs:
                    if vn == last:
                        if ekey in self.cenum_bits and not fields:
                            return IntV(d % (1 << self.cenum_bits[ekey]), self.cenum_bits[ekey], 0)
                        return Agg('enum', ekey, last, fields)
        if len(segs) == 1 and form == 'unit':
            # trimmed unique variant name (`_1 = IDENT;`): the destination type disambiguates
            dn = canon_type(destty or '')
            if dn in self.enums:
                for vn, hf, d in self.enums[dn]:
                    if vn == last:
                        if dn in self.cenum_bits:
                            return IntV(d % (1 << self.cenum_bits[dn]), self.cenum_bits[dn], 0)
                        return Agg('enum', dn, last, fields)
        if len(segs) >= 2 and segs[-2][:1].isupper() and _strip_angle(segs[-2]) not in ('Self',) and form != 'struct' and last[:1].isupper():
            # enum (or associated const) of a crate we have no declaration for
            if self.uc:
                return LazyV('const ' + path)
            if form == 'unit' and last.upper() == last:
                return Opaque('const ' + path)        # associated constant of a foreign type (e.g. tracing::Level::DEBUG)
            raise Unsupported('aggregate of undeclared enum %s' % path)
        return Agg('struct', _strip_angle(last), None, fields)

    def rvalue(self, rv, frame):
        k = rv[0]
        if k == 'use':
            return self.operand(rv[1], frame)
        if k == 'ref':
            r = self.place_ref(rv[1], frame)
            # `&*x` where x holds a fat value (slice/str) is the value itself
            return r
        if k == 'binop':
            return self.binop(rv[1], self.operand(rv[2], frame), self.operand(rv[3], frame))
        if k == 'cast':
            v = self.operand(rv[1], frame); ty = rv[2]; kind = rv[3]
            if kind == 'IntToInt':
                return self.int_cast(v, ty)
            if kind in ('PointerCoercion', 'Transmute', 'PtrToPtr', 'Subtype'):
                if kind == 'Transmute' and isinstance(v, Agg) and v.name == 'NonNull' and ty.strip().startswith('*'):
                    return v.fields[0]
                if kind == 'Transmute' and isinstance(v, RefV) and ty.strip() in ('usize', 'isize'):
                    raise Unsupported('pointer to integer transmute')
                if isinstance(v, RefV) and 'Unsize' in rv[4]:
                    tv = v.get()
                    if isinstance(tv, Agg) and tv.kind == 'array':
                        return SliceV(tv.fields)
                    if isinstance(tv, VecV):
                        return v
                return v
            raise Unsupported('cast kind ' + kind)
        if k == 'discriminant':
            v = self.place_ref(rv[1], frame).get()
            bits, sg = INTW.get((rv[2] or '').strip(), (64, 1))
            if isinstance(v, LazyV):
                d = v.discriminant()
                return IntV(d if bits == 64 else z3.Extract(bits - 1, 0, d), bits, sg)
            if isinstance(v, IntV):
                if not v.sym():
                    return IntV(v.v, bits, sg)
                z = v.v
                if bits > z.size():
                    z = z3.ZeroExt(bits - z.size(), z)
                elif bits < z.size():
                    z = z3.Extract(bits - 1, 0, z)
                return IntV(z, bits, sg)
            if isinstance(v, Agg) and v.kind == 'enum':
                return IntV(self.variant_disc(v) % (1 << bits), bits, sg)
            raise Unsupported('discriminant of %r' % (v,))
        if k == 'unop':
            v = self.operand(rv[2], frame)
            if rv[1] == 'Not':
                if isinstance(v, LazyV):
                    v = v.as_bool()
                if isinstance(v, BoolV):
                    return BoolV((not v.v) if not v.sym() else z3.Not(v.v))
                return IntV((~v.v) % (1 << v.bits), v.bits, v.signed) if not v.sym() else IntV(~v.v, v.bits, v.signed)
            if rv[1] == 'Neg':
                return IntV((-v.v) % (1 << v.bits), v.bits, v.signed) if not v.sym() else IntV(-v.v, v.bits, v.signed)
            if rv[1] == 'PtrMetadata':
                if isinstance(v, RefV):
                    v = v.get()
                if isinstance(v, (SliceV, VecV)):
                    return IntV(len(v.items), 64, 0)
                if isinstance(v, (StrSym, StringV)):
                    return IntV(len(v.b), 64, 0)
                if isinstance(v, StrV):
                    return IntV(len(v.s.encode()), 64, 0)
            raise Unsupported('unop %s on %r' % (rv[1], v))
        if k == 'len':
            v = self.place_ref(rv[1], frame).get()
            return IntV(len(v.items if isinstance(v, (SliceV, VecV)) else v.fields), 64, 0)
        if k == 'tuple':
            return Agg('tuple', '(,)', None, [self.operand(x, frame) for x in rv[1]])
        if k == 'array':
            return Agg('array', '[]', None, [self.operand(x, frame) for x in rv[1]])
        if k == 'repeat':
            v = self.operand(rv[1], frame)
            if rv[2] is None:
                raise Unsupported('repeat with non-literal length')
            return Agg('array', '[]', None, [dcopy(v) for _ in range(rv[2])])
        if k == 'closure':
            return Agg('closure', rv[1], None, [self.operand(f, frame) for f in rv[2]])
        if k == 'adt':
            r = self.make_adt(rv[1], rv[2], [self.operand(f, frame) for f in rv[3]], rv[4])
            if self.adt_hooks and isinstance(r, Agg) and r.name in self.adt_hooks:
                r = self.adt_hooks[r.name](self, r) or r
            return r
        raise Unsupported(rv[1] if k == 'unsupported' else 'rvalue ' + str(rv))

    # ---- calls
    def call(self, callee, args):
        for h in self.call_hooks:
            h(self, callee, args)
        d = self._dispatch.get(callee)
        if d is None:
            key = canon_callee(callee)
            cands = []
            h = self.models.get(key)
            if h is not None:
                cands.append((key, h))
            m = re.match(r'^<(.*) as ([\w:]+)(?:<.*>)?>::(\w+)$', key)
            if m:
                h = self.trait_models.get((m.group(2), m.group(3)))
                if h is not None:
                    cands.append(('<_ as %s>::%s' % (m.group(2), m.group(3)), h))
            d = (key, cands, len(self.models))
            self._dispatch[callee] = d
        elif d[2] != len(self.models):
            # models were (un)registered by a spec since this entry was cached
            del self._dispatch[callee]
            return self.call(callee, args)
        key, cands, _ = d
        for k2, h in cands:
            if k2 == key and self.models.get(key) is not h:
                h = self.models.get(key)
                if h is None:
                    continue
            try:
                r = h(self, callee, args)
            except (AttributeError, TypeError, Unsupported, KeyError, IndexError) as e:
                # under-constrained mode: a library model asked about an unconstrained receiver -> havoc the call
                if self.uc and self._any_lazy(args):
                    res = LazyV('ret:' + key)
                    self.trace.append((callee, args, res, tuple(self.stack)))
                    return res
                raise
            if r is not NotImplemented:
                self.model_hits[k2] = self.model_hits.get(k2, 0) + 1
                return r
        if key in self.models and not any(k2 == key for k2, _ in cands):
            r = self.models[key](self, callee, args)
            if r is not NotImplemented:
                self.model_hits[key] = self.model_hits.get(key, 0) + 1
                return r
        fb = self.resolve(callee, len(args))
        if fb is not None and (self.allow is None or any(re.search(a, fb.name) for a in self.allow)):
            return self.run_body(fb, args)
        if self.uc:
            # havoc'ing a call that MUTATES a tracked container would silently keep the old contents (e.g. an unmodelled Vec::retain becomes a no-op):
            # that is not an over-approximation, so it must not be guessed
            mm = _MUTATOR.match(key)
            if mm and args and self._tracked_container(args[0]):
                raise Unsupported('call %s mutates a tracked %s and has no model  [key %s]' % (callee, mm.group(1), key))
            res = LazyV('ret:' + key)
            self.trace.append((callee, args, res, tuple(self.stack)))
            return res
        raise Unsupported('call %s  [key %s]' % (callee, key))

    def _tracked_container(self, a):
        n = 0
        while isinstance(a, RefV) and n < 8:
            try:
                a = a.get()
            except Exception:
                return False
            n += 1
        return isinstance(a, (VecV, MapV, StringV))

    def _any_lazy(self, args):
        for a in args:
            n = 0
            while isinstance(a, RefV) and n < 8:
                try:
                    a = a.get()
                except Exception:
                    break
                n += 1
            if isinstance(a, LazyV):
                return True
        return False

    def call_closure(self, clo, args):
        if isinstance(clo, RefV):
            clo = clo.get()
        if isinstance(clo, FnV):
            return self.call(clo.name, list(args))
        if isinstance(clo, PyFn):
            return clo.f(*args)
        b = self.closure_body(clo)
        if b is None:
            if self.uc:
                res = LazyV('clo-ret'); self.trace.append(('<closure>', args, res, tuple(self.stack))); return res
            raise Unsupported('closure %r' % (clo,))
        first = clo
        if b.args[0][1].startswith('&'):
            first = RefV([clo], 0)
        return self.run_body(b, [first] + list(args))

    def closure_body(self, clo):
        if not isinstance(clo, Agg):
            return None
        return self.closures.get(clo.name)

    # ---- execution
    def run_body(self, b, args):
        self.depth += 1
        if self.depth > self.maxdepth:
            self.maxdepth = self.depth
        if self.depth > MAX_DEPTH:
            self.depth -= 1
            raise Panic('stack-overflow', 'call depth > %d' % MAX_DEPTH, self.stack)
        self.stack.append(b.name)
        self.executed.add(b.name)
        saved_crate = self.cur_crate
        self.cur_crate = b.crate or self.main
        frame = {}
        zc = getattr(b, '_zst_closures', None)
        if zc is None:
            # a closure without captures is a zero-sized value: rustc never assigns the local that holds it
            zc = []
            for l, t in b.locals.items():
                if t.startswith('{closure@'):
                    mz = re.match(r'^\{closure@[^}]*\}$', t)
                    if mz:
                        zc.append((l, t))
            try:
                b._zst_closures = zc
            except AttributeError:
                pass
        for l, t in zc:
            frame[l] = Agg('closure', t, None, [])
        for (l, _), v in zip(b.args, args):
            frame[l] = v
        bb = 'bb0'
        try:
            while True:
                stmts, term = compile_block(b, bb)
                for s in stmts:
                    self.steps += 1
                    if s[0] == 'assign':
                        if s[2][0] == 'closure' and self._closure_short(s[2]):
                            s = self._fix_closure_operands(b, bb, s)
                        pl = s[1]
                        if pl[0] == 'local':
                            try:
                                v = self.rvalue(s[2], frame)
                            except Unsupported as u:
                                v = Poison(str(u))
                            frame[pl[1]] = v
                        else:
                            v = self.rvalue(s[2], frame)
                            self.place_ref(pl, frame).set(v)
                    elif s[0] == 'setdisc':
                        raise Unsupported('SetDiscriminant')
                    else:
                        raise Unsupported(s[1])
                self.steps += 1
                k = term[0]
                if k == 'goto':
                    bb = term[1]; continue
                if k == 'return':
                    return frame.get('_0', UNIT)
                if k == 'switch':
                    v = self.operand(term[1], frame)
                    if isinstance(v, LazyV):
                        v = v.as_int(64)
                    if isinstance(v, BoolV):
                        v = IntV(int(v.v), 8, 0) if not v.sym() else IntV(z3.If(v.v, z3.BitVecVal(1, 8), z3.BitVecVal(0, 8)), 8, 0)
                    if isinstance(v, Agg) and v.kind == 'enum':
                        v = IntV(self.variant_disc(v) % (1 << 64), 64, 1)
                    if not isinstance(v, IntV):
                        raise Unsupported('switchInt on %r' % (v,))
                    if not v.sym():
                        dest = None; M = 1 << v.bits
                        for val, tb in term[2]:
                            if val is None:
                                dest = dest or tb
                            elif val % M == v.v:
                                dest = tb; break
                        if dest is None:
                            raise Unsupported('switchInt: no target')
                        bb = dest; continue
                    cands = []; vals = []; sz = v.v.size()
                    for val, tb in term[2]:
                        if val is None:
                            cands.append((z3.And([v.v != z3.BitVecVal(x, sz) for x in vals]) if vals else z3.BoolVal(True), tb))
                        else:
                            vals.append(val); cands.append((v.v == z3.BitVecVal(val, sz), tb))
                    bb = self.choose(cands); continue
                if k == 'call':
                    callee = term[1]
                    args2 = [self.operand(a, frame) for a in term[2]]
                    if term[5] is not None:
                        fv = self.operand(term[5], frame)
                        r = self.call_closure(fv, args2)
                    else:
                        r = self.call(callee, args2)
                    if term[4] is None:
                        raise Unsupported('diverging call returned: ' + callee)
                    if term[3] is not None:
                        pl = term[3]
                        if pl[0] == 'local':
                            frame[pl[1]] = r
                        else:
                            self.place_ref(pl, frame).set(r)
                    bb = term[4]; continue
                if k == 'assert':
                    if term[3].startswith(('misaligned pointer dereference', 'null pointer dereference')):
                        # rustc's debug checks on raw-pointer dereferences: references of this memory model are always valid and aligned
                        bb = term[4]; continue
                    v = self.operand(term[2], frame); neg = term[1]
                    if isinstance(v, LazyV):
                        v = v.as_bool()
                    if not v.sym():
                        okv = (not v.v) if neg else v.v
                        if not okv:
                            raise Panic('mir-assert', term[3], self.stack)
                        bb = term[4]; continue
                    c = z3.Not(v.v) if neg else v.v
                    r = self.choose([(c, True), (z3.Not(c), False)])
                    if not r:
                        raise Panic('mir-assert', term[3], self.stack)
                    bb = term[4]; continue
                if k == 'drop':
                    self.on_drop(self.place_ref(term[1], frame), frame, b, term[1])
                    bb = term[2]; continue
                if k == 'unreachable':
                    if self.uc:
                        raise Pruned('unreachable in ' + b.name)
                    raise Unsupported('reached `unreachable` in ' + b.name)
                raise Unsupported(term[1] if k == 'unsupported' else 'term ' + str(term))
        finally:
            self.depth -= 1
            self.stack.pop()
            self.cur_crate = saved_crate

    def on_drop(self, ref, frame, body, place):
        pass

    # rustc's MIR pretty-printer zips the captured *variables* with the aggregate's operands, so a closure that captures
    # two disjoint fields of one variable (precise captures) is printed with fewer operands than it has.  The missing
    # tail operands are recovered from the temporaries assigned just before the aggregate, matched by declared type;
    # anything ambiguous is Unsupported.
    def _closure_need(self, name):
        key = ('need', name)
        if key not in self._adtcache:
            cb = self.closures.get(name)
            tys = {}
            if cb is not None:
                texts = []
                for bbn, (st, term) in cb.blocks.items():
                    texts.extend(st); texts.append(term)
                texts.append(cb.header)
                for t in texts:
                    for m in re.finditer(r'\((?:\(\*_1\)|_1)\.(\d+): ', t):
                        i = m.end(); d = 0; j = i
                        while j < len(t):
                            if t[j] in '(<[':
                                d += 1
                            elif t[j] in ')>]' and not (t[j] == '>' and t[j - 1] == '-'):
                                if d == 0:
                                    break
                                d -= 1
                            j += 1
                        tys[int(m.group(1))] = t[i:j].strip()
            self._adtcache[key] = tys
        return self._adtcache[key]

    def _closure_short(self, rv):
        tys = self._closure_need(rv[1])
        return bool(tys) and (max(tys) + 1) > len(rv[2])

    def _fix_closure_operands(self, b, bb, s):
        rv = s[2]
        tys = self._closure_need(rv[1])
        need = max(tys) + 1
        stmts_raw, _ = b.blocks[bb]
        # position of this aggregate in the raw block text
        idx = None
        for i, raw in enumerate(stmts_raw):
            if raw.startswith(s[1][1] + ' = {closure@') if s[1][0] == 'local' else False:
                idx = i
        if idx is None:
            raise Unsupported('closure aggregate with truncated operand list (rustc pretty-printer) could not be located')
        used = set(o[1][1] for o in rv[2] if o[0] in ('move', 'copy') and o[1][0] == 'local')
        cands = []
        for raw in stmts_raw[:idx]:
            m = re.match(r'^(_\d+) = ', raw)
            if m and m.group(1) not in used:
                cands.append(m.group(1))
        types = dict(b.locals); types.update(dict(b.args))
        fields = list(rv[2])
        for i in range(len(fields), need):
            want = tys.get(i)
            match = [c for c in cands if want is not None and types.get(c, '').replace("'_", "'_") == want and c not in used]
            if len(match) != 1:
                # tolerate lifetime spelling differences
                norm = lambda t: re.sub(r"'\w+\s*", '', t or '')
                match = [c for c in cands if want is not None and norm(types.get(c)) == norm(want) and c not in used]
            if len(match) < 1:
                raise Unsupported('closure aggregate printed with %d of %d captures and the missing operand (type %s) cannot be identified' % (len(rv[2]), need, want))
            c = match[-1]
            used.add(c); fields.append(('move', ('local', c)))
        fixed = ('assign', s[1], ('closure', rv[1], fields))
        cs, term = b.compiled[bb]
        for i, x in enumerate(cs):
            if x is s:
                cs[i] = fixed
        return fixed


class PyFn:
    """a python callable standing in for a closure argument"""
    __slots__ = ('f',)

    def __init__(s, f):
        s.f = f


def _rust_str_to_py(t):
    # rust escapes \u{XXXX} -> python
    return re.sub(r'\\u\{([0-9a-fA-F]+)\}', lambda m: '\\U%08x' % int(m.group(1), 16), t)


BUILTIN_CONSTS = {
    'u32::MAX': lambda: IntV((1 << 32) - 1, 32, 0),
    'usize::MAX': lambda: IntV((1 << 64) - 1, 64, 0),
    'u16::MAX': lambda: IntV((1 << 16) - 1, 16, 0),
    'u8::MAX': lambda: IntV(255, 8, 0),
    'u64::MAX': lambda: IntV((1 << 64) - 1, 64, 0),
    'i32::MAX': lambda: IntV((1 << 31) - 1, 32, 1),
}
