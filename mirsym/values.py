"""Value domain of the MIR symbolic executor."""
import z3

INTW = {'u8': (8, 0), 'u16': (16, 0), 'u32': (32, 0), 'u64': (64, 0), 'u128': (128, 0), 'usize': (64, 0),
        'i8': (8, 1), 'i16': (16, 1), 'i32': (32, 1), 'i64': (64, 1), 'i128': (128, 1), 'isize': (64, 1),
        'char': (32, 0)}


class Panic(Exception):
    """A modelled Rust panic (or abort).  .kind is a stable classification, .stack the MIR call stack."""
    def __init__(self, kind, msg='', stack=()):
        Exception.__init__(self, '%s: %s' % (kind, msg) if msg else kind)
        self.kind = kind; self.msg = msg; self.stack = tuple(stack)


class Pruned(Exception):
    """UC mode: the path left the type's value space (e.g. a lazily shaped discriminant hit `unreachable`)"""
    pass


class Unsupported(Exception):
    """The executor met something it has no semantics for.  Never a verdict: checks exit 2."""
    pass


class IntV:
    __slots__ = ('v', 'bits', 'signed')

    def __init__(s, v, bits, signed=0):
        s.v = v; s.bits = bits; s.signed = signed

    def sym(s):
        return not isinstance(s.v, int)

    def z(s):
        return s.v if not isinstance(s.v, int) else z3.BitVecVal(s.v, s.bits)

    def sval(s):
        """signed python value of a concrete int"""
        if s.signed and s.v >= (1 << (s.bits - 1)):
            return s.v - (1 << s.bits)
        return s.v

    def __repr__(s):
        return 'I%d(%s)' % (s.bits, s.v)


class BoolV:
    __slots__ = ('v',)

    def __init__(s, v):
        s.v = v

    def sym(s):
        return not isinstance(s.v, bool)

    def z(s):
        return s.v if not isinstance(s.v, bool) else z3.BoolVal(s.v)

    def __repr__(s):
        return 'B(%s)' % (s.v,)


class Agg:
    """struct / tuple / enum variant / array / closure"""
    __slots__ = ('kind', 'name', 'variant', 'fields')

    def __init__(s, kind, name, variant, fields):
        s.kind = kind; s.name = name; s.variant = variant; s.fields = fields

    def __repr__(s):
        if s.kind == 'enum':
            return '%s::%s%s' % (s.name, s.variant, s.fields if s.fields else '')
        return '%s:%s%s' % (s.kind, s.name, s.fields)


class RefV:
    """reference = (container, key); aliasing through &mut is real"""
    __slots__ = ('c', 'k')

    def __init__(s, c, k):
        s.c = c; s.k = k

    def get(s):
        return s.c[s.k]

    def set(s, v):
        s.c[s.k] = v

    def __repr__(s):
        try:
            return '&%r' % (s.c[s.k],)
        except Exception:
            return '&?'


class VecV:
    __slots__ = ('items',)

    def __init__(s, items):
        s.items = items

    def __repr__(s):
        return 'Vec%r' % (s.items,)


class SliceV:
    """a borrowed slice: shares the list object with its owner when it covers it entirely"""
    __slots__ = ('items', 'off', 'base')

    def __init__(s, items, base=None, off=0):
        s.items = items; s.base = base; s.off = off

    def __repr__(s):
        return 'Slice%r' % (s.items,)


class StrV:
    """concrete &'static str"""
    __slots__ = ('s',)

    def __init__(s, x):
        s.s = x

    def __repr__(s):
        return 'str(%r)' % s.s


class StrSym:
    """&str over a list of IntV bytes (symbolic or concrete); off = byte offset inside the string it was sliced from"""
    __slots__ = ('b', 'off')

    def __init__(s, b, off=0):
        s.b = b; s.off = off

    def __repr__(s):
        return 'strsym(%d)' % len(s.b)


class StringV:
    """owned String: list of IntV bytes"""
    __slots__ = ('b',)

    def __init__(s, b):
        s.b = b

    def __repr__(s):
        return 'String(%d)' % len(s.b)


class CellV:
    __slots__ = ('v',)

    def __init__(s, v):
        s.v = [v]


class Opaque:
    """a value the run must never look into (looking into it is Unsupported)"""
    __slots__ = ('tag',)

    def __init__(s, tag):
        s.tag = tag

    def __repr__(s):
        return 'Opaque(%s)' % (s.tag,)


class PathV:
    """std::path::Path / PathBuf as a component list: 'ROOT' or a list of IntV bytes (a Normal component, no separator inside)"""
    __slots__ = ('comps',)

    def __init__(s, comps):
        s.comps = list(comps)

    def __repr__(s):
        return 'Path(%d comps)' % len(s.comps)


class Poison:
    """result of an rvalue the interpreter cannot evaluate (e.g. pointer-to-integer arithmetic of rustc's inserted alignment checks);
    harmless unless it is USED: any read of it raises Unsupported with the original reason"""
    __slots__ = ('reason',)

    def __init__(s, reason):
        s.reason = reason

    def __repr__(s):
        return 'Poison(%s)' % (s.reason,)


class FnV:
    __slots__ = ('name',)

    def __init__(s, name):
        s.name = name


class MapV:
    """FxHashMap / HashMap / IndexMap as an insertion-ordered association list"""
    __slots__ = ('kv',)

    def __init__(s):
        s.kv = []


class PyIter:
    """generic lazy iterator: wraps a python generator"""
    __slots__ = ('gen', 'peeked')

    def __init__(s, gen):
        s.gen = gen; s.peeked = []

    def nxt(s):
        if s.peeked:
            return s.peeked.pop(0)
        try:
            return next(s.gen)
        except StopIteration:
            return None


class BuilderV:
    """rowan::GreenNodeBuilder: event log + rowan's own panics"""
    __slots__ = ('log', 'depth', 'roots', 'flat', 'open_at_finish')

    def __init__(s):
        # rowan keeps ONE flat `children` vector; `parents` records (kind, first_child index).  flat[d] = number of
        # elements currently in `children` that belong to open level d (flat[0] = top level).
        s.log = []; s.depth = 0; s.roots = 0; s.flat = [0]; s.open_at_finish = 0


class LexerV:
    """logos::Lexer state over a list of IntV source bytes"""
    __slots__ = ('src', 'n', 'token', 'start', 'end')

    def __init__(s, src):
        s.src = src; s.n = len(src); s.token = None; s.start = 0; s.end = 0


class CharsV:
    __slots__ = ('ss', 'i')

    def __init__(s, ss):
        s.ss = ss; s.i = 0


class LazyV:
    """UC mode: result of a havoc'd callee / unconstrained input, shaped on demand"""
    n = 0
    __slots__ = ('id', 'tag', 'disc', 'kids', 'ival', 'ty', 'parent')

    def __init__(s, tag, ty=None, parent=None):
        LazyV.n += 1
        s.id = LazyV.n; s.tag = tag; s.disc = None; s.kids = {}; s.ival = None; s.ty = ty; s.parent = parent

    def discriminant(s):
        if s.disc is None:
            s.disc = z3.BitVec('d%d' % s.id, 64)
        return s.disc

    def kid(s, k):
        if k not in s.kids:
            s.kids[k] = LazyV('%s.%s' % (s.tag, k), parent=s)
        return s.kids[k]

    def as_int(s, bits, signed=0):
        if s.ival is None:
            s.ival = z3.BitVec('v%d' % s.id, bits)
        z = s.ival
        if z3.is_bool(z):
            z = z3.If(z, z3.BitVecVal(1, bits), z3.BitVecVal(0, bits))
        if z.size() != bits:
            z = z3.Extract(bits - 1, 0, z) if z.size() > bits else z3.ZeroExt(bits - z.size(), z)
        return IntV(z, bits, signed)

    def as_bool(s):
        if s.ival is None:
            s.ival = z3.Bool('b%d' % s.id)
        if not z3.is_bool(s.ival):
            return BoolV(s.ival != 0)
        return BoolV(s.ival)

    def __repr__(s):
        return 'Lazy#%d<%s>' % (s.id, s.tag)


UNIT = Agg('tuple', '()', None, [])


def none():
    return Agg('enum', 'Option', 'None', [])


def some(x):
    return Agg('enum', 'Option', 'Some', [x])


def ok(x):
    return Agg('enum', 'Result', 'Ok', [x])


def err(x):
    return Agg('enum', 'Result', 'Err', [x])


def tup(*xs):
    return Agg('tuple', '(,)', None, list(xs))


def dcopy(v):
    if isinstance(v, Agg):
        return Agg(v.kind, v.name, v.variant, [dcopy(f) for f in v.fields])
    if isinstance(v, CellV):
        return CellV(v.v[0])
    if isinstance(v, VecV):
        return VecV([dcopy(x) for x in v.items])
    if isinstance(v, StringV):
        return StringV(list(v.b))
    if isinstance(v, MapV):
        m = MapV(); m.kv = [(dcopy(k), dcopy(x)) for k, x in v.kv]
        return m
    return v
