"""Dump rustc MIR of /repo's *current working tree* (never cached across runs).

The dump is taken with the repository's own stable toolchain (RUSTC_BOOTSTRAP=1 unlocks -Z flags):
  cargo rustc -p <crate> --lib -- -Zunpretty=mir                    (plain)
  cargo rustc -p <crate> --lib -- -Zunpretty=mir -Zverbose-internals (line-aligned twin that names
                                                                     macro-expanded closures)
  cargo rustc -p syntax --lib -- -Zunpretty=expanded                 (enum variant order of the
                                                                     logos-generated `Jump` enums)
Only dependency artefacts are reused between runs (CARGO_TARGET_DIR in the scratch directory);
the unpretty passes write no artefact, so cargo re-runs them every time.
"""
import os, subprocess, sys, time, hashlib, fcntl

REPO = os.environ.get('VERIF_REPO', '/repo')
SCRATCH = os.environ.get('VERIF_SCRATCH', '/var/tmp/glas-verif')

NT = ['-Ztrim-diagnostic-paths=no']

PROFILES = {
    # what the test-suite runs
    'dev': ['-C', 'debug-assertions=on', '-C', 'overflow-checks=on'],
    # what users run
    'release': ['-C', 'debug-assertions=off', '-C', 'overflow-checks=off'],
}


def scratch(*parts):
    p = os.path.join(SCRATCH, *parts)
    os.makedirs(os.path.dirname(p) if '.' in os.path.basename(p) else p, exist_ok=True)
    return p


def _cargo_env():
    env = dict(os.environ)
    env['RUSTC_BOOTSTRAP'] = '1'
    env['CARGO_NET_OFFLINE'] = 'true'
    env['CARGO_TARGET_DIR'] = scratch('target-mir')
    env.pop('RUSTFLAGS', None)
    return env


def _run(crate, extra, out_path, profile):
    cmd = ['cargo', 'rustc', '--offline', '-q', '-p', crate, '--lib', '--'] + PROFILES[profile] + extra
    lock = open(scratch('target-mir.lock'), 'w')
    fcntl.flock(lock, fcntl.LOCK_EX)
    try:
        t0 = time.time()
        with open(out_path, 'wb') as f:
            r = subprocess.run(cmd, cwd=REPO, env=_cargo_env(), stdout=f, stderr=subprocess.PIPE)
        if r.returncode != 0:
            sys.stderr.write(r.stderr.decode(errors='replace')[-4000:])
            raise RuntimeError('MIR dump failed for %s: %s' % (crate, ' '.join(cmd)))
        return time.time() - t0
    finally:
        fcntl.flock(lock, fcntl.LOCK_UN)
        lock.close()


def dump(crate, profile='dev', verbose=True, expanded=False, rundir=None):
    """returns dict(mir=path, mir_v=path|None, expanded=path|None, secs=float, sha=hex)"""
    rundir = rundir or scratch('run-%d' % os.getpid())
    os.makedirs(rundir, exist_ok=True)
    res = {'crate': crate, 'profile': profile}
    secs = 0.0
    p = os.path.join(rundir, '%s.%s.mir' % (crate, profile))
    secs += _run(crate, ['-Zunpretty=mir'] + NT, p, profile)
    res['mir'] = p
    if verbose:
        pv = os.path.join(rundir, '%s.%s.mirv' % (crate, profile))
        secs += _run(crate, ['-Zunpretty=mir', '-Zverbose-internals'] + NT, pv, profile)
        res['mir_v'] = pv
    else:
        res['mir_v'] = None
    if expanded:
        pe = os.path.join(rundir, '%s.expanded.rs' % crate)
        secs += _run(crate, ['-Zunpretty=expanded'], pe, profile)
        res['expanded'] = pe
    else:
        res['expanded'] = None
    res['secs'] = round(secs, 2)
    res['sha'] = hashlib.sha256(open(p, 'rb').read()).hexdigest()[:16]
    return res


def source_sha():
    """hash of every tracked-looking source file under /repo/crates (for evidence only)"""
    h = hashlib.sha256()
    for root, dirs, files in sorted(os.walk(os.path.join(REPO, 'crates'))):
        dirs.sort()
        for f in sorted(files):
            if f.endswith(('.rs', '.toml')):
                fp = os.path.join(root, f)
                h.update(fp.encode()); h.update(open(fp, 'rb').read())
    return h.hexdigest()[:16]


if __name__ == '__main__':
    crate = sys.argv[1]; prof = sys.argv[2] if len(sys.argv) > 2 else 'dev'
    print(dump(crate, prof, expanded=(crate == 'syntax')))
