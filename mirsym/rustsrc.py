"""Small readers of Rust *source* facts the MIR text does not carry: enum variant order."""
import os, re


def strip_comments(src):
    out = []; i = 0; n = len(src)
    while i < n:
        c = src[i]
        if src.startswith('//', i):
            j = src.find('\n', i)
            i = n if j < 0 else j
        elif src.startswith('/*', i):
            j = src.find('*/', i + 2)
            i = n if j < 0 else j + 2
        elif c == '"':
            j = i + 1
            while j < n and src[j] != '"':
                j += 2 if src[j] == '\\' else 1
            out.append('""'); i = j + 1
        elif c == 'r' and re.match(r'r#*"', src[i:i + 8]) and (i == 0 or not (src[i - 1].isalnum() or src[i - 1] == '_')):
            m = re.match(r'r(#*)"', src[i:])
            end = '"' + m.group(1)
            j = src.find(end, i + len(m.group(0)))
            out.append('""'); i = n if j < 0 else j + len(end)
        elif c == "'" and i + 2 < n and (src[i + 2] == "'" or src[i + 1] == '\\'):
            j = src.find("'", i + 2)
            out.append("' '"); i = n if j < 0 else j + 1
        else:
            out.append(c); i += 1
    return ''.join(out)


def strip_attrs(s):
    out = []; i = 0; n = len(s)
    while i < n:
        if s[i] == '#':
            j = i + 1
            while j < n and s[j] in ' !\t\n':
                j += 1
            if j < n and s[j] == '[':
                e = _match(s, j, '[', ']')
                if e > 0:
                    i = e + 1; continue
        out.append(s[i]); i += 1
    return ''.join(out)


def _match(src, i, o, c):
    d = 0
    for j in range(i, len(src)):
        if src[j] == o:
            d += 1
        elif src[j] == c:
            d -= 1
            if d == 0:
                return j
    return -1


def _split_top(s):
    out = []; d = 0; cur = []
    for ch in s:
        if ch in '([{<':
            d += 1
        elif ch in ')]}>':
            d -= 1
        if ch == ',' and d == 0:
            out.append(''.join(cur)); cur = []
        else:
            cur.append(ch)
    if ''.join(cur).strip():
        out.append(''.join(cur))
    return out


def scan_enums(src, scope_fn=False):
    """returns {name: [(variant, nfields_or_None, explicit_discriminant_or_None)]}; with scope_fn the
    key of an enum declared inside `fn foo...{` is 'foo::Name' (logos' per-state `Jump` enums)."""
    src = strip_comments(src)
    res = {}
    for m in re.finditer(r'\benum\s+(\w+)\s*(<[^{]*>)?\s*(?:where[^{]*)?\{', src):
        name = m.group(1)
        st = m.end() - 1
        en = _match(src, st, '{', '}')
        if en < 0:
            continue
        body = src[st + 1:en]
        variants = []; nextd = 0
        for part in _split_top(body):
            p = strip_attrs(part).strip()
            if not p:
                continue
            mm = re.match(r'^([A-Za-z_]\w*)\s*(\(|\{)?', p)
            if not mm:
                continue
            vn = mm.group(1)
            disc = None
            md = re.search(r'=\s*(-?\d+)\s*$', p)
            if md and not mm.group(2):
                disc = int(md.group(1))
            d = disc if disc is not None else nextd
            nextd = d + 1
            has_fields = bool(mm.group(2))
            variants.append((vn, has_fields, d))
        key = name
        if scope_fn:
            # nearest preceding `fn name<` at lower nesting: take the last `fn` before the enum
            fm = None
            for fm in re.finditer(r'\bfn\s+(\w+)', src[:m.start()]):
                pass
            if fm is not None and name == 'Jump':
                key = fm.group(1) + '::' + name
        if '$' in body:
            continue
        if key not in res or len(variants) > len(res[key]):
            res[key] = variants
    return res


def scan_crate_enums(crate_dir):
    """{short name: variants} plus {module::path::Name: variants} (the module path is derived from the file path), so
    that two enums with the same name in different modules (ty::Ty / ty::infer::Ty) stay distinct"""
    res = {}
    for root, dirs, files in os.walk(crate_dir):
        dirs.sort()
        for f in sorted(files):
            if f.endswith('.rs'):
                rel = os.path.relpath(os.path.join(root, f), crate_dir)[:-3]
                parts = [x for x in rel.split(os.sep) if x not in ('mod', 'lib', 'main')]
                mod = '::'.join(parts)
                for k, v in scan_enums(open(os.path.join(root, f), encoding='utf-8', errors='replace').read()).items():
                    if k in res and res[k] != v:
                        res.setdefault('__ambiguous__', set()).add(k)
                    res.setdefault(k, v)
                    res[(mod + '::' + k) if mod else k] = v
    return res


STD_ENUMS = {
    'Option': [('None', False, 0), ('Some', True, 1)],
    'Result': [('Ok', True, 0), ('Err', True, 1)],
    'ControlFlow': [('Continue', True, 0), ('Break', True, 1)],
    'Ordering': [('Less', False, -1), ('Equal', False, 0), ('Greater', False, 1)],
    'Either': [('Left', True, 0), ('Right', True, 1)],
    'Bound': [('Included', True, 0), ('Excluded', True, 1), ('Unbounded', False, 2)],
    'Cow': [('Borrowed', True, 0), ('Owned', True, 1)],
    'NodeOrToken': [('Node', True, 0), ('Token', True, 1)],
    'TokenAtOffset': [('None', False, 0), ('Single', True, 1), ('Between', True, 2)],
    'Direction': [('Next', False, 0), ('Prev', False, 1)],
    'WalkEvent': [('Enter', True, 0), ('Leave', True, 1)],
    'Entry': [('Occupied', True, 0), ('Vacant', True, 1)],
    'Level': [('Error', False, 1), ('Warn', False, 2), ('Info', False, 3), ('Debug', False, 4), ('Trace', False, 5)],
    'LevelFilter': [('Off', False, 0), ('Error', False, 1), ('Warn', False, 2), ('Info', False, 3), ('Debug', False, 4), ('Trace', False, 5)],
}
