//! Native oracle / replay helper for the glas kernel files (vfs.rs, convert.rs, semantic_tokens.rs are overlay
//! copies of /repo's current files with a `verif_api` module appended).  One JSON request per line on stdin.
#![allow(dead_code, unused_imports)]
mod convert;
mod semantic_tokens;
mod vfs;
mod urlext;

use std::io::{BufRead, Write};
use std::panic;

pub(crate) use anyhow::Result;
pub(crate) use urlext::UrlExt;
pub(crate) use vfs::{LineMap, Vfs};

use ide::VfsPath;
use lsp_types::{Position, Range};
use serde_json::{json, Value};
use text_size::{TextRange, TextSize};

fn hex(b: &[u8]) -> String {
    b.iter().map(|x| format!("{:02x}", x)).collect()
}
fn unhex(s: &str) -> Vec<u8> {
    (0..s.len() / 2).map(|i| u8::from_str_radix(&s[2 * i..2 * i + 2], 16).unwrap()).collect()
}
fn text_of(v: &Value) -> String {
    String::from_utf8(unhex(v.as_str().unwrap())).unwrap()
}

fn linemap(req: &Value) -> Value {
    let doc = text_of(&req["doc"]);
    let (text, map) = vfs::verif_api::normalize(doc);
    let mut pos = Vec::new();
    for p in 0..=text.len() {
        if text.is_char_boundary(p) {
            let (l, c) = map.line_col_for_pos(TextSize::from(p as u32));
            let back: u32 = map.pos_for_line_col(l, c).into();
            pos.push(json!([p, l, c, back]));
        }
    }
    let last = map.last_line();
    let ends: Vec<u32> = (0..=last).map(|l| map.end_col_for_line(l)).collect();
    json!({"text": hex(text.as_bytes()), "positions": pos, "last_line": last, "end_cols": ends})
}

fn p4(req: &Value) -> Range {
    let g = |k: &str| req[k].as_u64().unwrap() as u32;
    Range::new(Position::new(g("l1"), g("c1")), Position::new(g("l2"), g("c2")))
}

fn edit(req: &Value) -> Value {
    // didOpen(doc) then one incremental change, exactly the calls Server::on_did_change makes per change
    let mut vfs = Vfs::new();
    let file = vfs.set_path_content(VfsPath::new("/verif/doc.gleam"), text_of(&req["doc"]));
    let before = vfs.content_for_file(file);
    let ins = text_of(&req["ins"]);
    let res = (|| -> anyhow::Result<()> {
        let (_, range) = convert::from_range(&vfs, file, p4(req))?;
        vfs.change_file_content(file, Some(range), &ins)?;
        Ok(())
    })();
    let after = vfs.content_for_file(file);
    match res {
        Ok(()) => json!({"ok": true, "text": hex(after.as_bytes())}),
        Err(e) => json!({"ok": false, "err": format!("{e:#}"), "unchanged": *before == *after}),
    }
}

fn edits(req: &Value) -> Value {
    // didOpen(doc) then a CHAIN of incremental changes on the same Vfs (the line map of every change is the one the previous change left)
    let mut vfs = Vfs::new();
    let file = vfs.set_path_content(VfsPath::new("/verif/doc.gleam"), text_of(&req["doc"]));
    for (i, e) in req["edits"].as_array().unwrap().iter().enumerate() {
        let before = vfs.content_for_file(file);
        let ins = text_of(&e["ins"]);
        let res = (|| -> anyhow::Result<()> {
            let (_, range) = convert::from_range(&vfs, file, p4(e))?;
            vfs.change_file_content(file, Some(range), &ins)?;
            Ok(())
        })();
        if let Err(err) = res {
            let after = vfs.content_for_file(file);
            return json!({"ok": false, "edit": i, "err": format!("{err:#}"), "unchanged": *before == *after, "text": hex(after.as_bytes())});
        }
    }
    json!({"ok": true, "text": hex(vfs.content_for_file(file).as_bytes())})
}

fn from_pos(req: &Value) -> Value {
    let (_, map) = vfs::verif_api::normalize(text_of(&req["doc"]));
    let g = |k: &str| req[k].as_u64().unwrap() as u32;
    match convert::from_pos(&map, Position::new(g("l"), g("c"))) {
        Ok(p) => json!({"ok": true, "pos": u32::from(p)}),
        Err(e) => json!({"ok": false, "err": format!("{e:#}")}),
    }
}

fn to_range(req: &Value) -> Value {
    let (_, map) = vfs::verif_api::normalize(text_of(&req["doc"]));
    let g = |k: &str| req[k].as_u64().unwrap() as u32;
    let r = convert::to_range(&map, TextRange::new(g("s").into(), g("e").into()));
    json!([r.start.line, r.start.character, r.end.line, r.end.character])
}

fn semtok(req: &Value) -> Value {
    let (_, map) = vfs::verif_api::normalize(text_of(&req["doc"]));
    let hls: Vec<ide::HlRange> = req["hls"]
        .as_array()
        .unwrap()
        .iter()
        .map(|h| ide::HlRange {
            range: TextRange::new((h[0].as_u64().unwrap() as u32).into(), (h[1].as_u64().unwrap() as u32).into()),
            tag: match h[2].as_u64().unwrap() {
                0 => ide::HlTag::Function,
                1 => ide::HlTag::Module,
                _ => ide::HlTag::Constructor,
            },
        })
        .collect();
    let toks = convert::to_semantic_tokens(&map, &hls);
    Value::Array(
        toks.iter()
            .map(|t| json!([t.delta_line, t.delta_start, t.length, t.token_type, t.token_modifiers_bitset]))
            .collect(),
    )
}

fn main() {
    panic::set_hook(Box::new(|_| {}));
    let stdin = std::io::stdin();
    let stdout = std::io::stdout();
    for line in stdin.lock().lines() {
        let line = match line {
            Ok(l) => l,
            Err(_) => break,
        };
        // request line: `<cmd> <hex of json>` (same framing as oracle-syntax)
        let mut it = line.splitn(2, ' ');
        let cmd = it.next().unwrap_or("").to_string();
        let payload = String::from_utf8(unhex(it.next().unwrap_or("").trim())).unwrap_or_default();
        let req: Value = serde_json::from_str(&payload).unwrap_or(Value::Null);
        let res = panic::catch_unwind(|| match cmd.as_str() {
            "linemap" => linemap(&req),
            "edit" => edit(&req),
            "edits" => edits(&req),
            "from_pos" => from_pos(&req),
            "to_range" => to_range(&req),
            "semtok" => semtok(&req),
            _ => json!({"error": "unknown command"}),
        });
        let out = match res {
            Ok(v) => v,
            Err(e) => {
                let msg = if let Some(s) = e.downcast_ref::<&str>() {
                    s.to_string()
                } else if let Some(s) = e.downcast_ref::<String>() {
                    s.clone()
                } else {
                    String::from("?")
                };
                json!({"panic": msg})
            }
        };
        let mut so = stdout.lock();
        writeln!(so, "{}", out).ok();
        so.flush().ok();
    }
}
