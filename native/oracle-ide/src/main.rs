//! Native oracle / replay helper over the PUBLIC api of the ide crate (AnalysisHost / Analysis).
//! Requests: `<cmd> <hex of json>`; cmd = rename: {"files":[{"path":..,"text":..,"root":i}], "roots":[{"path":..,"local":bool,"deps":[..]}],
//! "file":i, "offset":n, "new_name":".."} -> prepare_rename + rename results through Analysis.
use std::io::{BufRead, Write};
use std::panic;

use ide::{AnalysisHost, Change, Dependency, FileId, FilePos, FileSet, PackageGraph, SourceRoot, VfsPath};
use serde_json::{json, Value};

fn unhex(s: &str) -> Vec<u8> {
    (0..s.len() / 2).map(|i| u8::from_str_radix(&s[2 * i..2 * i + 2], 16).unwrap()).collect()
}

fn build(req: &Value) -> AnalysisHost {
    let mut host = AnalysisHost::new();
    let mut change = Change::default();
    let roots = req["roots"].as_array().unwrap();
    let files = req["files"].as_array().unwrap();
    let mut sets: Vec<FileSet> = roots.iter().map(|_| FileSet::default()).collect();
    let mut next = files.len() as u32;
    for (i, f) in files.iter().enumerate() {
        let id = FileId(i as u32);
        sets[f["root"].as_u64().unwrap() as usize].insert(id, VfsPath::new(f["path"].as_str().unwrap()));
        change.change_file(id, f["text"].as_str().unwrap().into());
    }
    let mut graph = PackageGraph::default();
    let mut pkgs = Vec::new();
    let mut srs = Vec::new();
    for (i, r) in roots.iter().enumerate() {
        let toml = FileId(next);
        next += 1;
        let p = r["path"].as_str().unwrap();
        sets[i].insert(toml, VfsPath::new(format!("{p}/gleam.toml")));
        change.change_file(toml, "".into());
        pkgs.push(graph.add_package(format!("pkg{i}").into(), toml, r["local"].as_bool().unwrap()));
    }
    for (i, r) in roots.iter().enumerate() {
        for d in r["deps"].as_array().unwrap() {
            graph.add_dep(pkgs[i], Dependency { package: pkgs[d.as_u64().unwrap() as usize] });
        }
        srs.push(SourceRoot::new(std::mem::take(&mut sets[i]), r["path"].as_str().unwrap().into()));
    }
    change.set_roots(srs);
    change.set_package_graph(graph);
    host.apply_change(change);
    host
}

fn rename(req: &Value) -> Value {
    let (host, file) = host_for(req);
    let a = host.snapshot();
    let fpos = FilePos::new(file, (req["offset"].as_u64().unwrap() as u32).into());
    let prep = match a.prepare_rename(fpos) {
        Ok(Ok((r, n))) => json!({"ok": true, "range": [u32::from(r.start()), u32::from(r.end())], "name": n.as_str()}),
        Ok(Err(e)) => json!({"ok": false, "err": e}),
        Err(_) => json!({"ok": false, "err": "cancelled"}),
    };
    let ren = match a.rename(fpos, req["new_name"].as_str().unwrap()) {
        Ok(Ok(we)) => {
            let mut edits = Vec::new();
            for (f, es) in we.content_edits.iter() {
                for e in es {
                    edits.push(json!([f.0, u32::from(e.delete.start()), u32::from(e.delete.end()), e.insert.as_str()]));
                }
            }
            json!({"ok": true, "edits": edits})
        }
        Ok(Err(e)) => json!({"ok": false, "err": e}),
        Err(_) => json!({"ok": false, "err": "cancelled"}),
    };
    json!({"prepare": prep, "rename": ren})
}

fn hover(req: &Value) -> Value {
    // single file or workspace; hover at every requested offset
    let (host, file) = host_for(req);
    let a = host.snapshot();
    let mut out = Vec::new();
    for o in req["offsets"].as_array().unwrap() {
        let fpos = FilePos::new(file, (o.as_u64().unwrap() as u32).into());
        match a.hover(fpos) {
            Ok(Some(h)) => out.push(json!(h.markup)),
            Ok(None) => out.push(Value::Null),
            Err(_) => out.push(json!("<cancelled>")),
        }
    }
    json!({"hover": out})
}

/// single file ({"text":..}) or a workspace ({"files":..,"roots":..,"file":i})
fn host_for(req: &Value) -> (AnalysisHost, FileId) {
    if req["files"].is_array() {
        (build(req), FileId(req["file"].as_u64().unwrap() as u32))
    } else {
        AnalysisHost::new_single_file(req["text"].as_str().unwrap())
    }
}

fn goto(req: &Value) -> Value {
    let (host, file) = host_for(req);
    let a = host.snapshot();
    let mut out = Vec::new();
    for o in req["offsets"].as_array().unwrap() {
        let fpos = FilePos::new(file, (o.as_u64().unwrap() as u32).into());
        match a.goto_definition(fpos) {
            Ok(Some(ide::GotoDefinitionResult::Targets(ts))) => out.push(Value::Array(
                ts.iter().map(|t| json!([t.file_id.0, u32::from(t.focus_range.start()), u32::from(t.focus_range.end())])).collect(),
            )),
            Ok(_) => out.push(Value::Null),
            Err(_) => out.push(json!("<cancelled>")),
        }
    }
    json!({"goto": out})
}

fn complete(req: &Value) -> Value {
    let (host, file) = host_for(req);
    let a = host.snapshot();
    let mut out = Vec::new();
    for o in req["offsets"].as_array().unwrap() {
        let fpos = FilePos::new(file, (o.as_u64().unwrap() as u32).into());
        let trig = req["trigger"].as_str().and_then(|t| t.chars().next());
        match a.completions(fpos, trig) {
            Ok(Some(items)) => out.push(Value::Array(
                items
                    .iter()
                    .map(|i| {
                        if req["details"].as_bool().unwrap_or(false) {
                            json!([i.label.as_str(), i.signature.clone(), i.description.clone(), format!("{:?}", i.kind)])
                        } else if req["ranges"].as_bool().unwrap_or(false) {
                            json!([i.label.as_str(), u32::from(i.source_range.start()), u32::from(i.source_range.end()), i.replace.as_str()])
                        } else {
                            json!(i.label.as_str())
                        }
                    })
                    .collect(),
            )),
            Ok(None) => out.push(Value::Null),
            Err(_) => out.push(json!("<cancelled>")),
        }
    }
    json!({"complete": out})
}

fn diag(req: &Value) -> Value {
    let text = req["text"].as_str().unwrap();
    let (host, file) = AnalysisHost::new_single_file(text);
    let a = host.snapshot();
    match a.diagnostics(file) {
        Ok(ds) => Value::Array(ds.iter().map(|d| json!([u32::from(d.range.start()), u32::from(d.range.end()), format!("{:?}", d.kind)])).collect()),
        Err(_) => json!("<cancelled>"),
    }
}

fn sighelp(req: &Value) -> Value {
    let (host, file) = AnalysisHost::new_single_file(req["text"].as_str().unwrap());
    let a = host.snapshot();
    let mut n = 0;
    for o in req["offsets"].as_array().unwrap() {
        let fpos = FilePos::new(file, (o.as_u64().unwrap() as u32).into());
        if let Ok(Some(_)) = a.signature_help(fpos) {
            n += 1;
        }
    }
    json!({"sighelp": n})
}

fn highlight(req: &Value) -> Value {
    let host = build(req);
    let a = host.snapshot();
    let fpos = FilePos::new(FileId(req["file"].as_u64().unwrap() as u32), (req["offset"].as_u64().unwrap() as u32).into());
    match a.highlight_related(fpos) {
        Ok(hs) => json!({"highlight": hs.iter().map(|h| json!([u32::from(h.range.start()), u32::from(h.range.end())])).collect::<Vec<_>>()}),
        Err(_) => json!("<cancelled>"),
    }
}

/// semantic highlighting of a single file, whole document or a byte range: {"text":.., "range":[s,e]|null}
fn semhl(req: &Value) -> Value {
    let (host, file) = host_for(req);
    let a = host.snapshot();
    let range = req["range"].as_array().map(|r| syntax::TextRange::new((r[0].as_u64().unwrap() as u32).into(), (r[1].as_u64().unwrap() as u32).into()));
    match a.syntax_highlight(file, range) {
        Ok(hs) => json!({"semhl": hs.iter().map(|h| json!([u32::from(h.range.start()), u32::from(h.range.end()), format!("{:?}", h.tag)])).collect::<Vec<_>>()}),
        Err(_) => json!("<cancelled>"),
    }
}

/// ide::module_name(root, path) on absolute unix paths given as strings
fn modname(req: &Value) -> Value {
    let root = std::path::PathBuf::from(req["root"].as_str().unwrap());
    let out: Vec<Value> = req["paths"]
        .as_array()
        .unwrap()
        .iter()
        .map(|p| {
            let path = std::path::PathBuf::from(p.as_str().unwrap());
            match panic::catch_unwind(|| ide::module_name(&root, &path)) {
                Ok(Some(n)) => json!(n.as_str()),
                Ok(None) => Value::Null,
                Err(_) => json!({"panic": true}),
            }
        })
        .collect();
    json!({"modname": out})
}


/// C06: for every identifier token (IDENT / U_IDENT) of every file of the workspace: goto_definition, references, highlight_related.
/// {"files":..,"roots":..}  ->  {"inverse":[{"file":i,"start":s,"end":e,"text":..,"goto":[[f,s,e]..]|null,"refs":[[f,s,e]..]|null,"hl":[[s,e]..]}..]}
fn inverse(req: &Value) -> Value {
    // {"text":..}: a free-standing document that no package owns (AnalysisHost::new_single_file)
    let loose = !req["files"].is_array();
    let host = if loose { AnalysisHost::new_single_file(req["text"].as_str().unwrap()).0 } else { build(req) };
    let a = host.snapshot();
    let mut out = Vec::new();
    let loose_files = vec![json!({"text": req["text"].clone()})];
    for (i, f) in (if loose { &loose_files } else { req["files"].as_array().unwrap() }).iter().enumerate() {
        let text = f["text"].as_str().unwrap();
        for tok in syntax::lexer::GleamLexer::new(text) {
            if tok.kind != syntax::SyntaxKind::IDENT && tok.kind != syntax::SyntaxKind::U_IDENT {
                continue;
            }
            let fpos = FilePos::new(FileId(i as u32), tok.range.start());
            let goto = match panic::catch_unwind(panic::AssertUnwindSafe(|| a.goto_definition(fpos))) {
                Ok(Ok(Some(ide::GotoDefinitionResult::Targets(ts)))) => Value::Array(
                    ts.iter().map(|t| json!([t.file_id.0, u32::from(t.focus_range.start()), u32::from(t.focus_range.end())])).collect(),
                ),
                Ok(Ok(_)) => Value::Null,
                Ok(Err(_)) => json!("<cancelled>"),
                Err(_) => json!("<panic>"),
            };
            let refs = match panic::catch_unwind(panic::AssertUnwindSafe(|| a.references(fpos))) {
                Ok(Ok(Some(rs))) => Value::Array(rs.iter().map(|r| json!([r.file_id.0, u32::from(r.range.start()), u32::from(r.range.end())])).collect()),
                Ok(Ok(None)) => Value::Null,
                Ok(Err(_)) => json!("<cancelled>"),
                Err(_) => json!("<panic>"),
            };
            let hl = match panic::catch_unwind(panic::AssertUnwindSafe(|| a.highlight_related(fpos))) {
                Ok(Ok(hs)) => Value::Array(hs.iter().map(|h| json!([u32::from(h.range.start()), u32::from(h.range.end())])).collect()),
                Ok(Err(_)) => json!("<cancelled>"),
                Err(_) => json!("<panic>"),
            };
            out.push(json!({"file": i, "start": u32::from(tok.range.start()), "end": u32::from(tok.range.end()), "text": tok.text, "goto": goto, "refs": refs, "hl": hl}));
        }
    }
    json!({"inverse": out})
}

fn apply_edits(files: &mut Vec<String>, we: &ide::WorkspaceEdit) -> Result<(), String> {
    for (f, es) in we.content_edits.iter() {
        let mut es: Vec<_> = es.iter().collect();
        es.sort_by(|a, b| b.delete.start().cmp(&a.delete.start()));
        let mut last: Option<u32> = None;
        for e in es {
            if let Some(l) = last {
                if u32::from(e.delete.end()) > l {
                    return Err(format!("edits overlap in file {}", f.0));
                }
            }
            last = Some(u32::from(e.delete.start()));
            let t = files.get_mut(f.0 as usize).ok_or_else(|| format!("edit for unknown file {}", f.0))?;
            let (s, en) = (usize::from(e.delete.start()), usize::from(e.delete.end()));
            if en > t.len() || !t.is_char_boundary(s) || !t.is_char_boundary(en) {
                return Err(format!("edit {}..{} outside file {} / off a char boundary", s, en, f.0));
            }
            e.apply(t);
        }
    }
    Ok(())
}

fn with_texts(req: &Value, texts: &[String]) -> Value {
    let mut r = req.clone();
    for (i, t) in texts.iter().enumerate() {
        r["files"][i]["text"] = json!(t);
    }
    r
}

fn ndiag(req: &Value) -> Vec<usize> {
    let host = build(req);
    let a = host.snapshot();
    (0..req["files"].as_array().unwrap().len()).map(|i| a.diagnostics(FileId(i as u32)).map(|d| d.len()).unwrap_or(usize::MAX)).collect()
}

/// C07: rename at (file, offset) to new_name, apply the edits, rename back at the same token (shifted), report everything.
/// -> {"rename": {"ok":..,"edits":[[f,s,e,text]..]|"err":..}, "texts":[..after..], "diag_before":[..], "diag_after":[..], "back_texts":[..]|null, "back_err":..}
fn renameall(req: &Value) -> Value {
    let host = build(req);
    let a = host.snapshot();
    let file = req["file"].as_u64().unwrap() as u32;
    let off = req["offset"].as_u64().unwrap() as u32;
    let old_name = req["old_name"].as_str().unwrap();
    let new_name = req["new_name"].as_str().unwrap();
    let fpos = FilePos::new(FileId(file), off.into());
    let mut texts: Vec<String> = req["files"].as_array().unwrap().iter().map(|f| f["text"].as_str().unwrap().to_string()).collect();
    let we = match a.rename(fpos, new_name) {
        Ok(Ok(we)) => we,
        Ok(Err(e)) => return json!({"rename": {"ok": false, "err": e}}),
        Err(_) => return json!({"rename": {"ok": false, "err": "cancelled"}}),
    };
    let mut edits = Vec::new();
    for (f, es) in we.content_edits.iter() {
        for e in es {
            edits.push(json!([f.0, u32::from(e.delete.start()), u32::from(e.delete.end()), e.insert.as_str()]));
        }
    }
    let diag_before = ndiag(req);
    if let Err(e) = apply_edits(&mut texts, &we) {
        return json!({"rename": {"ok": true, "edits": edits}, "apply_err": e});
    }
    let req2 = with_texts(req, &texts);
    let diag_after = ndiag(&req2);
    // where is the token we renamed from, in the new text?  shift by the edits before it in the same file
    let mut shift: i64 = 0;
    for (f, es) in we.content_edits.iter() {
        if f.0 == file {
            for e in es {
                if u32::from(e.delete.start()) < off {
                    shift += new_name.len() as i64 - (u32::from(e.delete.end()) - u32::from(e.delete.start())) as i64;
                }
            }
        }
    }
    let off2 = (off as i64 + shift) as u32;
    let host2 = build(&req2);
    let a2 = host2.snapshot();
    let mut back_texts = texts.clone();
    let (back, back_err) = match a2.rename(FilePos::new(FileId(file), off2.into()), old_name) {
        Ok(Ok(we2)) => match apply_edits(&mut back_texts, &we2) {
            Ok(()) => (json!(back_texts), Value::Null),
            Err(e) => (Value::Null, json!(e)),
        },
        Ok(Err(e)) => (Value::Null, json!(e)),
        Err(_) => (Value::Null, json!("cancelled")),
    };
    json!({"rename": {"ok": true, "edits": edits}, "texts": texts, "diag_before": diag_before, "diag_after": diag_after, "back_texts": back, "back_err": back_err, "offset_after": off2})
}


// ------------------------------------------------------------------------------------------------ C11: edit histories
/// one workspace state: {"files":[{"id":k,"path":..,"text":..,"root":i}..], "roots":[{"path":..,"local":bool,"deps":[..],"toml":id}..]}
fn state_change(ws: &Value, prev: Option<&Value>, always_structure: bool) -> Change {
    state_change2(ws, prev, always_structure, 0)
}

/// `double`: every changed text is queued twice in the Change, an intermediate text first (a didChange notification with several edits)
fn state_change2(ws: &Value, prev: Option<&Value>, always_structure: bool, double: u8) -> Change {
    let mut change = Change::default();
    let files = ws["files"].as_array().unwrap();
    let roots = ws["roots"].as_array().unwrap();
    let key = |f: &Value| (f["id"].as_u64().unwrap(), f["path"].as_str().unwrap().to_string(), f["root"].as_u64().unwrap());
    let mut membership_changed = prev.is_none();
    let mut graph_changed = prev.is_none();
    if let Some(p) = prev {
        let pf = p["files"].as_array().unwrap();
        let a: Vec<_> = pf.iter().map(key).collect();
        let b: Vec<_> = files.iter().map(key).collect();
        // the layout (which file lives under which root) is re-sent only when it changed; a changed dependency edge alone is a graph-only Change
        let layout = |w: &Value| -> Vec<(String, u64)> { w["roots"].as_array().unwrap().iter().map(|r| (r["path"].as_str().unwrap().to_string(), r["toml"].as_u64().unwrap())).collect() };
        membership_changed = a != b || layout(p) != layout(ws);
        graph_changed = p["roots"] != ws["roots"];
        for f in pf {
            if !files.iter().any(|g| g["id"] == f["id"]) {
                change.change_file(FileId(f["id"].as_u64().unwrap() as u32), "".into()); // a removed file is emptied (what the Vfs does)
            }
        }
    }
    for f in files {
        let old = prev.and_then(|p| p["files"].as_array().unwrap().iter().find(|g| g["id"] == f["id"]));
        if old.map_or(true, |o| o["text"] != f["text"]) {
            if double == 1 {
                change.change_file(FileId(f["id"].as_u64().unwrap() as u32), format!("{}\npub fn draft() {{ 0 }}\n", f["text"].as_str().unwrap()).into());
            }
            change.change_file(FileId(f["id"].as_u64().unwrap() as u32), f["text"].as_str().unwrap().into());
        } else if double == 2 {
            // an edit and its undo inside ONE Change: the file ends with the text the host already has
            change.change_file(FileId(f["id"].as_u64().unwrap() as u32), format!("{}\npub fn draft() {{ 0 }}\n", f["text"].as_str().unwrap()).into());
            change.change_file(FileId(f["id"].as_u64().unwrap() as u32), f["text"].as_str().unwrap().into());
        }
    }
    if prev.is_none() {
        for r in roots {
            change.change_file(FileId(r["toml"].as_u64().unwrap() as u32), "".into());
        }
    } else if let Some(p) = prev {
        for r in roots {
            if !p["roots"].as_array().unwrap().iter().any(|q| q["toml"] == r["toml"]) {
                change.change_file(FileId(r["toml"].as_u64().unwrap() as u32), "".into());
            }
        }
    }
    if membership_changed || always_structure {
        let mut sets: Vec<FileSet> = roots.iter().map(|_| FileSet::default()).collect();
        for f in files {
            sets[f["root"].as_u64().unwrap() as usize].insert(FileId(f["id"].as_u64().unwrap() as u32), VfsPath::new(f["path"].as_str().unwrap()));
        }
        let mut srs = Vec::new();
        for (i, r) in roots.iter().enumerate() {
            let p = r["path"].as_str().unwrap();
            sets[i].insert(FileId(r["toml"].as_u64().unwrap() as u32), VfsPath::new(format!("{p}/gleam.toml")));
            srs.push(SourceRoot::new(std::mem::take(&mut sets[i]), p.into()));
        }
        change.set_roots(srs);
    }
    if graph_changed || always_structure {
        let mut graph = PackageGraph::default();
        let mut pkgs = Vec::new();
        for (i, r) in roots.iter().enumerate() {
            pkgs.push(graph.add_package(format!("pkg{i}").into(), FileId(r["toml"].as_u64().unwrap() as u32), r["local"].as_bool().unwrap()));
        }
        for (i, r) in roots.iter().enumerate() {
            for d in r["deps"].as_array().unwrap() {
                graph.add_dep(pkgs[i], Dependency { package: pkgs[d.as_u64().unwrap() as usize] });
            }
        }
        change.set_package_graph(graph);
    }
    change
}

fn guarded<T>(f: impl FnOnce() -> Result<T, ide::Cancelled>, show: impl FnOnce(T) -> Value) -> Value {
    match panic::catch_unwind(panic::AssertUnwindSafe(f)) {
        Ok(Ok(v)) => show(v),
        Ok(Err(_)) => json!("<cancelled>"),
        Err(_) => json!("<panic>"),
    }
}

/// every answer of the public API on a workspace state, keyed by "<file>@<offset>:<query>"; `rev` asks in the opposite order
fn dump_answers(host: &AnalysisHost, ws: &Value, rev: bool) -> std::collections::BTreeMap<String, Value> {
    let a = host.snapshot();
    dump_answers_on(&a, ws, rev)
}

fn dump_answers_on(a: &ide::Analysis, ws: &Value, rev: bool) -> std::collections::BTreeMap<String, Value> {
    let mut out = std::collections::BTreeMap::new();
    let mut files: Vec<&Value> = ws["files"].as_array().unwrap().iter().collect();
    if rev {
        files.reverse();
    }
    for f in files {
        let id = f["id"].as_u64().unwrap() as u32;
        let file = FileId(id);
        let text = f["text"].as_str().unwrap();
        let mut toks: Vec<_> = syntax::lexer::GleamLexer::new(text).filter(|t| t.kind == syntax::SyntaxKind::IDENT || t.kind == syntax::SyntaxKind::U_IDENT).collect();
        if rev {
            toks.reverse();
        }
        let file_level = |out: &mut std::collections::BTreeMap<String, Value>| {
            out.insert(
                format!("{id}:diagnostics"),
                guarded(|| a.diagnostics(file), |ds| Value::Array(ds.iter().map(|d| json!([u32::from(d.range.start()), u32::from(d.range.end()), format!("{:?}", d.kind)])).collect())),
            );
            out.insert(
                format!("{id}:semantic"),
                guarded(|| a.syntax_highlight(file, None), |hs| Value::Array(hs.iter().map(|h| json!([u32::from(h.range.start()), u32::from(h.range.end()), format!("{:?}", h.tag)])).collect())),
            );
            // ranged requests whose window starts / ends strictly inside a tagged identifier
            let tagged: Vec<(u32, u32)> = match panic::catch_unwind(panic::AssertUnwindSafe(|| a.syntax_highlight(file, None))) {
                Ok(Ok(hs)) => hs.iter().map(|h| (u32::from(h.range.start()), u32::from(h.range.end()))).collect(),
                Ok(Err(_)) => {
                    out.insert(format!("{id}:semantic_windows"), json!("<cancelled>"));
                    return;
                }
                Err(_) => {
                    out.insert(format!("{id}:semantic_windows"), json!("<panic>"));
                    return;
                }
            };
            let len = text.len() as u32;
            let mut windows = Vec::new();
            for (s, e) in tagged.iter().copied().filter(|(s, e)| e - s >= 2).take(6) {
                for (ws, we) in [(s + 1, (e + 3).min(len)), (s.saturating_sub(3), e - 1)] {
                    if !text.is_char_boundary(ws as usize) || !text.is_char_boundary(we as usize) || ws > we {
                        continue;
                    }
                    let w = syntax::TextRange::new(ws.into(), we.into());
                    let got = guarded(|| a.syntax_highlight(file, Some(w)), |hs| Value::Array(hs.iter().map(|h| json!([u32::from(h.range.start()), u32::from(h.range.end()), format!("{:?}", h.tag)])).collect()));
                    windows.push(json!([ws, we, got]));
                }
            }
            if windows.iter().any(|w| w[2] == "<cancelled>") {
                out.insert(format!("{id}:semantic_windows"), json!("<cancelled>"));
            } else {
                out.insert(format!("{id}:semantic_windows"), Value::Array(windows));
            }
        };
        if rev {
            file_level(&mut out);
        }
        for tok in toks {
            let off = u32::from(tok.range.start());
            let fpos = FilePos::new(file, tok.range.start());
            let epos = FilePos::new(file, tok.range.end());
            let mut qs: Vec<(&str, Box<dyn Fn() -> Value + '_>)> = vec![
                ("goto", Box::new(|| guarded(|| a.goto_definition(fpos), |g| match g {
                    Some(ide::GotoDefinitionResult::Targets(ts)) => Value::Array(
                        ts.iter().map(|t| json!([t.file_id.0, u32::from(t.focus_range.start()), u32::from(t.focus_range.end()), u32::from(t.full_range.start()), u32::from(t.full_range.end())])).collect(),
                    ),
                    Some(_) => json!("<other>"),
                    None => Value::Null,
                }))),
                ("refs", Box::new(|| guarded(|| a.references(fpos), |r| match r {
                    Some(rs) => {
                        let mut v: Vec<(u32, u32, u32)> = rs.iter().map(|r| (r.file_id.0, u32::from(r.range.start()), u32::from(r.range.end()))).collect();
                        v.sort();
                        json!(v)
                    }
                    None => Value::Null,
                }))),
                ("highlight", Box::new(|| guarded(|| a.highlight_related(fpos), |hs| {
                    let mut v: Vec<(u32, u32)> = hs.iter().map(|h| (u32::from(h.range.start()), u32::from(h.range.end()))).collect();
                    v.sort();
                    json!(v)
                }))),
                ("hover", Box::new(|| guarded(|| a.hover(fpos), |h| match h {
                    Some(h) => json!([u32::from(h.range.start()), u32::from(h.range.end()), h.markup]),
                    None => Value::Null,
                }))),
                ("complete", Box::new(|| guarded(|| a.completions(epos, None), |c| match c {
                    Some(items) => {
                        let mut v: Vec<String> = items.iter().map(|i| format!("{}|{}|{:?}", i.label, i.replace, i.kind)).collect();
                        v.sort();
                        json!(v)
                    }
                    None => Value::Null,
                }))),
                ("prepare_rename", Box::new(|| guarded(|| a.prepare_rename(fpos), |p| match p {
                    Ok((r, n)) => json!([u32::from(r.start()), u32::from(r.end()), n.as_str()]),
                    Err(e) => json!({"err": e}),
                }))),
            ];
            if rev {
                qs.reverse();
            }
            for (name, q) in qs {
                out.insert(format!("{id}@{off}:{name}"), q());
            }
        }
        if !rev {
            file_level(&mut out);
        }
    }
    out
}

/// {"states":[ws..], "check":[bool..], "always_structure":bool, "warm":bool}: state 0 is loaded, every later state is reached by the delta Change;
/// after every state with check=true the answers of the long-lived host are compared with a fresh host for that state, and with a second
/// fresh host asked in the opposite order.  -> {"diffs":[{"state":i,"key":..,"incremental":..,"fresh":..}|{"state":i,"key":..,"fresh":..,"fresh_reverse":..}], "answers":n, "panics":n}
fn history(req: &Value) -> Value {
    let states = req["states"].as_array().unwrap();
    let always = req["always_structure"].as_bool().unwrap_or(false);
    let mut host = AnalysisHost::new();
    let mut diffs = Vec::new();
    let mut answers = 0usize;
    let mut panics = 0usize;
    for (i, ws) in states.iter().enumerate() {
        let double = if req["double_writes"].as_str() == Some("undo") { 2 } else if req["double_writes"].as_bool().unwrap_or(false) { 1 } else { 0 };
        let ch = state_change2(ws, if i == 0 { None } else { Some(&states[i - 1]) }, always, double);
        host.apply_change(ch);
        if !req["check"][i].as_bool().unwrap_or(i + 1 == states.len()) {
            continue;
        }
        let inc = dump_answers(&host, ws, false);
        let mut fresh_host = AnalysisHost::new();
        fresh_host.apply_change(state_change(ws, None, true));
        let fresh = dump_answers(&fresh_host, ws, false);
        let mut fresh_host2 = AnalysisHost::new();
        fresh_host2.apply_change(state_change(ws, None, true));
        let fresh_rev = dump_answers(&fresh_host2, ws, true);
        answers += inc.len();
        for (k, v) in fresh.iter() {
            if v == "<panic>" {
                panics += 1;
            }
            if inc.get(k) != Some(v) && diffs.len() < 8 {
                diffs.push(json!({"state": i, "key": k, "incremental": inc.get(k), "fresh": v}));
            }
            if fresh_rev.get(k) != Some(v) && diffs.len() < 8 {
                diffs.push(json!({"state": i, "key": k, "fresh": v, "fresh_reverse": fresh_rev.get(k)}));
            }
        }
    }
    if req["dump"].as_bool().unwrap_or(false) {
        let last = states.last().unwrap();
        return json!({"diffs": diffs, "answers": answers, "panics": panics, "dump": dump_answers(&host, last, false)});
    }
    json!({"diffs": diffs, "answers": answers, "panics": panics})
}


/// C12: {"before": ws, "after": ws, "threads": k, "delays_us": [d..]} - for every delay: a fresh host loaded with `before`, k threads each
/// asking every public query on their own snapshot, the main thread applying the delta to `after` d microseconds after they started.
/// Every answer of a thread must be the pre-change answer or a cancellation; the change must complete promptly; a snapshot taken
/// afterwards must answer like a fresh analysis of `after`.
fn isolation(req: &Value) -> Value {
    let before = &req["before"];
    let after = &req["after"];
    let k = req["threads"].as_u64().unwrap_or(2) as usize;
    let mut ref_host = AnalysisHost::new();
    ref_host.apply_change(state_change(before, None, true));
    let pre = dump_answers(&ref_host, before, false);
    let mut fresh_after = AnalysisHost::new();
    fresh_after.apply_change(state_change(after, None, true));
    let post = dump_answers(&fresh_after, after, false);
    let mut problems = Vec::new();
    let mut cancelled = 0usize;
    let mut answered = 0usize;
    let mut max_apply_ms = 0u128;
    for d in req["delays_us"].as_array().unwrap() {
        let d = d.as_u64().unwrap();
        let mut host = AnalysisHost::new();
        host.apply_change(state_change(before, None, true));
        let snaps: Vec<ide::Analysis> = (0..k).map(|_| host.snapshot()).collect();
        let results: Vec<std::collections::BTreeMap<String, Value>> = std::thread::scope(|sc| {
            let mut hs = Vec::new();
            for (t, a) in snaps.into_iter().enumerate() {
                let rev = t % 2 == 1;
                hs.push(sc.spawn(move || dump_with(&a, before, rev)));
            }
            std::thread::sleep(std::time::Duration::from_micros(d));
            let t0 = std::time::Instant::now();
            host.apply_change(state_change(after, Some(before), false));
            let ms = t0.elapsed().as_millis();
            if ms > max_apply_ms {
                max_apply_ms = ms;
            }
            hs.into_iter().map(|h| h.join().unwrap_or_default()).collect()
        });
        for (t, r) in results.iter().enumerate() {
            for (key, v) in r.iter() {
                if v == "<cancelled>" {
                    cancelled += 1;
                } else if Some(v) == pre.get(key) {
                    answered += 1;
                } else if problems.len() < 6 {
                    problems.push(json!({"delay_us": d, "thread": t, "key": key, "got": v, "pre_change": pre.get(key), "post_change": post.get(key)}));
                }
            }
        }
        let now = dump_answers(&host, after, false);
        for (key, v) in post.iter() {
            if now.get(key) != Some(v) && problems.len() < 6 {
                problems.push(json!({"delay_us": d, "thread": "after", "key": key, "got": now.get(key), "fresh": v}));
            }
        }
    }
    json!({"problems": problems, "answered": answered, "cancelled": cancelled, "max_apply_ms": max_apply_ms as u64})
}

fn dump_with(a: &ide::Analysis, ws: &Value, rev: bool) -> std::collections::BTreeMap<String, Value> {
    dump_answers_on(a, ws, rev)
}

/// every answer of the public API on one workspace state (same shape as a `history` state) -> {"dump": {key: answer}}
fn answers(req: &Value) -> Value {
    let mut host = AnalysisHost::new();
    host.apply_change(state_change(req, None, true));
    json!({"dump": dump_answers(&host, req, false)})
}

fn main() {
    panic::set_hook(Box::new(|_| {}));
    let stdin = std::io::stdin();
    let stdout = std::io::stdout();
    for line in stdin.lock().lines() {
        let line = match line {
            Ok(l) => l,
            Err(_) => break,
        };
        let mut it = line.splitn(2, ' ');
        let cmd = it.next().unwrap_or("").to_string();
        let payload = String::from_utf8(unhex(it.next().unwrap_or("").trim())).unwrap_or_default();
        let req: Value = serde_json::from_str(&payload).unwrap_or(Value::Null);
        let res = panic::catch_unwind(|| match cmd.as_str() {
            "rename" => rename(&req),
            "hover" => hover(&req),
            "goto" => goto(&req),
            "complete" => complete(&req),
            "diag" => diag(&req),
            "sighelp" => sighelp(&req),
            "highlight" => highlight(&req),
            "semhl" => semhl(&req),
            "modname" => modname(&req),
            "inverse" => inverse(&req),
            "renameall" => renameall(&req),
            "history" => history(&req),
            "answers" => answers(&req),
            "isolation" => isolation(&req),
            _ => json!({"error": "unknown command"}),
        });
        let out = match res {
            Ok(v) => v,
            Err(e) => {
                let msg = if let Some(s) = e.downcast_ref::<&str>() { s.to_string() } else if let Some(s) = e.downcast_ref::<String>() { s.clone() } else { String::from("?") };
                json!({"panic": msg})
            }
        };
        let mut so = stdout.lock();
        writeln!(so, "{}", out).ok();
        so.flush().ok();
    }
}
