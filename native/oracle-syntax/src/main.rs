//! Native oracle / replay helper for the syntax crate (not a deciding technique).
//! Protocol: one request per line on stdin: `<cmd> <hex-encoded utf8 source>`; one JSON line per answer.
//!   lex   -> {"tokens":[[kind_u16,start,end],...]}
//!   parse -> {"tree":<nested>, "errors":[[start,end,"Kind"],...], "text_ok":bool}
//! A panic inside the library is caught and reported as {"panic":"message"}.
use std::io::{BufRead, Write};
use std::panic;

use syntax::lexer::GleamLexer;
use syntax::{NodeOrToken, SyntaxNode};

fn unhex(s: &str) -> Option<String> {
    let b = s.as_bytes();
    if b.len() % 2 != 0 {
        return None;
    }
    let mut out = Vec::with_capacity(b.len() / 2);
    for i in (0..b.len()).step_by(2) {
        let h = (b[i] as char).to_digit(16)?;
        let l = (b[i + 1] as char).to_digit(16)?;
        out.push((h * 16 + l) as u8);
    }
    String::from_utf8(out).ok()
}

fn esc(s: &str) -> String {
    let mut o = String::new();
    for c in s.chars() {
        match c {
            '"' => o.push_str("\\\""),
            '\\' => o.push_str("\\\\"),
            '\n' => o.push_str("\\n"),
            '\r' => o.push_str("\\r"),
            '\t' => o.push_str("\\t"),
            c if (c as u32) < 0x20 => o.push_str(&format!("\\u{:04x}", c as u32)),
            c => o.push(c),
        }
    }
    o
}

fn tree(root: &SyntaxNode, out: &mut String) {
    // iterative (deep left-nested operator chains must not overflow the oracle's own stack)
    use syntax::rowan::WalkEvent;
    let mut depth = 0usize;
    for ev in root.preorder_with_tokens() {
        match ev {
            WalkEvent::Enter(NodeOrToken::Node(n)) => {
                if depth > 0 {
                    out.push(',');
                }
                out.push_str(&format!("[{}", n.kind() as u16));
                depth += 1;
            }
            WalkEvent::Leave(NodeOrToken::Node(_)) => {
                depth -= 1;
                out.push(']');
            }
            WalkEvent::Enter(NodeOrToken::Token(t)) => {
                out.push(',');
                let r = t.text_range();
                out.push_str(&format!(
                    "{{\"k\":{},\"s\":{},\"e\":{}}}",
                    t.kind() as u16,
                    u32::from(r.start()),
                    u32::from(r.end())
                ));
            }
            WalkEvent::Leave(NodeOrToken::Token(_)) => {}
        }
    }
}

fn do_lex(src: &str) -> String {
    let mut o = String::from("{\"tokens\":[");
    let mut first = true;
    for t in GleamLexer::new(src) {
        if !first {
            o.push(',');
        }
        first = false;
        o.push_str(&format!(
            "[{},{},{}]",
            t.kind as u16,
            u32::from(t.range.start()),
            u32::from(t.range.end())
        ));
    }
    o.push_str("]}");
    o
}

fn do_parse(src: &str) -> String {
    let p = syntax::parse_module(src);
    // the accessor every consumer uses (SourceFile::cast(..).unwrap()): panics if the tree is not rooted at SOURCE_FILE
    let _ = p.root();
    let node = p.syntax_node();
    let mut o = String::from("{\"tree\":");
    tree(&node, &mut o);
    o.push_str(",\"errors\":[");
    let mut first = true;
    for e in p.errors() {
        if !first {
            o.push(',');
        }
        first = false;
        o.push_str(&format!(
            "[{},{},\"{}\"]",
            u32::from(e.range.start()),
            u32::from(e.range.end()),
            esc(&format!("{:?}", e.kind))
        ));
    }
    let text_ok = node.text().to_string() == src;
    o.push_str(&format!("],\"text_ok\":{}}}", text_ok));
    // rowan drops green trees recursively; a very deep (e.g. 10^5 left-nested operators) tree would
    // overflow the stack *in the drop*, which is outside parse_module: leak instead (short-lived process)
    std::mem::forget(node);
    std::mem::forget(p);
    o
}

/// parse and report only the round-trip facts (for very long inputs the tree dump of `parse` is too large)
fn do_roundtrip(src: &str) -> String {
    use syntax::rowan::WalkEvent;
    let p = syntax::parse_module(src);
    let _ = p.root();
    let node = p.syntax_node();
    let mut pos: u32 = 0;
    let mut contiguous = true;
    let mut tokens = 0usize;
    for ev in node.preorder_with_tokens() {
        if let WalkEvent::Enter(NodeOrToken::Token(t)) = ev {
            let r = t.text_range();
            if u32::from(r.start()) != pos || r.is_empty() {
                contiguous = false;
            }
            pos = u32::from(r.end());
            tokens += 1;
        }
    }
    if pos as usize != src.len() {
        contiguous = false;
    }
    let text_ok = node.text().to_string() == src;
    let o = format!("{{\"text_ok\":{},\"contiguous\":{},\"tokens\":{},\"errors\":{}}}", text_ok, contiguous, tokens, p.errors().len());
    std::mem::forget(node);
    std::mem::forget(p);
    o
}

fn main() {
    panic::set_hook(Box::new(|_| {}));
    let stdin = std::io::stdin();
    let stdout = std::io::stdout();
    for line in stdin.lock().lines() {
        let line = match line {
            Ok(l) => l,
            Err(_) => break,
        };
        let mut it = line.splitn(2, ' ');
        let cmd = it.next().unwrap_or("").to_string();
        let arg = it.next().unwrap_or("");
        let src = match unhex(arg.trim()) {
            Some(s) => s,
            None => {
                writeln!(stdout.lock(), "{{\"error\":\"bad hex / utf8\"}}").ok();
                continue;
            }
        };
        let res = panic::catch_unwind(|| match cmd.as_str() {
            "lex" => do_lex(&src),
            "parse" => do_parse(&src),
            "roundtrip" => do_roundtrip(&src),
            _ => String::from("{\"error\":\"unknown command\"}"),
        });
        let out = match res {
            Ok(s) => s,
            Err(e) => {
                let msg = if let Some(s) = e.downcast_ref::<&str>() {
                    s.to_string()
                } else if let Some(s) = e.downcast_ref::<String>() {
                    s.clone()
                } else {
                    String::from("?")
                };
                format!("{{\"panic\":\"{}\"}}", esc(&msg))
            }
        };
        let mut so = stdout.lock();
        writeln!(so, "{}", out).ok();
        so.flush().ok();
    }
}
