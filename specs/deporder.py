"""C09 "forward references and mutual recursion, independent of definition order": the call graph inference groups are computed
from — def::scope::dependency_order_query (kernel, under-constrained database).

A function depends on another one only through identifiers that RESOLVE to it at the place they are written (a parameter or local of
the same name shadows the function).  dependency_order_query runs on its real MIR with one declared function whose body (built as arena
data) contains identifier expressions; the database is havoc'd.  Obligation on every path: each edge other than the self edge comes from
a Function result of resolve_name on a resolver obtained by resolver_for_expr(db, that function, that very expression)."""
import re, json
import z3
from mirsym.world import World
from mirsym.values import *
from mirsym import models
from . import scopes
from .c08 import derives_from

W = None


class DepOrderSpec:
    def __init__(self, nvars):
        self.nvars = nvars

    def make_interp(self):
        it = W.interp('ide', uc=True)
        it.allow = [r'^def::scope::dependency_order_query$', r'^def::scope::dependency_order_query::\{closure#\d+\}$']
        scopes.install(it)
        spec = self
        E = lambda variant, fields: Agg('enum', 'def::module::Expr', variant, fields)
        self.exprs = [E('Variable', [scopes.smol(StrV('n%d' % i))]) for i in range(self.nvars)] + [E('Literal', [IntV(0, 16, 0)])]
        self.owner = Agg('struct', 'FunctionId', None, [Agg('struct', 'InternId', None, [IntV(5, 32, 0)])])

        def declarations(it_, c, a):
            decl = VecV([tup(Agg('enum', 'ModuleDefId', 'FunctionId', [spec.owner]), LazyV('vis'))])
            return PyIter(iter([RefV([decl], 0)]))

        def body(it_, c, a):
            return Agg('struct', 'Body', None, [scopes.ArenaV([]), scopes.ArenaV(spec.exprs), VecV([]), none(), scopes.idx(0)])

        def exprs(it_, c, a):
            return PyIter(iter([tup(scopes.idx(i), RefV(spec.exprs, i)) for i in range(len(spec.exprs))]))
        it.models['ModuleScope::declarations'] = declarations
        it.models['<DefDatabase as DefDatabase>::body'] = body
        it.models['Body::exprs'] = exprs
        it.models['InternId::as_u32'] = lambda it_, c, a: models.deref(a[0]).fields[0] if isinstance(models.deref(a[0]), Agg) else NotImplemented
        self.edges = None

        def from_edges(it_, c, a):
            spec.edges = list(models.deref(a[0]).items) if isinstance(models.deref(a[0]), VecV) else None
            raise Pruned('edges collected')
        it.models['StableGraph::from_edges'] = from_edges
        return it

    def run_path(self, it):
        b = W.crates['ide']['def::scope::dependency_order_query']
        self.edges = None
        try:
            it.run_body(b, [LazyV('db'), Agg('struct', 'FileId', None, [IntV(0, 32, 0)])])
        except Pruned:
            if self.edges is None:
                raise
        if self.edges is None:
            return {'cls': 'violation', 'ok': False, 'why': ['engine: the edge list never reached the graph construction'], 'cex': {}}
        calls = it.trace
        rfe = [t for t in calls if t[0].endswith('resolver_for_expr')]
        rn = [t for t in calls if t[0].endswith('resolve_name')]
        bad = []
        nself = 0; ndep = 0
        for e in self.edges:
            a, b2 = e.fields
            if isinstance(b2, IntV) and not b2.sym() and b2.v == 5 and isinstance(a, IntV) and not a.sym():
                nself += 1; continue
            ndep += 1
            # the target must derive from a resolve_name result ...
            src = [t for t in rn if derives_from(b2, t[2], calls)]
            if not src:
                bad.append('C09: a call-graph edge does not come from resolving an identifier of the body'); continue
            t = src[0]
            # ... asked of a resolver built for the very expression the identifier is
            recv = t[1][0]
            mk = [r for r in rfe if derives_from(recv, r[2], calls)]
            if not mk:
                bad.append('C09: a call-graph edge is derived by resolving the identifier outside its expression scope (a parameter or local of the same name does not shadow the function)')
                continue
            r = mk[0]
            eid = models.deref(r[1][2]) if len(r[1]) > 2 else None
            name = models.deref(t[1][1])
            nm = name.fields[0].s if isinstance(name, Agg) else None
            if not (isinstance(eid, IntV) and not eid.sym() and nm == 'n%d' % eid.v):
                bad.append('C09: the identifier `%s` is resolved in the scope of another expression (#%s)' % (nm, getattr(eid, 'v', '?')))
            ow = models.deref(r[1][1])
            if not (isinstance(ow, Agg) and ow is self.owner or repr(ow) == repr(self.owner)):
                bad.append('C09: the identifier `%s` is resolved in the scope of another function' % nm)
        if nself != 1:
            bad.append('C09: the declared function has %d self edges (one expected, so that it forms a group of its own)' % nself)
            if nself == 0:
                bad.append('C10: a declared function gets no node in the dependency order: it is never inferred as part of a group and infer_function_query panics ("This is a compiler error!") on the first query inside it')
        rec = {'cls': 'edges:%d' % ndep, 'ok': True, 'sample': {'identifiers': self.nvars, 'dependency_edges': ndep}}
        if bad:
            rec.update({'cls': 'violation', 'ok': False, 'why': sorted(set(bad))[:4], 'cex': {'identifiers': self.nvars}})
        return rec

    def on_panic(self, it, e):
        return {'cls': 'panic-under-havoc', 'ok': True}


def factory(n):
    return DepOrderSpec(n)
