"""C09 "forward references and mutual recursion, independent of definition order": the call graph inference groups are computed
from — def::scope::dependency_order_query (kernel, under-constrained database).

A function depends on another one only through identifiers that RESOLVE to it at the place they are written (a parameter or local of
the same name shadows the function).  dependency_order_query runs on its real MIR with one declared function whose body (built as arena
data) contains identifier expressions; the database is havoc'd.  Obligation on every path: each edge other than the self edge comes from
a Function result of resolve_name on a resolver obtained by resolver_for_expr(db, that function, that very expression)."""
import re, json
import z3
from mirsym.world import World
from mirsym.values import *
from mirsym import models
from . import scopes
from .c08 import derives_from

W = None


class DepOrderSpec:
    def __init__(self, nvars):
        self.nvars = nvars

    def make_interp(self):
        it = W.interp('ide', uc=True)
        it.allow = [r'^def::scope::dependency_order_query$', r'^def::scope::dependency_order_query::\{closure#\d+\}$']
        scopes.install(it)
        spec = self
        E = lambda variant, fields: Agg('enum', 'def::module::Expr', variant, fields)
        self.exprs = [E('Variable', [scopes.smol(StrV('n%d' % i))]) for i in range(self.nvars)] + [E('Literal', [IntV(0, 16, 0)])]
        self.owner = Agg('struct', 'FunctionId', None, [Agg('struct', 'InternId', None, [IntV(5, 32, 0)])])

        def declarations(it_, c, a):
            decl = VecV([tup(Agg('enum', 'ModuleDefId', 'FunctionId', [spec.owner]), LazyV('vis'))])
            return PyIter(iter([RefV([decl], 0)]))

        def body(it_, c, a):
            return Agg('struct', 'Body', None, [scopes.ArenaV([]), scopes.ArenaV(spec.exprs), VecV([]), none(), scopes.idx(0)])

        def exprs(it_, c, a):
            return PyIter(iter([tup(scopes.idx(i), RefV(spec.exprs, i)) for i in range(len(spec.exprs))]))
        it.models['ModuleScope::declarations'] = declarations
        it.models['<DefDatabase as DefDatabase>::body'] = body
        it.models['Body::exprs'] = exprs
        it.models['InternId::as_u32'] = lambda it_, c, a: models.deref(a[0]).fields[0] if isinstance(models.deref(a[0]), Agg) else NotImplemented
        self.edges = None

        def from_edges(it_, c, a):
            spec.edges = list(models.deref(a[0]).items) if isinstance(models.deref(a[0]), VecV) else None
            raise Pruned('edges collected')
        it.models['StableGraph::from_edges'] = from_edges
        return it

    def run_path(self, it):
        b = W.crates['ide']['def::scope::dependency_order_query']
        self.edges = None
        try:
            it.run_body(b, [LazyV('db'), Agg('struct', 'FileId', None, [IntV(0, 32, 0)])])
        except Pruned:
            if self.edges is None:
                raise
        if self.edges is None:
            return {'cls': 'violation', 'ok': False, 'why': ['engine: the edge list never reached the graph construction'], 'cex': {}}
        calls = it.trace
        rfe = [t for t in calls if t[0].endswith('resolver_for_expr')]
        rn = [t for t in calls if t[0].endswith('resolve_name')]
        bad = []
        nself = 0; ndep = 0
        for e in self.edges:
            a, b2 = e.fields
            if isinstance(b2, IntV) and not b2.sym() and b2.v == 5 and isinstance(a, IntV) and not a.sym():
                nself += 1; continue
            ndep += 1
            # the target must derive from a resolve_name result ...
            src = [t for t in rn if derives_from(b2, t[2], calls)]
            if not src:
                bad.append('C09: a call-graph edge does not come from resolving an identifier of the body'); continue
            t = src[0]
            # ... asked of a resolver built for the very expression the identifier is
            recv = t[1][0]
            mk = [r for r in rfe if derives_from(recv, r[2], calls)]
            if not mk:
                bad.append('C09: a call-graph edge is derived by resolving the identifier outside its expression scope (a parameter or local of the same name does not shadow the function)')
                continue
            r = mk[0]
            eid = models.deref(r[1][2]) if len(r[1]) > 2 else None
            name = models.deref(t[1][1])
            nm = name.fields[0].s if isinstance(name, Agg) else None
            if not (isinstance(eid, IntV) and not eid.sym() and nm == 'n%d' % eid.v):
                bad.append('C09: the identifier `%s` is resolved in the scope of another expression (#%s)' % (nm, getattr(eid, 'v', '?')))
            ow = models.deref(r[1][1])
            if not (isinstance(ow, Agg) and ow is self.owner or repr(ow) == repr(self.owner)):
                bad.append('C09: the identifier `%s` is resolved in the scope of another function' % nm)
        if nself != 1:
            bad.append('C09: the declared function has %d self edges (one expected, so that it forms a group of its own)' % nself)
            if nself == 0:
                bad.append('C10: a declared function gets no node in the dependency order: it is never inferred as part of a group and infer_function_query panics ("This is a compiler error!") on the first query inside it')
        rec = {'cls': 'edges:%d' % ndep, 'ok': True, 'sample': {'identifiers': self.nvars, 'dependency_edges': ndep}}
        if bad:
            rec.update({'cls': 'violation', 'ok': False, 'why': sorted(set(bad))[:4], 'cex': {'identifiers': self.nvars}})
        return rec

    def on_panic(self, it, e):
        return {'cls': 'panic-under-havoc', 'ok': True}


def factory(n):
    return DepOrderSpec(n)


class CompleteSpec(DepOrderSpec):
    """completeness of the call graph: the body `n0(n1)  let .. = n2` has three identifier expressions - a callee, an argument, a plain
    reference.  Which of them resolve to a (distinct) top-level function is chosen by the solver; resolve_name answers accordingly for the
    resolver of that very expression.  Obligation: the edge list is the self edge plus one edge per identifier that resolves to a function -
    whatever syntactic position it is in (two functions that reach each other only through a function VALUE are one inference group)."""

    def __init__(self):
        DepOrderSpec.__init__(self, 3)

    def make_interp(self):
        it = DepOrderSpec.make_interp(self)
        spec = self
        E = lambda variant, fields: Agg('enum', 'def::module::Expr', variant, fields)
        # 0: n0, 1: n1, 2: n2, 3: n0(n1), 4: literal
        # 5: n0 AGAIN, in another expression scope (the first mention may be a shadowing local, the second the top-level function)
        self.exprs[3:] = [E('Call', [scopes.idx(0), VecV([tup(none(), scopes.idx(1))])]), E('Literal', [IntV(0, 16, 0)]), E('Variable', [scopes.smol(StrV('n0'))])]
        self.name_of = {0: 'n0', 1: 'n1', 2: 'n2', 5: 'n0'}
        self.isfn = {i: z3.Bool('resolves_to_function_%d' % i) for i in self.name_of}
        self.choice = {}

        def resolver_for_expr(it_, c, a):
            eid = models.deref(a[2])
            i = eid.fields[0].v if isinstance(eid, Agg) else eid.v
            return Agg('struct', 'Resolver', None, [Opaque(('scopes-of-expr', i)), Opaque('module_scope')])

        def resolve_name(it_, c, a):
            r = models.deref(a[0]); nm = models.deref(a[1])
            nm = nm.fields[0].s if isinstance(nm, Agg) else nm.s
            tag = r.fields[0].tag if isinstance(r, Agg) and isinstance(r.fields[0], Opaque) else None
            i = tag[1] if isinstance(tag, tuple) else None
            if spec.name_of.get(i) != nm:
                spec.foreign_scope = True          # the identifier is looked up in the scope of another expression: answered as a local
                return some(Agg('enum', 'ResolveResult', 'Local', [LazyV('local')]))
            if i not in spec.choice:
                spec.choice[i] = it_.choose([(spec.isfn[i], True), (z3.Not(spec.isfn[i]), False)])
            if spec.choice[i]:
                return some(Agg('enum', 'ResolveResult', 'Function', [Agg('struct', 'Function', None, [Agg('struct', 'FunctionId', None, [Agg('struct', 'InternId', None, [IntV(100 + i, 32, 0)])])])]))
            return some(Agg('enum', 'ResolveResult', 'Local', [LazyV('local')]))
        it.models['resolver::resolver_for_expr'] = resolver_for_expr
        it.models['Resolver::resolve_name'] = resolve_name
        return it

    def run_path(self, it):
        b = W.crates['ide']['def::scope::dependency_order_query']
        self.edges = None; self.choice = {}; self.foreign_scope = False
        try:
            it.run_body(b, [LazyV('db'), Agg('struct', 'FileId', None, [IntV(0, 32, 0)])])
        except Pruned:
            if self.edges is None:
                raise
        if self.edges is None:
            return {'cls': 'violation', 'ok': False, 'why': ['engine: the edge list never reached the graph construction'], 'cex': {}}
        got = set()
        for e in self.edges:
            a, b2 = e.fields
            if not (isinstance(a, IntV) and isinstance(b2, IntV)) or a.sym() or b2.sym():
                return {'cls': 'violation', 'ok': False, 'why': ['engine: symbolic edge'], 'cex': {}}
            got.add((a.v, b2.v))
        bad = []
        role = {0: 'the callee n0 of `n0(n1)`', 1: 'the argument n1 of `n0(n1)`', 2: 'the plain reference n2', 5: 'the second mention of the name n0 (in another scope than the first)'}
        # identifiers the code never asked about: the solver may still make them functions
        for i in sorted(self.name_of):
            if i in self.choice:
                if self.choice[i] and (5, 100 + i) not in got:
                    bad.append('C09: %s resolves to a top-level function but the call graph has no edge to it' % role[i])
                if not self.choice[i] and (5, 100 + i) in got:
                    bad.append('C09: %s does not resolve to a function, yet the call graph has an edge for it' % role[i])
            else:
                r, _ = it.check(self.isfn[i])
                if r == z3.sat:
                    bad.append('C09: %s is never resolved when the call graph is built: if it names a top-level function (a function passed or bound as a VALUE), the two functions are not put '
                               'into one inference group although they may be mutually recursive' % role[i])
        if (5, 5) not in got:
            bad.append('C09: the declared function has no self edge')
        rec = {'cls': 'edges:%d' % (len(got) - 1), 'ok': True, 'sample': {'functions_among_identifiers': sorted(i for i, v in self.choice.items() if v), 'edges': sorted(got)}}
        if bad:
            rec.update({'cls': 'violation', 'ok': False, 'why': sorted(set(bad))[:4], 'cex': {'identifiers': 4, 'resolve_to_function': sorted(i for i, v in self.choice.items() if v)}})
        return rec


def complete_factory():
    return CompleteSpec()

