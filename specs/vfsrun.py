"""Drivers of the glas-kernel checks (C13, C14, C15a, C19, C20 ii): exploration, native confirmation, translator validation."""
import os, re, json, time
import z3
from mirsym import explore
from . import vfsk, vfsspecs

ASSUMPTIONS = [
    'documents are valid UTF-8 (precondition of &str / String); CR only as part of CRLF where the property says so',
    'Vfs is built directly with one open document whose (text, line map) come from the real LineMap::normalize; Slab, Arc and ide::Change are modelled (listed under library_models_hit)',
    'logging macros are stubbed as disabled',
    'documents / inserted texts longer than the stated bounds are outside the claim',
]
TRUSTED = ['rustc MIR (-Zunpretty=mir) as the semantics of the source', 'mirsym interpreter + library models listed under library_models_hit (String/str over byte lists, lazy iterator adaptors, FxHashMap as association list, partition_point with std\'s binary-search steps, text-size)',
           'z3 sat/unsat answers', 'reference LSP client: lines split at LF, columns in UTF-16 code units, written as z3 terms over the document bytes (specs/vfsk.py RefDoc)']


def overlay_files():
    return vfsk.overlay_files()


def lm_factory(n, pairs):
    return vfsspecs.LineMapSpec(n, pairs)


def edit_factory(n, k, valid, edits):
    return vfsspecs.EditSpec(n, k, valid=valid, edits=edits)


def semtok_factory(n, m):
    return vfsspecs.SemTokSpec(n, m)


# ---------------------------------------------------------------- python reference (for native confirmation only)

def py_positions(doc):
    """{offset: (line, utf16 col)} for every char boundary of a str"""
    out = {}; line = 0; col = 0; off = 0
    out[0] = (0, 0)
    for ch in doc:
        off += len(ch.encode('utf-8'))
        if ch == '\n':
            line += 1; col = 0
        else:
            col += len(ch.encode('utf-16-le')) // 2
        out[off] = (line, col)
    return out


def py_offset(doc, l, c, clamp=True):
    pos = py_positions(doc)
    inv = {v: k for k, v in pos.items()}
    if (l, c) in inv:
        return inv[(l, c)]
    if clamp:
        ends = [(v, k) for k, v in pos.items() if v[0] == l]
        if ends:
            (ll, cc), off = max(ends)
            if c > cc:
                return off
    return None


def py_edit(doc, l1, c1, l2, c2, ins):
    a = py_offset(doc, l1, c1); b = py_offset(doc, l2, c2)
    if a is None or b is None or a > b:
        return None
    bd = doc.encode('utf-8')
    return (bd[:a] + ins.replace('\r', '').encode('utf-8') + bd[b:]).decode('utf-8')


# ---------------------------------------------------------------- native confirmation / validation

def confirm_linemap(chk, res, oracle, label, props):
    for v in res.violations:
        whys = [w for w in v.get('why', []) if w.startswith(tuple(props))]
        if not whys:
            continue
        doc = bytes.fromhex(v['cex']['doc']).decode('utf-8')
        nat = oracle.ask('linemap', doc=v['cex']['doc'])
        problem = None
        if 'positions' not in nat:
            problem = 'native: %s' % nat
        else:
            ref = py_positions(doc.replace('\r', ''))
            prev = None
            for p, l, c, back in nat['positions']:
                if ref.get(p) != (l, c):
                    problem = 'offset %d is reported as (%d,%d), an LSP client computes %s' % (p, l, c, ref.get(p)); break
                if back != p:
                    problem = 'offset %d -> (%d,%d) -> offset %d' % (p, l, c, back); break
                if prev is not None and not prev < (l, c):
                    problem = 'not strictly monotone at offset %d' % p; break
                prev = (l, c)
            if problem is None and any(w.startswith(('C20', 'C19')) for w in whys):
                # to_range / end_col: check natively as well
                bnd = sorted(ref)
                for i, p in enumerate(bnd):
                    for q in bnd[i:]:
                        r = oracle.ask('to_range', doc=v['cex']['doc'], s=p, e=q)
                        if isinstance(r, list) and (tuple(r[:2]), tuple(r[2:])) != (ref[p], ref[q]):
                            problem = 'to_range(%d..%d) = %s, client positions %s %s' % (p, q, r, ref[p], ref[q]); break
                    if problem:
                        break
                if problem is None:
                    lines = doc.replace('\r', '').split('\n')
                    exp_ends = [len(l.encode('utf-16-le')) // 2 for l in lines]
                    if nat.get('end_cols') != exp_ends or nat.get('last_line') != len(lines) - 1:
                        problem = 'last_line/end_cols %s %s, expected %s %s' % (nat.get('last_line'), nat.get('end_cols'), len(lines) - 1, exp_ends)
        if problem:
            site = 'linemap:' + re.sub(r'[^a-z_]+', '_', whys[0].split(':')[1].strip()[:30].lower())
            chk.violation('linemap', 'bounded', '%s: %s; document %r; native: %s' % (label, whys[0][:200], doc, problem), {'doc': v['cex']['doc'], 'text': doc}, confirmed=True)
        else:
            chk.violation('engine', 'bounded', '%s: %s; document %r; native code shows no problem' % (label, whys[0][:200], doc), {'doc': v['cex']['doc']}, confirmed=False)


def validate_linemap(chk, res, oracle, label):
    ok = 0
    vs = res.extra.get('validate', [])
    for v in vs:
        nat = oracle.ask('linemap', doc=v['doc'])
        tab = {p: (l, c, b) for p, l, c, b in nat.get('positions', [])}
        good = 'positions' in nat
        for p, l, c, b in v['table']:
            if l is None:
                continue
            if tab.get(p) != (l, c, b):
                good = False
        if good:
            ok += 1
        else:
            chk.inconclusive.append('%s: translator validation FAILED on document %s: engine %s native %s' % (label, v['doc'], v['table'], nat))
    chk.validated += ok
    chk.log('%s: translator validation %d/%d sampled paths agree with the native LineMap' % (label, ok, len(vs)))


def native_edit(oracle, w):
    """apply the witness' edits natively (one oracle call per edit, chained through the returned text)"""
    doc = w['doc']
    if len(w['edits']) > 1:
        # a chain of changes runs on ONE Vfs: every change sees the text and the line map the previous one left
        nat = oracle.ask('edits', doc=doc, edits=[dict(l1=e['range'][0], c1=e['range'][1], l2=e['range'][2], c2=e['range'][3], ins=e['ins']) for e in w['edits']])
        return nat, nat.get('text', doc)
    for e in w['edits']:
        l1, c1, l2, c2 = e['range']
        nat = oracle.ask('edit', doc=doc, l1=l1, c1=c1, l2=l2, c2=c2, ins=e['ins'])
        if not nat.get('ok'):
            return nat, doc
        doc = nat['text']
    return {'ok': True, 'text': doc}, doc


def confirm_edit(chk, res, oracle, label, props):
    for v in res.violations:
        whys = [w for w in v.get('why', []) if w.startswith(tuple(props))]
        if not whys:
            continue
        w = v['cex']
        doc0 = bytes.fromhex(w['doc']).decode('utf-8')
        # python reference on the concrete witness
        exp = doc0.replace('\r', ''); exp_ok = True
        for e in w['edits']:
            l1, c1, l2, c2 = e['range']
            nxt = py_edit(exp, l1, c1, l2, c2, bytes.fromhex(e['ins']).decode('utf-8'))
            if nxt is None:
                exp_ok = False; break
            exp = nxt
        nat, last = native_edit(oracle, w)
        problem = None; site = 'edit'
        if 'panic' in nat or 'died' in nat:
            problem = 'native panic: %s' % nat.get('panic', 'process died'); site = 'panic:' + str(nat.get('panic', 'died')).replace(' ', '_')[:50]
        elif nat.get('ok') and not exp_ok:
            problem = 'native applied a change whose positions do not denote a range of the document; server text %r' % bytes.fromhex(nat['text']).decode('utf-8', 'replace')
            site = 'edit:applied-elsewhere'
        elif nat.get('ok') and exp_ok and bytes.fromhex(nat['text']).decode('utf-8', 'replace') != exp:
            problem = 'server text %r, editor text (CRs removed) %r' % (bytes.fromhex(nat['text']).decode('utf-8', 'replace'), exp)
            site = 'edit:text-differs'
        elif not nat.get('ok') and exp_ok and 'C13' in props:
            problem = 'a valid change was rejected: %s' % nat.get('err'); site = 'edit:rejected'
        elif not nat.get('ok') and nat.get('unchanged') is False:
            problem = 'rejected change modified the text'; site = 'edit:rejected-modified'
        desc = '%s: %s; document %r edits %s' % (label, whys[0][:160], doc0, [(bytes.fromhex(e['ins']).decode('utf-8', 'replace'), e['range']) for e in w['edits']])
        if problem:
            chk.violation(site, 'bounded', desc + '; ' + problem, w, confirmed=True)
        else:
            chk.violation('engine', 'bounded', desc + '; native code shows no problem (%s)' % str(nat)[:100], w, confirmed=False)


def validate_edit(chk, res, oracle, label):
    ok = 0
    vs = res.extra.get('validate', [])
    for v in vs:
        nat, last = native_edit(oracle, v)
        applied = all(o == 'applied' for o in v['outcome']) and len(v['outcome']) == len(v['edits'])
        if applied and nat.get('ok') and nat['text'] == v['text']:
            ok += 1
        elif (not applied) and not nat.get('ok') and 'panic' not in nat:
            ok += 1
        else:
            chk.inconclusive.append('%s: translator validation FAILED: engine %s / text %s, native %s' % (label, v['outcome'], v['text'], str(nat)[:160]))
    chk.validated += ok
    chk.log('%s: translator validation %d/%d sampled paths agree with the native Vfs' % (label, ok, len(vs)))


def legend():
    """(index of token type per HlTag name) read from the def_index! table: the legend the server advertises"""
    src = open(os.path.join(os.environ.get('VERIF_REPO', '/repo'), 'crates/glas/src/semantic_tokens.rs')).read()
    m = re.search(r'def_index!\s*\{\s*SemanticTokenType[^;]*;(.*?)\}', src, flags=re.S)
    entries = re.findall(r'(\w+)\s*=>\s*SemanticTokenType::(\w+)', m.group(1))
    return entries


def confirm_semtok(chk, res, oracle, label):
    leg = legend()
    want = {0: 'FUNCTION', 1: 'NAMESPACE', 2: 'TYPE'}       # HlTag::{Function, Module, Constructor}
    for v in res.violations:
        w = v['cex']
        doc = bytes.fromhex(w['doc']).decode('utf-8')
        nat = oracle.ask('semtok', doc=w['doc'], hls=w['hls'])
        problem = None
        if not isinstance(nat, list):
            problem = 'native: %s' % nat
        else:
            pos = py_positions(doc)
            exp = []
            for s, e, t in w['hls']:
                exp.append((pos[s][0], pos[s][1], pos[e][1] - pos[s][1], want[t]))
            dec = []; line = 0; start = 0
            for dl, ds, ln, ty, mods in nat:
                line += dl; start = (start + ds) if dl == 0 else ds
                dec.append((line, start, ln, leg[ty][1] if ty < len(leg) else '?'))
            if dec != exp:
                problem = 'decoded %s, highlighted identifiers %s' % (dec, exp)
        desc = '%s: %s; document %r highlights %s' % (label, '; '.join(v.get('why', []))[:160], doc, w['hls'])
        if problem:
            chk.violation('semtok', 'bounded', desc + '; ' + problem, w, confirmed=True)
        else:
            chk.violation('engine', 'bounded', desc + '; native encoder output decodes correctly', w, confirmed=False)


def validate_semtok(chk, res, oracle, label):
    ok = 0
    vs = res.extra.get('validate', [])
    for v in vs:
        nat = oracle.ask('semtok', doc=v['doc'], hls=v['hls'])
        if isinstance(nat, list) and [list(x) for x in nat] == v['encoded']:
            ok += 1
        else:
            chk.inconclusive.append('%s: translator validation FAILED: engine %s native %s on %s' % (label, v['encoded'], nat, v))
    chk.validated += ok
    chk.log('%s: translator validation %d/%d sampled paths agree with the native encoder' % (label, ok, len(vs)))


def setup(chk, profile='dev'):
    vfsk.load(profile, log=chk.log)
    t0 = time.time()
    b = vfsk.build_oracle()
    chk.log('native oracle (overlay of vfs.rs/convert.rs/semantic_tokens.rs) built in %.1fs' % (time.time() - t0))
    return vfsk.GlasOracle(b)


def linemap_suite(chk, oracle, jobs, props, nmax, label='linemap', profile='dev'):
    for n in range(0, nmax + 1):
        res, complete = explore.explore(lm_factory, (n, True), jobs=jobs)
        chk.add_run('%s[%s] doc=%d bytes' % (label, profile, n), res, complete, {'doc_bytes': n, 'profile': profile, 'pairs': res.extra.get('pairs', 0)},
                    nontrivial_classes=lambda c: c != 'ascii-1line')
        confirm_linemap(chk, res, oracle, '%d-byte document' % n, props)
        if profile == 'dev':
            validate_linemap(chk, res, oracle, 'doc=%d' % n)


def c20_part(chk, tier, jobs):
    oracle = setup(chk)
    try:
        linemap_suite(chk, oracle, jobs, ['C20'], 5 if tier == 'quick' else 7, label='to_range')
    finally:
        oracle.close(); vfsk.W.cleanup()
    chk.assumptions += ASSUMPTIONS
