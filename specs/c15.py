"""C15 — no message sequence can take the server down (kernel: position conversion + change application + the
didChange loop).  Part a: four arbitrary u32 per change.  Part b: Server::on_did_change with the real Vfs methods."""
import os, json
from mirsym import explore, lsp_replay
from . import vfsrun, vfsk, vfsspecs
from .runner import Check

BOUNDS = {'quick': {'a': [(3, 1, 1), (4, 0, 1)], 'a_release': [(3, 1, 1)]},
          'thorough': {'a': [(5, 1, 1), (4, 2, 1), (3, 1, 2)], 'a_release': [(4, 1, 1)]}}


def part_a(chk, oracle, jobs, bounds, profile):
    done = set()
    for (n, k, edits) in bounds:
        for nn in range(0, n + 1):
            for kk in sorted(set([0, k])):
                if (nn, kk, edits) in done or (edits > 1 and (nn, kk) != (n, k)):
                    continue
                done.add((nn, kk, edits))
                res, complete = explore.explore(vfsrun.edit_factory, (nn, kk, False, edits), jobs=jobs)
                chk.add_run('arbitrary positions[%s] doc=%d ins=%d edits=%d' % (profile, nn, kk, edits), res, complete,
                            {'doc_bytes': nn, 'insert_bytes': kk, 'changes': edits, 'positions': '4 unconstrained u32 per change', 'profile': profile},
                            nontrivial_classes=lambda c: c != 'applied')
                vfsrun.confirm_edit(chk, res, oracle, 'doc=%d ins=%d changes=%d [%s]' % (nn, kk, edits, profile), ['C15'])
                if profile == 'dev':
                    vfsrun.validate_edit(chk, res, oracle, 'doc=%d ins=%d x%d' % (nn, kk, edits))


def main(tier, seed):
    chk = Check('C15', tier, seed)
    jobs = int(os.environ.get('VERIF_JOBS', '16'))
    B = BOUNDS[tier]
    oracle = vfsrun.setup(chk)
    try:
        part_a(chk, oracle, jobs, B['a'], 'dev')
        from . import c15b
        c15b.run(chk, tier, jobs)
        vfsk.W.cleanup()
        from . import urlk
        urlk.part(chk, tier, jobs)
        nonfile_part(chk, tier, jobs)
        vfsk.load('release', log=chk.log)
        part_a(chk, oracle, jobs, B['a_release'], 'release')
    finally:
        oracle.close(); vfsk.W.cleanup()
    chk.assumptions += vfsrun.ASSUMPTIONS + [
        'kernel claim: convert::from_range + Vfs::change_file_content on arbitrary positions, and the per-change loop of Server::on_did_change; every other handler and '
        'message kind, URIs, file-system faults and "answers every request exactly once" (async-lsp / tokio internals) are outside the claim',
        'a change is acceptable iff it is rejected with the text unchanged, or applied at the offsets its positions denote (a column past the end of its line may clamp to the line end, the LSP rule)']
    chk.trusted += vfsrun.TRUSTED
    return chk.finish()


def native_untitled(binary):
    s = lsp_replay.Session(binary)
    try:
        u = 'untitled:Untitled-1'
        s.notify('textDocument/didOpen', {'textDocument': {'uri': u, 'languageId': 'gleam', 'version': 1, 'text': 'pub fn main() { 1 }\n'}})
        h = s.request('textDocument/hover', {'textDocument': {'uri': u}, 'position': {'line': 0, 'character': 8}})
        s.notify('textDocument/didChange', {'textDocument': {'uri': u, 'version': 2}, 'contentChanges': [{'text': 'pub fn main() { 2 }\n'}]})
        h2 = s.request('textDocument/hover', {'textDocument': {'uri': s.uri()}, 'position': {'line': 0, 'character': 0}})
        answered = lambda r: isinstance(r, dict) and ('result' in r or 'error' in r)
        return {'alive': s.alive(), 'hover_on_untitled': 'answered' if answered(h) else str(h), 'request_after_change': 'answered' if answered(h2) else str(h2)}
    finally:
        s.close()


HOSTILE_URIS = ['file://{root}/src/%FF.gleam', 'file://{root}/src/%C3%28.gleam', 'file://{root}/src/a%20b.gleam', 'file://{root}/src/', 'file:///', 'file://{root}/src/notes.txt',
                'file://{root}/src/../../outside.gleam', 'http://example.org/x.gleam', 'untitled:/abs/x.gleam', 'file://{root}/src/sub/deep/%E2%82%AC.gleam', 'file://{root}/gleam.toml', 'file://{root}/src/a.b.gleam']


def native_hostile_uris(binary):
    """didOpen / didChange / hover / didClose on documents with odd URIs (a path that is not UTF-8, a directory, the root, another scheme, ...);
    after each of them the server must be alive and answer a hover on an ordinary document.  -> list of problems"""
    probs = []
    for tmpl in HOSTILE_URIS:
        s = lsp_replay.Session(binary, timeout=10.0)
        try:
            main = s.uri()
            s.notify('textDocument/didOpen', {'textDocument': {'uri': main, 'languageId': 'gleam', 'version': 1, 'text': 'pub fn main() { 1 }\n'}})
            u = tmpl.format(root=s.root)
            s.notify('textDocument/didOpen', {'textDocument': {'uri': u, 'languageId': 'gleam', 'version': 1, 'text': 'pub fn odd() { 1 }\n'}})
            h0 = s.request('textDocument/hover', {'textDocument': {'uri': u}, 'position': {'line': 0, 'character': 8}})
            s.notify('textDocument/didChange', {'textDocument': {'uri': u, 'version': 2}, 'contentChanges': [{'text': 'pub fn odd() { 2 }\n'}]})
            s.notify('textDocument/didClose', {'textDocument': {'uri': u}})
            h = s.request('textDocument/hover', {'textDocument': {'uri': main}, 'position': {'line': 0, 'character': 8}})
            answered = lambda r: isinstance(r, dict) and ('result' in r or 'error' in r)
            if not answered(h0) or not answered(h) or not s.alive():
                probs.append('didOpen / hover / didChange / didClose of %s: %s' % (tmpl.replace('{root}', '<project>'),
                             'the server died (%s)' % (h.get('dead') if isinstance(h, dict) and 'dead' in h else h0) if not s.alive() or 'dead' in str(h) else 'a hover is not answered (%s / %s)' % (str(h0)[:80], str(h)[:80])))
        finally:
            s.close()
    return probs


def nonfile_part(chk, tier, jobs):
    from mirsym.world import World
    from . import ucserver
    ucserver.WGI = World(['glas', 'ide'], 'dev', log=chk.log)
    try:
        res, complete = explore.explore(ucserver.nonfile_factory, (), jobs=1)
        chk.add_run('on_did_open of a document with a non-file URI (under-constrained server, VfsPath::as_path real)', res, complete, {'uri': 'untitled:Untitled-1'}, nontrivial_classes=lambda c: c == 'opened')
        obs = native_untitled(lsp_replay.build_binary())
        healthy = obs['alive'] and obs['hover_on_untitled'] == 'answered' and obs['request_after_change'] == 'answered'
        if res.violations:
            why = res.violations[0]['why'][0]
            if not healthy:
                chk.violation('didopen:non-file-uri', 'bounded', '%s; real server: didOpen untitled:Untitled-1, hover, didChange, hover -> %s' % (why[:400], obs), {'uri': 'untitled:Untitled-1'}, confirmed=True)
            else:
                chk.inconclusive.append('non-file didOpen kernel: %s -- but the real server survives and answers (%s)' % (why[:300], obs))
        elif not healthy:
            chk.inconclusive.append('translator validation FAILED: the non-file didOpen kernel finds no panic, the real server: %s' % obs)
        else:
            chk.validated += 1
            chk.log('non-file URIs: the real server survives didOpen / hover / didChange on untitled:Untitled-1 and keeps answering')
        hp = native_hostile_uris(lsp_replay.build_binary())
        for p_ in hp[:3]:
            chk.violation('didopen:hostile-uri', 'fixture', 'real server: ' + p_[:600], {'kind': 'hostile-uri', 'problem': p_}, confirmed=True)
        if not hp:
            chk.validated += len(HOSTILE_URIS)
            chk.log('hostile URIs: the real server survives didOpen / hover / didChange / didClose on %d odd URIs and keeps answering' % len(HOSTILE_URIS))
    finally:
        ucserver.WGI.cleanup()


def replay(path):
    d = json.load(open(path))
    if d.get('cex', {}).get('kind') == 'hostile-uri':
        from mirsym import lsp_replay as _l2
        hp = native_hostile_uris(_l2.build_binary())
        print(json.dumps(hp, indent=1))
        return 1 if hp else 0
    if d.get('site') == 'didopen:non-file-uri':
        from mirsym import lsp_replay as _l
        print(json.dumps(native_untitled(_l.build_binary()), indent=1))
        return 0
    if d.get('site') == 'uri-alias':
        from mirsym import lsp_replay
        from . import urlk
        print(json.dumps(urlk.native_alias(lsp_replay.build_binary()), indent=1))
        return 0
    if str(d.get('site', '')).startswith('didchange:'):
        from mirsym import lsp_replay
        from . import c15b
        print(json.dumps(c15b.native_check(lsp_replay.build_binary(), d['cex']), indent=1, default=str))
        return 0
    chk = Check('C15-replay', 'quick', 0)
    oracle = vfsrun.setup(chk)
    print(json.dumps(vfsrun.native_edit(oracle, d['cex'])[0], indent=1))
    return 0
