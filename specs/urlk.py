"""C15 part (c): a non-file URI never names a file document — UrlExt::to_vfs_path (kernel, under-constrained Url).

"changes for unknown or closed documents, non-file URIs ... never applied somewhere else": every handler maps the URI of a message to
a document with to_vfs_path.  The function is executed on its real MIR with the `url` crate havoc'd; the obligation on every path whose
result is a file-system path (derives from Url::to_file_path) is that the path passed the test scheme() == "file" with outcome true.
Counterexamples are replayed against the real `glas --stdio` binary: a change addressed to `untitled:<path of an open file>`."""
import re, json
import z3
from mirsym.world import World
from mirsym.values import *
from mirsym import models
from .c08 import derives_from

W = None


class UrlSpec:
    def make_interp(self):
        it = W.interp('glas', uc=True)
        it.allow = [r'^<impl at crates/glas/src/lib\.rs[^>]*>::to_vfs_path$']
        return it

    def run_path(self, it):
        body = next(b for n, b in W.crates['glas'].items() if re.match(r'^<impl at crates/glas/src/lib\.rs[^>]*>::to_vfs_path$', n))
        r = it.run_body(body, [LazyV('url')])
        calls = it.trace
        tfp = [t for t in calls if t[0].endswith('Url::to_file_path')]
        sch = [t for t in calls if t[0].endswith('Url::scheme')]
        is_file_path = any(derives_from(r, t[2], calls) for t in tfp) or (isinstance(r, Agg) and r.variant == 'Path')
        if not is_file_path:
            return {'cls': 'virtual', 'ok': True, 'sample': {'result': 'virtual path (the URI text)'}}
        tested = False
        for (callee, args, res, _) in calls:
            if not re.search(r'PartialEq.*>::eq$', callee) or len(args) != 2:
                continue
            a0, a1 = models.deref(args[0]), models.deref(args[1])
            lit = [x for x in (a0, a1) if isinstance(x, StrV) and x.s == 'file']
            frm = [x for x in (args[0], args[1]) if any(derives_from(x, s[2], calls) for s in sch)]
            if lit and frm:
                rr, _m = it.check(z3.Not(res.as_bool().z()))
                if rr != z3.sat:
                    tested = True
        if tested:
            return {'cls': 'file-path-after-scheme-test', 'ok': True, 'sample': {'result': 'file path', 'scheme_test': True}}
        return {'cls': 'violation', 'ok': False, 'why': ['C15: to_vfs_path maps a URI to a file-system path without having established scheme() == "file" (a non-file URI aliases a file document)'],
                'cex': {'fn': 'to_vfs_path'}}

    def on_panic(self, it, e):
        return {'cls': 'panic-under-havoc', 'ok': True}


def factory():
    return UrlSpec()


A = 'pub fn main() { 1 }\n'
B = 'pub fn other() { 42 }\n'


def native_alias(binary):
    """open file:///…/src/main.gleam with A, then send a full-text didChange for untitled:/…/src/main.gleam with B"""
    from mirsym import lsp_replay
    s = lsp_replay.Session(binary)
    try:
        uri = s.uri()
        s.notify('textDocument/didOpen', {'textDocument': {'uri': uri, 'languageId': 'gleam', 'version': 1, 'text': A}})
        before, _ = s.server_text()
        alias = 'untitled:' + uri[len('file://'):]
        s.notify('textDocument/didChange', {'textDocument': {'uri': alias, 'version': 2}, 'contentChanges': [{'text': B}]})
        after, raw = s.server_text()
        return {'before': before, 'after': after, 'alive': s.alive(), 'alias_uri': alias}
    finally:
        s.close()


def part(chk, tier, jobs):
    global W
    from mirsym import explore, lsp_replay
    W = World(['glas'], 'dev', log=chk.log)
    try:
        res, complete = explore.explore(factory, (), jobs=1)
        chk.add_run('to_vfs_path over an under-constrained Url', res, complete, {'callees': 'url crate havoc'}, nontrivial_classes=lambda c: c in ('virtual', 'file-path-after-scheme-test'))
        obs = native_alias(lsp_replay.build_binary())
        aliased = obs['before'] == A and obs['after'] is not None and obs['after'] != A
        if res.violations:
            why = res.violations[0]['why'][0]
            if aliased or not obs['alive']:
                chk.violation('uri-alias', 'bounded', '%s; real server: file document %r, then a change for %s -> the FILE document is now %r' % (why, A, obs['alias_uri'], obs['after']),
                              {'file_text': A, 'alias_change': B}, confirmed=True)
            else:
                chk.inconclusive.append('to_vfs_path kernel: %s -- but the real server keeps the file document apart from an untitled: URI with the same path (%s)' % (why, obs))
        elif aliased or obs['before'] != A:
            chk.inconclusive.append('translator validation FAILED: to_vfs_path kernel finds the scheme test on every file path, but the real server shows %s' % obs)
        else:
            chk.validated += 1
            chk.log('to_vfs_path: a change addressed to an untitled: URI with the path of an open file leaves that file document untouched on the real server')
    finally:
        W.cleanup()
