"""C18 — completions list what is in scope (kernel: the completion name walk agrees with the resolver)."""
import os, json
import z3
from mirsym import explore, native
from . import scopes, c05
from .runner import Check

BOUNDS = {'quick': {'pool': [2, 3]}, 'thorough': {'pool': [2, 3, 4]}}


def native_completions(oracle, template, assign):
    text, binders, uses = scopes.render_program(template, assign)
    r = oracle.ask('complete', json.dumps({'text': text, 'offsets': uses}))
    if 'complete' not in r:
        return text, None, r
    out = []
    for labels in r['complete']:
        out.append(sorted(set(l for l in (labels or []) if len(l) == 1 and l in scopes.NAMES)))
    return text, out, r


def expected_names(template, pool, assign):
    it0 = scopes.W.interp('ide'); b = scopes.build(it0, template, pool)[0]
    val = {id(n): assign[i] for i, n in enumerate(b.names)}
    return [sorted(set(scopes.NAMES[val[id(b.binders[p])]] for p in visible)) for (eid, nm, visible) in b.uses]


def main(tier, seed):
    chk = Check('C18', tier, seed)
    jobs = int(os.environ.get('VERIF_JOBS', '16'))
    scopes.load('dev', log=chk.log)
    oracle = native.Oracle(native.build('oracle-ide'))
    try:
        for pool in BOUNDS[tier]['pool']:
            for t in scopes.TEMPLATES:
                it0 = scopes.W.interp('ide'); b0 = scopes.build(it0, t, pool)[0]
                s = z3.Solver(); s.add(b0.constraints())
                if s.check() != z3.sat:
                    continue
                res, complete = explore.explore(scopes.completion_factory, (t, pool), jobs=jobs)
                name = 'template %s, names from a pool of %d (+2 module-level names from the same pool)' % (t, pool)
                chk.add_run(name, res, complete, {'template': t, 'name_pool': pool}, nontrivial_classes=lambda c: c == 'ok')
                seen = set()
                for v in res.violations:
                    key = v['why'][0][:50]
                    if key in seen:
                        continue
                    seen.add(key)
                    text, nres, raw = native_completions(oracle, t, v['cex']['names'])
                    exp = expected_names(t, pool, v['cex']['names'])
                    if nres is None or nres != exp:
                        chk.violation('completion-names:' + t, 'bounded', '%s: %s; program %r: completion offers the local names %s at the identifier positions, in scope are %s' % (name, v['why'][0][:300], text, nres, exp),
                                      {'template': t, 'names': v['cex']['names'], 'text': text}, confirmed=True)
                    else:
                        chk.violation('engine', 'bounded', '%s: %s; the public API offers exactly the names in scope on %r' % (name, v['why'][0][:300], text), v['cex'], confirmed=False)
                okc = 0; tot = 0
                for cls, ss in list(res.samples.items())[:2]:
                    for smp in ss[:2]:
                        text, nres, raw = native_completions(oracle, t, smp['names'])
                        exp = expected_names(t, pool, smp['names'])
                        tot += 1
                        if nres == exp:
                            okc += 1
                        else:
                            chk.inconclusive.append('public-API validation FAILED: %r offers %s, in scope %s' % (text, nres, exp))
                chk.validated += okc
    finally:
        oracle.close(); scopes.W.cleanup()
    chk.assumptions += [
        'kernel claim: Resolver::values_names_in_scope (the separate walk the completion list is built from) contains a name exactly when Resolver::resolve_name finds a non-built-in definition for it, and both give the same definition - '
        'at every identifier position of %d function-body templates, for every assignment of local names and of two module-level names (a function and a constant) from the same pool, so that locals shadow module items' % len(scopes.TEMPLATES),
        'completion contexts, dot completion (needs inference), rendering and the replaced range need the database and are outside the claim (they are exercised only by the public-API validation of sampled paths)',
        'Gleam rejects duplicate names inside one pattern / parameter list: such assignments are excluded']
    chk.trusted += ['rustc MIR', 'mirsym interpreter + la_arena / SmolStr / IndexMap (association list incl. entry API) / Arc models', 'z3']
    return chk.finish()


def replay(path):
    d = json.load(open(path))
    oracle = native.Oracle(native.build('oracle-ide'))
    scopes.load('dev', log=lambda m: None)
    print(native_completions(oracle, d['cex']['template'], d['cex']['names']))
    return 0
