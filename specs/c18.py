"""C18 — completions list what is in scope (kernel: the completion name walk agrees with the resolver)."""
import os, json
import z3
from mirsym import explore, native
from . import scopes, c05
from .runner import Check

BOUNDS = {'quick': {'pool': [2, 3]}, 'thorough': {'pool': [2, 3, 4]}}


def native_completions(oracle, template, assign):
    text, binders, uses = scopes.render_program(template, assign)
    r = oracle.ask('complete', json.dumps({'text': text, 'offsets': uses}))
    if 'complete' not in r:
        return text, None, r
    out = []
    for labels in r['complete']:
        out.append(sorted(set(l for l in (labels or []) if len(l) == 1 and l in scopes.NAMES)))
    return text, out, r


def expected_names(template, pool, assign):
    it0 = scopes.W.interp('ide'); b = scopes.build(it0, template, pool)[0]
    val = {id(n): assign[i] for i, n in enumerate(b.names)}
    return [sorted(set(scopes.NAMES[val[id(b.binders[p])]] for p in visible)) for (eid, nm, visible) in b.uses]


class KeywordSpec:
    """token-class predicate behind the replaced range: SyntaxKind::is_keyword(k) <=> k is one of the keyword tokens"""

    def make_interp(self):
        from . import syn
        it = syn.W.interp('syntax')
        self.k = z3.BitVec('k', 16)
        last = max(syn.KINDS.values())
        it.solver.add(z3.ULE(self.k, last))
        return it

    def run_path(self, it):
        from . import syn
        from mirsym.values import IntV
        fn = syn.W.find('syntax', 'is_keyword')
        r = it.run_body(fn, [IntV(self.k, 16, 0)])
        kws = [v for n, v in syn.KINDS.items() if n.endswith('_KW')]
        ref = z3.Or([self.k == v for v in kws])
        cond = (r.z() != ref) if r.sym() else (z3.Not(ref) if r.v else ref)
        rr, m = it.check(cond)
        rec = {'cls': 'ok', 'ok': True, 'sample': {'keywords': len(kws)}}
        if rr == z3.sat:
            kv = m.eval(self.k, model_completion=True).as_long()
            rec = {'cls': 'violation', 'ok': False, 'why': ['C18: is_keyword(%s) is wrong: the identifier-under-cursor test of the completion range depends on it' % syn.INV.get(kv, kv)],
                   'cex': {'kind': syn.INV.get(kv, kv)}}
        return rec


def keyword_factory():
    return KeywordSpec()


def keyword_part(chk, oracle, jobs):
    from . import syn
    syn.load('dev', log=chk.log, need_oracle=False)
    try:
        res, complete = explore.explore(keyword_factory, (), jobs=1)
        chk.add_run('token-class predicate is_keyword over all %d kinds' % len(syn.KINDS), res, complete, {'kinds': len(syn.KINDS)})
        for v in res.violations[:2]:
            kw = v['cex']['kind'].replace('_KW', '').lower()
            text = 'fn %sful() { 1 }\nfn main() { %s }\n' % (kw, kw)
            off = text.rindex(kw) + len(kw)
            r = oracle.ask('complete', json.dumps({'text': text, 'offsets': [off], 'ranges': True}))
            items = (r.get('complete') or [None])[0] or []
            hit = [i for i in items if i[0] == kw + 'ful']
            okc = bool(hit) and (hit[0][1], hit[0][2]) != (off - len(kw), off)
            chk.violation('completion-range', 'bounded', '%s; public API: completing after %r in %r offers %s (the typed prefix spans %d..%d)' % (v['why'][0], kw, text, hit[:1], off - len(kw), off),
                          {'text': text, 'offset': off}, confirmed=okc)
        # the other half of the replaced-range mechanism, through the public API: a partially typed name whose prefix spells a keyword
        # (`use|r`, `case|s`, ...) is a keyword token at that moment; accepting an item must still replace exactly that token
        nprobe = nbad = 0
        for n in sorted(syn.KINDS):
            if not n.endswith('_KW'):
                continue
            kw = n[:-3].lower()
            text = 'fn %sful() { 1 }\nfn main() { %s }\n' % (kw, kw)
            off = text.rindex(kw) + len(kw)
            r = oracle.ask('complete', json.dumps({'text': text, 'offsets': [off], 'ranges': True}))
            if not isinstance(r, dict) or 'complete' not in r:
                chk.violation('completion-range', 'keywords', 'completion after the keyword-spelled prefix %r in %r: %s' % (kw, text, str(r)[:200]), {'text': text, 'offset': off}, confirmed=True); nbad += 1
                continue
            items = (r.get('complete') or [None])[0] or []
            hit = [i for i in items if i[0] == kw + 'ful']
            if not hit:
                continue        # nothing offered in this context: no range to check
            nprobe += 1
            if (hit[0][1], hit[0][2]) != (off - len(kw), off):
                nbad += 1
                if nbad <= 3:
                    chk.violation('completion-range', 'keywords', 'completing after the partially typed name %r (a keyword token at that moment) in %r offers %r with the replaced range %d..%d; the identifier being typed spans %d..%d - accepting it yields %r'
                                  % (kw, text, hit[0][0], hit[0][1], hit[0][2], off - len(kw), off, text[:hit[0][1]] + hit[0][3] + text[hit[0][2]:]), {'text': text, 'offset': off}, confirmed=True)
            else:
                chk.validated += 1
        chk.log('replaced range: %d keyword-spelled prefixes offered a completion, %d with a wrong replaced range' % (nprobe, nbad))
        if nprobe == 0:
            chk.inconclusive.append('no keyword-spelled prefix was offered a completion (vacuous probe)')
    finally:
        syn.W.cleanup()


def main(tier, seed):
    chk = Check('C18', tier, seed)
    jobs = int(os.environ.get('VERIF_JOBS', '16'))
    oracle = native.Oracle(native.build('oracle-ide'))
    keyword_part(chk, oracle, jobs)
    scopes.load('dev', log=chk.log)
    try:
        for pool in BOUNDS[tier]['pool']:
            for t in scopes.TEMPLATES:
                it0 = scopes.W.interp('ide'); b0 = scopes.build(it0, t, pool)[0]
                s = z3.Solver(); s.add(b0.constraints())
                if s.check() != z3.sat:
                    continue
                res, complete = explore.explore(scopes.completion_factory, (t, pool), jobs=jobs)
                name = 'template %s, names from a pool of %d (+2 module-level names from the same pool)' % (t, pool)
                chk.add_run(name, res, complete, {'template': t, 'name_pool': pool}, nontrivial_classes=lambda c: c == 'ok')
                seen = set()
                for v in res.violations:
                    key = v['why'][0][:50]
                    if key in seen:
                        continue
                    seen.add(key)
                    text, nres, raw = native_completions(oracle, t, v['cex']['names'])
                    exp = expected_names(t, pool, v['cex']['names'])
                    if nres is None or nres != exp:
                        chk.violation('completion-names:' + t, 'bounded', '%s: %s; program %r: completion offers the local names %s at the identifier positions, in scope are %s' % (name, v['why'][0][:300], text, nres, exp),
                                      {'template': t, 'names': v['cex']['names'], 'text': text}, confirmed=True)
                    else:
                        chk.violation('engine', 'bounded', '%s: %s; the public API offers exactly the names in scope on %r' % (name, v['why'][0][:300], text), v['cex'], confirmed=False)
                okc = 0; tot = 0
                for cls, ss in list(res.samples.items())[:2]:
                    for smp in ss[:2]:
                        text, nres, raw = native_completions(oracle, t, smp['names'])
                        exp = expected_names(t, pool, smp['names'])
                        tot += 1
                        if nres == exp:
                            okc += 1
                        elif nres is not None:
                            chk.violation('completion-api:' + t, 'sampled', '%s: program %r (a solver model of an explored path): completion offers the local names %s at the identifier positions, in scope are %s '
                                          '(the resolver kernel agrees with the scoping rules: the defect is outside it)' % (name, text, nres, exp), {'template': t, 'names': smp['names'], 'text': text}, confirmed=True)
                        else:
                            chk.inconclusive.append('public-API validation FAILED: %r offers %s, in scope %s' % (text, nres, exp))
                chk.validated += okc
        # native layer: after `module.` / `value.`, and prefix independence at a blank expression position
        from . import dotk
        nsurf = 0
        for v in dotk.surfaces():
            nsurf += 1
            for site, p_ in dotk.check_surface(oracle, v)[:2]:
                chk.violation('completion-' + site, 'enumerated', p_[:700], {'kind': 'surface', 'visibilities': list(v)}, confirmed=True)
        npi = nbadpi = 0
        seen_t = set()
        for pool in BOUNDS[tier]['pool'][:1]:
            for t in scopes.TEMPLATES:
                it0 = scopes.W.interp('ide'); b0 = scopes.build(it0, t, pool)[0]
                sol = z3.Solver(); sol.add(b0.constraints())
                nm = 0
                while sol.check() == z3.sat and nm < (6 if tier == 'quick' else 40):
                    m = sol.model()
                    assign = [m.eval(v_, model_completion=True).as_long() for v_ in b0.names]
                    sol.add(z3.Or([v_ != a_ for v_, a_ in zip(b0.names, assign)]))
                    nm += 1
                    text = scopes.render_program(t, assign)[0]
                    i = text.rstrip().rfind('}')
                    marked = text[:i] + ' $0 ' + text[i:]
                    if marked in seen_t:
                        continue
                    seen_t.add(marked)
                    npi += 1
                    pr = dotk.prefix_independence(oracle, marked)
                    if pr:
                        nbadpi += 1
                        if nbadpi <= 3:
                            chk.violation('completion-blank-position', 'path-model', pr[:700], {'kind': 'blank', 'text': marked}, confirmed=True)
                    else:
                        chk.validated += 1
        rprobs = dotk.rebinding_probes(oracle)
        for pr in rprobs[:2]:
            chk.violation('completion-shadowed-binding', 'probe', pr[:700], {'kind': 'rebinding'}, confirmed=True)
        if not rprobs:
            chk.validated += len(dotk.REBIND)
        nb, bprobs = dotk.blank_after_statement(oracle)
        for pr in bprobs[:3]:
            chk.violation('completion-blank-position:after-statement', 'enumerated', pr[:700], {'kind': 'blank-after-statement'}, confirmed=True)
        if not bprobs:
            chk.validated += nb
        chk.log('blank position after a binder-bearing statement: %d programs (3 statement kinds x 11 pattern shapes x 2 continuations), %d with a problem' % (nb, len(bprobs)))
        chk.log('dot completion: %d module surfaces (visibilities z3-enumerated); blank expression position vs typed prefix on %d rendered programs, %d differ' % (nsurf, npi, nbadpi))
        from . import modscope
        modscope.W = scopes.W
        modscope.part_c18(chk, tier, jobs, oracle)
        modscope.part_c18_fields(chk, tier, jobs, oracle)
        modscope.part_c18_names(chk, tier, jobs, oracle)
    finally:
        oracle.close(); scopes.W.cleanup()
    chk.assumptions += [
        'fields after `value.`: def::lower::LowerCtx::lower_custom_type on its real MIR with the syntax accessors and lower_constructor modelled: <= 2 (thorough 3) constructors whose labelled-field sets are symbolic subsets of {a, b}; the common fields must be the labels every constructor has; replayed through triggered completion on three probe types',
        'module accessors: ide::completion::complete_expr on its real MIR with the database havoc\'d and one module import (alias symbolic): the module must be looked up under the local accessor the module scope registers (alias, else accessor; C05 kernel) and rendered once; replayed through ide::Analysis::completions on a three-module workspace',
        'kernel claim: Resolver::values_names_in_scope (the separate walk the completion list is built from) contains a name exactly when Resolver::resolve_name finds a non-built-in definition for it, and both give the same definition - '
        'at every identifier position of %d function-body templates, for every assignment of local names and of two module-level names (a function and a constant) from the same pool, so that locals shadow module items' % len(scopes.TEMPLATES),
        'replaced range: SyntaxKind::is_keyword decided for all kinds (kernel); natively, for every keyword spelling, completion right after a partially typed name with that spelling must replace exactly that token',
        'native layer (executed, not a solver verdict): after `module.` for every visibility combination of a function, a constant and a type with a constructor (z3-enumerated: pub / private, pub / pub opaque / private) - triggered by the dot, with a typed prefix and no trigger character, and with a record-typed parameter named like the module: exactly the public functions and the constructors of public non-opaque types (plus the fields of the value); and prefix independence: at the end of the body of 6 (thorough 40) z3 models per scope template, completion with nothing typed offers the same names as completion with a typed identifier',
        'completion contexts, dot completion (needs inference) and rendering need the database and are outside the claim (they are exercised only by the public-API validation of sampled paths)',
        'Gleam rejects duplicate names inside one pattern / parameter list: such assignments are excluded']
    chk.trusted += ['rustc MIR', 'mirsym interpreter + la_arena / SmolStr / IndexMap (association list incl. entry API) / Arc models', 'z3']
    return chk.finish()


def replay(path):
    d = json.load(open(path))
    oracle = native.Oracle(native.build('oracle-ide'))
    if 'template' not in d.get('cex', {}):
        c = d['cex']
        print(json.dumps(oracle.ask('complete', json.dumps({'text': c['text'], 'offsets': [c['offset']], 'ranges': True})))[:2000])
        oracle.close()
        return 0
    scopes.load('dev', log=lambda m: None)
    print(native_completions(oracle, d['cex']['template'], d['cex']['names']))
    return 0
