"""C02 — parsing terminates without panic or abort on every input (bounded, solver-decided)."""
import os, sys, time, json
import z3
from mirsym import explore, native
from mirsym.values import *
from . import syn, synspecs, synrun
from .runner import Check

BOUNDS = {
    'quick':    {'tokens': 4, 'ctx': 2, 'tokens_release': 3, 'ctx_release': 1, 'lex': 6, 'lex_release': 4, 'pipeline': 2, 'pump': (1, 2, 3, 4, 8)},
    'thorough': {'tokens': 5, 'ctx': 3, 'tokens_release': 4, 'ctx_release': 2, 'lex': 8, 'lex_release': 6, 'pipeline': 3, 'pump': (1, 2, 3, 4, 8, 16)},
}


_PROBE = {}


def _probe_init():
    it = syn.W.interp('syntax')
    hook = synspecs.FuelHook(); it.call_hooks.append(hook)
    _PROBE['it'] = it; _PROBE['hook'] = hook


def _probe_run(seq):
    it = _PROBE['it']; hook = _PROBE['hook']
    it.start_path([])
    hook.min = None
    try:
        syn.parse_tokens(it, [IntV(k, 16, 0) for k in seq])
        out = 'ok'
    except Panic as e:
        out = 'panic:' + e.kind + ':' + e.msg
    except Unsupported as e:
        out = 'unsupported:' + str(e)[:80]
    return 1024 - (hook.min if hook.min is not None else 1024), it.maxdepth, out


def _probe_unit(job):
    prefix, unit, ms = job
    Ls = []; Ds = []; outs = []
    for m in ms:
        L, D, out = _probe_run(list(prefix) + list(unit) * m)      # ends after the pumped units: unclosed nesting at EOF
        Ls.append(L); Ds.append(D); outs.append(out)
    return prefix, unit, Ls, Ds, outs


def growth_probe(chk, w_results, oracle, sp, pump_ms, jobs, pairs=True):
    """Pumping test.  Contexts = prefixes of the solver-found witnesses that maximise call depth / look-aheads without
    bump; units = every single token kind in every context, every token pair in the two steepest contexts.  A unit whose
    look-aheads-without-bump or call depth grows linearly with its repetition count is a nesting unit; it is extrapolated
    to the fuel limit / to 10^5 repetitions and that text is run against the *native* parser.  Verdicts come from the
    native replay only."""
    import multiprocessing as mp
    alphabet = sorted(k for k in sp.realisable if k > syn.KINDS['COMMENT_MODULE'] and k <= syn.KINDS['ERROR'])
    contexts = [()]
    for res in w_results:
        for key in ('maxdepth', 'maxlook'):
            if key in res.extra and res.extra[key][1]:
                w = [syn.KINDS[k] if isinstance(k, str) else k for k in res.extra[key][1]]
                for i in range(1, len(w)):
                    if tuple(w[:i]) not in contexts:
                        contexts.append(tuple(w[:i]))
    ms = tuple(pump_ms)
    jobs1 = [(c, (u,), ms) for c in contexts for u in alphabet]
    ctx = mp.get_context('fork')
    with ctx.Pool(jobs, initializer=_probe_init) as pool:
        r1 = pool.map(_probe_unit, jobs1, chunksize=8)

        def slopes(Ls, Ds, mm=ms):
            # linear growth = strictly increasing over the last three pump sizes (plateaus and noise do not count)
            def sl(xs):
                if not (xs[-1] > xs[-2] > xs[-3]):
                    return 0.0
                return (xs[-1] - xs[-2]) / float(mm[-1] - mm[-2])
            return sl(Ls), sl(Ds)
        single = {}
        for prefix, unit, Ls, Ds, outs in r1:
            dl, dd = slopes(Ls, Ds)
            single[(prefix, unit)] = (dl, dd, Ls, Ds, outs)
        ctx_score = {}
        for (prefix, unit), (dl, dd, _, _, _) in single.items():
            ctx_score[prefix] = max(ctx_score.get(prefix, 0), dl + dd)
        best_ctx = sorted(ctx_score, key=lambda c: (-ctx_score[c], len(c)))[:1]
        ms2 = (2, 4, 8)
        jobs2 = [(c, (u, v), ms2) for c in best_ctx for u in alphabet for v in alphabet if u != v] if pairs else []
        r2 = pool.map(_probe_unit, jobs2, chunksize=64)
    units = {}
    for (prefix, unit), (dl, dd, Ls, Ds, outs) in single.items():
        if dl > 0 or dd > 0:
            cur = units.get(unit)
            if cur is None or dl + dd > cur[1] + cur[2]:
                units[unit] = (prefix, dl, dd, Ls, Ds, ms)
    grow1 = {(p, u[0]) for (p, u), v in single.items() if v[0] > 0 or v[1] > 0}
    for prefix, unit, Ls, Ds, outs in r2:
        dl, dd = slopes(Ls, Ds, ms2)
        if (dl > 0 or dd > 0) and (prefix, unit[0]) not in grow1 and (prefix, unit[1]) not in grow1:
            cur = units.get(unit)
            if cur is None or dl + dd > cur[1] + cur[2]:
                units[unit] = (prefix, dl, dd, Ls, Ds, ms2)
    findings = []; probes = []
    for unit, (prefix, dl, dd, Ls, Ds, mss) in sorted(units.items(), key=lambda kv: [syn.INV[k] for k in kv[0]]):
        uname = '+'.join(syn.INV[k] for k in unit)
        pnames = [syn.INV[k] for k in prefix]
        probes.append({'prefix': pnames, 'unit': uname, 'lookaheads_per_level': dl, 'frames_per_level': dd, 'L': Ls, 'D': Ds, 'repeats': list(mss)})
        fam = 'nesting-pump:' + uname
        if dl > 0:
            m_star = int((1024 - Ls[0]) / dl) + 16
            txt = sp.text_for(list(prefix) + list(unit) * m_star, oracle)
            if txt is not None:
                nat = oracle.ask('parse', txt)
                if 'panic' in nat or 'died' in nat:
                    findings.append(('panic:' + str(nat.get('panic', 'process died')).replace(' ', '_'), fam,
                                     'prefix %s + (%s) x %d at end of input (%.1f look-aheads without bump per level, fuel 1024): native %s' %
                                     (pnames, uname, m_star, dl, nat), {'prefix': pnames, 'unit': uname, 'repeat': m_star, 'text_head': txt[:60]}))
        if dd > 0:
            m_big = 100000
            txt = ' '.join([sp.sp[k] for k in prefix] + [sp.sp[k] for k in unit] * m_big)
            nat = oracle.ask('parse', txt)
            if 'died' in nat:
                findings.append(('abort:stack-overflow', fam,
                                 'prefix %s + (%s) x %d (%.1f frames per level): native process died with status %s' %
                                 (pnames, uname, m_big, dd, nat['died']), {'prefix': pnames, 'unit': uname, 'repeat': m_big}))
            elif 'panic' in nat and not (dl > 0):
                findings.append(('panic:' + str(nat['panic']).replace(' ', '_'), fam,
                                 'prefix %s + (%s) x %d: native %s' % (pnames, uname, m_big, nat), {'prefix': pnames, 'unit': uname, 'repeat': m_big}))
    return probes, findings


def main(tier, seed):
    chk = Check('C02', tier, seed)
    B = BOUNDS[tier]
    jobs = int(os.environ.get('VERIF_JOBS', '16'))
    syn.load('dev', log=chk.log)
    oracle = native.Oracle(syn.ORACLE_BIN)
    sp = syn.Spellings(oracle)
    chk.log('spellings for %d token kinds (verified with the real lexer)' % len(sp.sp))
    tok_results = synrun.token_suite(chk, oracle, sp, jobs, ['C02'], B['tokens'], B['ctx'])
    synrun.deep_suite(chk, oracle, sp, jobs, ['C02'], 2 if tier == 'thorough' else 1, 3)
    synrun.lexer_suite(chk, oracle, sp, jobs, ['C02'], B['lex'], B['pipeline'])
    probes, findings = growth_probe(chk, tok_results[:B['tokens'] + 1], oracle, sp, B['pump'], jobs, pairs=(tier == 'thorough'))
    chk.log('growth probe: %d nesting units pumped and replayed natively, %d findings' % (len(probes), len(findings)))
    for site, fam, desc, cex in findings:
        chk.violation(site, fam, desc, cex, confirmed=True)
    # long flat runs and recursive chains, parsed natively (executed code): whatever the bounded runs and the growth probe's witnesses do not reach
    synrun.flat_runs(chk, oracle, ['C02'])
    # release-like profile (overflow checks / debug assertions off): what users run
    syn.load('release', log=chk.log, need_oracle=False)
    synrun.token_suite(chk, oracle, sp, jobs, ['C02'], B['tokens_release'], B['ctx_release'], profile='release', validate=False)
    synrun.lexer_suite(chk, oracle, sp, jobs, ['C02'], B['lex_release'], 0, profile='release')
    oracle.close()
    chk.assumptions += synrun.SYN_ASSUMPTIONS + ['inputs longer than the bounds are covered only along the natively replayed nesting families of the growth probe and along 13 flat + 19 recursive-chain families pumped to 3 000 / 200 000 links (executed natively, not a solver verdict)']
    chk.trusted += synrun.SYN_TRUSTED
    syn.W.cleanup()
    return chk.finish({'growth_probe': probes, 'unrealisable_counterexamples': chk.extra.get('unrealisable', 0)})


def replay(path):
    d = json.load(open(path))
    syn.load('dev', log=lambda m: None)
    oracle = native.Oracle(syn.ORACLE_BIN)
    cex = d['cex']
    if cex.get('kind') == 'flat-run':
        text = cex['prefix'] + cex['sep'].join([cex['unit']] * cex['count']) + cex['suffix']
        r = oracle.ask('roundtrip', text)
        print(json.dumps({'family': cex['family'], 'count': cex['count'], 'bytes': len(text), 'native': r}, indent=1))
        return 0 if (isinstance(r, dict) and r.get('text_ok') is True and r.get('contiguous') is True) else 1
    if 'text' in cex:
        txt = cex['text']
    else:
        sp = syn.Spellings(oracle)
        txt = ' '.join([sp.sp[syn.KINDS[k]] for k in cex.get('prefix', [])] + [sp.sp[syn.KINDS[k]] for k in cex['unit'].split('+')] * cex['repeat'])
    nv = synrun.native_verdict(oracle, txt)
    print(json.dumps({'input_head': txt[:200], 'bytes': len(txt.encode()), 'native_verdict': nv}, indent=1))
    return 1 if nv else 0
