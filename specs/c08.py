"""C08 — rename refuses invalid names, foreign symbols and ambiguous spellings (kernel: name class + guards).

a) the real lexer decides the name class: for every string up to L bytes, "GleamLexer yields exactly one token and it is
   IDENT / U_IDENT"  <=>  the string is a lowercase / capitalised identifier and no keyword (reference regexes as z3 terms);
b) ide::rename::rename and prepare_rename are executed under-constrained (every database callee havoc'd, the lexer real):
   every path that reaches the usage search (= produces edits) must have a name of the class its definition kind requires,
   must not be a module / built-in, and must have passed a locality check that returned true; prepare_rename must accept
   exactly the (definition kind, locality) combinations rename accepts.  Findings are replayed through the public API."""
import os, json, re
import z3
from mirsym import explore, models
from mirsym.world import World
from mirsym.values import *
from . import syn, synspecs
from .runner import Check

KEYWORDS = ['as', 'assert', 'case', 'const', 'external', 'fn', 'if', 'import', 'let', 'opaque', 'panic', 'pub', 'todo', 'type', 'use']
LOWER_KINDS = ['Function', 'ModuleConstant', 'Field', 'Local']
UPPER_KINDS = ['Adt', 'TypeAlias', 'Variant']
NONE_KINDS = ['Module', 'BuiltIn']
BOUNDS = {'quick': {'lex': 5, 'guard_name': 3}, 'thorough': {'lex': 8, 'guard_name': 5}}

W2 = None


def in_range(b, lo, hi):
    return z3.And(z3.UGE(b, ord(lo)), z3.ULE(b, ord(hi)))


def lower_ident(bs):
    """[a-z][_a-z0-9]* and not a keyword"""
    if not bs:
        return z3.BoolVal(False)
    c = [in_range(bs[0], 'a', 'z')]
    for b in bs[1:]:
        c.append(z3.Or(in_range(b, 'a', 'z'), in_range(b, '0', '9'), b == ord('_')))
    for kw in KEYWORDS:
        if len(kw) == len(bs):
            c.append(z3.Not(z3.And([b == ord(ch) for b, ch in zip(bs, kw)])))
    return z3.And(c)


def upper_ident(bs):
    """[A-Z][0-9a-zA-Z]*"""
    if not bs:
        return z3.BoolVal(False)
    c = [in_range(bs[0], 'A', 'Z')]
    for b in bs[1:]:
        c.append(z3.Or(in_range(b, 'a', 'z'), in_range(b, 'A', 'Z'), in_range(b, '0', '9')))
    return z3.And(c)


class NameClassSpec(synspecs.LexStepSpec):
    def run_path(self, it):
        n = self.n
        src = [IntV(b, 8, 0) for b in self.bs]
        lx = LexerV(src)
        gl = Agg('struct', 'GleamLexer', None, [lx])
        r = it.run_body(self.next, [RefV([gl], 0)])
        bad = []
        single = False; kind = None
        if r.variant == 'Some':
            tok = r.fields[0]
            k = tok.fields[0]
            e = models.tsz(tok.fields[2].fields[1]).v
            single = (e == n)
            kind = k
        K = syn.KINDS
        for (cls, ref, kk) in (('lowercase', lower_ident(self.bs), K['IDENT']), ('capitalised', upper_ident(self.bs), K['U_IDENT'])):
            if single and kind is not None and not kind.sym():
                is_cls = (kind.v == kk)
                cond = z3.Not(ref) if is_cls else ref
            elif single and kind is not None:
                cond = (kind.v == kk) != ref
            else:
                cond = ref          # not a single token: the reference must not call it an identifier
            rr, m = it.check(cond)
            if rr == z3.sat:
                w = bytes(m.eval(b, model_completion=True).as_long() for b in self.bs)
                bad.append('C08: the lexer and the %s-identifier class disagree on %r' % (cls, w))
                self._cex = w
        rec = {'ok': True, 'cls': ('single:' + (syn.INV.get(kind.v, '?') if kind is not None and not kind.sym() else '?')) if single else 'not-single'}
        if bad:
            rec.update({'cls': 'violation', 'ok': False, 'why': bad, 'cex': {'bytes': self._cex.hex()}})
        else:
            rec['sample'] = {'name': self.witness(it).hex(), 'class': rec['cls']}
        return rec


def name_factory(n):
    return NameClassSpec(n)


# ------------------------------------------------------------------------------------------------ guards (UC)

# every helper of the rename module is executed (a hand-written name classifier next to `rename` is part of the guard, not environment);
# find_def has its own kernel (AliasSpec) and stays havoc'd here
ALLOW = [r'^ide::rename::(?!find_def)', r'^lexer::', r'^kind::<impl at .*>::lex', r'^kind::.*::lex::']


class GuardSpec:
    """ide::rename::rename(db, fpos, new_name) with a symbolic name of exactly n bytes; fn = 'rename' | 'prepare_rename'"""

    def __init__(self, fn, n):
        self.fn = fn; self.n = n

    def make_interp(self):
        it = W2.interp('ide', uc=True)
        it.allow = ALLOW
        self.bs = [z3.BitVec('b%d' % i, 8) for i in range(self.n)]
        it.solver.add(syn.utf8_valid(self.bs))
        self.defs = {vn: d for vn, hf, d in W2.enums['Definition']}
        return it

    def run_path(self, it):
        body = W2.crates['ide']['ide::rename::' + self.fn]
        args = [LazyV('db'), LazyV('fpos')]
        if self.fn == 'rename':
            args.append(StrSym([IntV(b, 8, 0) for b in self.bs]))
        r = it.run_body(body, args)
        calls = it.trace
        usages = [t for t in calls if re.search(r'::usages$', t[0])]
        finddef = [t for t in calls if t[0].endswith('rename::find_def')]
        islocal = [t for t in calls if t[0].endswith('::is_local')]
        rec = {'ok': True}
        bad = []
        # which definition kinds does this path cover?  (feasible values of the discriminant under the path condition)
        kinds = []
        dd = None
        if finddef:
            fd = finddef[0][2]
            d = fd.kid(('Some', 0)).kid(('Left', 0)).kid((None, 1))
            dd = d.discriminant()
            for kname, v in self.defs.items():
                rr, _ = it.check(dd == v)
                if rr == z3.sat:
                    kinds.append(kname)
            if not kinds:
                return {'cls': 'pruned', 'ok': True}
        dkind = kinds[0] if len(kinds) == 1 else ('{%s}' % ','.join(sorted(kinds)) if kinds else None)
        local_true = None
        if islocal:
            res = islocal[0][2]
            rr, _ = it.check(z3.Not(res.as_bool().z()))
            local_true = (rr != z3.sat)
            # the checked package must be the package of the DEFINITION (data flow: find_def -> module -> package -> is_local)
            if local_true and finddef and not derives_from(islocal[0][1][0], finddef[0][2], calls):
                local_true = 'other'
                
        if self.fn == 'rename':
            accepted = bool(usages)
        else:
            var, _ = models.shape(it, r, ['Ok', 'Err'])
            accepted = (var == 'Ok')
        if accepted:
            for kname in kinds:
                if kname in NONE_KINDS:
                    bad.append('C08: %s accepts a %s definition' % (self.fn, kname))
            if not kinds:
                bad.append('C08: %s accepts without having looked up a definition' % self.fn)
            if local_true is not True:
                bad.append('C08: %s accepts the symbol without a locality check that returned true (edits could touch a dependency)' % self.fn)
            if self.fn == 'rename':
                for kname in kinds:
                    if kname in NONE_KINDS:
                        continue
                    ref = lower_ident(self.bs) if kname in LOWER_KINDS else upper_ident(self.bs)
                    rr, m = it.check(dd == self.defs[kname], z3.Not(ref))
                    if rr == z3.sat:
                        w = bytes(m.eval(b, model_completion=True).as_long() for b in self.bs)
                        bad.append('C08: rename of a %s accepts the new name %r' % (kname, w.decode('utf-8', 'replace')))
                        rec['name'] = w.decode('utf-8', 'replace'); rec['badkind'] = kname
        rec['cls'] = '%s:%s:%s' % ('accept' if accepted else 'reject', dkind, {True: 'local', False: 'nonlocal-or-unchecked', None: 'unchecked', 'other': 'locality-of-something-else'}[local_true])
        rec['accept'] = (accepted, sorted(kinds), local_true)
        if bad:
            rec.update({'cls': 'violation', 'ok': False, 'why': bad, 'cex': {'fn': self.fn, 'kind': rec.get('badkind', dkind), 'name': rec.get('name'), 'local_checked': local_true}})
        else:
            rec['sample'] = {'fn': self.fn, 'definition': dkind, 'locality': local_true, 'accepted': accepted}
        return rec

    def accumulate(self, extra, rec, it):
        if 'accept' in rec:
            a = rec.pop('accept')
            extra.setdefault('table', []).append([a[0], a[1], a[2]])

    def merge_extra(self, a, b):
        a.setdefault('table', []).extend(b.get('table', []))


def derives_from(v, root, calls, depth=0):
    """does value v derive (through havoc'd calls and projections) from the lazy value `root`?"""
    if depth > 12:
        return False
    while isinstance(v, RefV):
        try:
            v = v.get()
        except Exception:
            return False
    if isinstance(v, Agg):
        return any(derives_from(f, root, calls, depth + 1) for f in v.fields)
    if not isinstance(v, LazyV):
        return False
    x = v
    while x is not None:
        if x is root:
            return True
        x = x.parent
    # produced by a havoc'd call?  then look at that call's arguments
    x = v
    while x is not None:
        for (callee, args, res, _) in calls:
            if res is x:
                return any(derives_from(a, root, calls, depth + 1) for a in args)
        x = x.parent
    return False


def guard_factory(fn, n):
    return GuardSpec(fn, n)


# ------------------------------------------------------------------------------------------------ alias refusal (UC over find_def)

ALIAS_ALLOW = [r'^ide::rename::find_def$', r'^ide::rename::find_def::\{closure#\d+\}$']


class AliasSpec:
    """ide::rename::find_def executed under-constrained (the helper both prepare_rename and rename use; GuardSpec takes its result as
    given).  Obligation on every path that returns Some(Left((range, def))): def is the definition classify_node returned for the token
    under the cursor, and the path passed an equality test -- with the outcome "equal" -- between a string derived from that token and a
    string derived from Definition::name(def).  A path without it renames through an alias."""

    def make_interp(self):
        it = W2.interp('ide', uc=True)
        it.allow = ALIAS_ALLOW
        return it

    def run_path(self, it):
        body = W2.crates['ide']['ide::rename::find_def']
        r = it.run_body(body, [LazyV('sema'), LazyV('fpos')])
        calls = it.trace
        var, inner = models.shape(it, r, ['None', 'Some'])
        if var != 'Some':
            return {'ok': True, 'cls': 'none'}
        v2, payload = models.shape(it, inner, ['Left', 'Right'])
        if v2 != 'Left':
            return {'ok': True, 'cls': 'refused', 'sample': {'outcome': 'refused (Right)'}}
        toks = [t for t in calls if t[0].endswith('best_token_at_offset')]
        cls = [t for t in calls if t[0].endswith('classify_node')]
        names = [t for t in calls if t[0].endswith('Definition::name')]
        bad = []
        d = payload.fields[1] if isinstance(payload, Agg) else payload.kid((None, 1))
        if not cls or not derives_from(d, cls[0][2], calls):
            bad.append('C08: find_def returns a definition that is not the one classify_node gave for the token under the cursor')
        tested = False
        for (callee, args, res, _) in calls:
            if not re.search(r'PartialEq.*>::(eq|ne)$|::eq$|::ne$', callee) or len(args) != 2:
                continue
            from_tok = [bool(toks) and derives_from(a, toks[0][2], calls) for a in args]
            from_name = [any(derives_from(a, nm[2], calls) for nm in names) for a in args]
            if not ((from_tok[0] and from_name[1]) or (from_tok[1] and from_name[0])):
                continue
            want_equal = callee.endswith('eq')
            rr, _m = it.check(res.as_bool().z() if not want_equal else z3.Not(res.as_bool().z()))
            if rr != z3.sat:          # under this path condition the spellings compared equal
                tested = True
        if not tested:
            kinds = sorted({str(t[0]).split('::')[-2] + '::' + str(t[0]).split('::')[-1] for t in calls if re.search(r'::(cast|kind|can_cast)$', t[0])})
            bad.append('C08: find_def accepts the position without having compared the spelling under the cursor with the name of the definition (an aliased name is renamed)%s'
                       % ((' [node tests on the path: %s]' % ', '.join(kinds)) if kinds else ''))
        rec = {'ok': True, 'cls': 'accepted-after-spelling-test'}
        if bad:
            rec = {'ok': False, 'cls': 'violation', 'why': bad, 'cex': {'fn': 'find_def', 'alias': True}}
        else:
            rec['sample'] = {'outcome': 'accepted', 'spelling_test': True}
        return rec


def alias_factory():
    return AliasSpec()


ALIAS_APP = ("import dep_mod.{type Bobo as Bb, Ctor as Cc, helper as hh, konst as kk}\n"
             "fn user(a: Bb) { let x = hh() let y = Cc(1) let z = kk case y { Cc(q) -> q } }\n")
ALIAS_DEP = "pub type Bobo { Ctor(i: Int) }\npub fn helper() { 1 }\npub const konst = 1\n"
ALIAS_PROBES = [('type alias at a use site', 'a: Bb', 3, 'Zed'), ('type alias in the import', 'Bobo as Bb', 8, 'Zed'), ('function alias at a call', 'hh()', 0, 'zed'),
                ('function alias in the import', 'helper as hh', 10, 'zed'), ('constructor alias in an expression', 'Cc(1)', 0, 'Zed'), ('constructor alias in a pattern', 'Cc(q)', 0, 'Zed'),
                ('constructor alias in the import', 'Ctor as Cc', 8, 'Zed'), ('constant alias at a use site', 'z = kk', 4, 'zed'), ('constant alias in the import', 'konst as kk', 9, 'zed')]


def alias_fixture(offset, new_name):
    # both packages local, so that only the alias rule can refuse
    return {'files': [{'path': '/app/src/main.gleam', 'text': ALIAS_APP, 'root': 0}, {'path': '/dep/src/dep_mod.gleam', 'text': ALIAS_DEP, 'root': 1}],
            'roots': [{'path': '/app', 'local': True, 'deps': [1]}, {'path': '/dep', 'local': True, 'deps': []}],
            'file': 0, 'offset': offset, 'new_name': new_name}


def alias_probes(oracle):
    """public API on every aliased spelling: [(what, accepted by rename, accepted by prepare, raw)]"""
    out = []
    for what, needle, delta, nm in ALIAS_PROBES:
        nat = oracle.ask('rename', json.dumps(alias_fixture(ALIAS_APP.index(needle) + delta, nm)))
        out.append((what, nat.get('rename', {}).get('ok') is True, nat.get('prepare', {}).get('ok') is True, nat))
    return out


# ------------------------------------------------------------------------------------------------ native replay (public API)

APP = ("import dep_mod\nconst my_const = 1\ntype MyType { MyVariant(my_field: Int) }\ntype MyAlias = Int\n"
       "fn my_fn(my_local) { my_local + my_const }\nfn user(x: MyType) { dep_mod.helper() x.my_field }\n")
DEP = ("pub fn helper() { 1 }\npub const dep_const = 1\npub type DepType { DepVariant(dep_field: Int) }\npub type DepAlias = Int\n"
       "pub fn dep_fn(dep_param) { let dep_let = dep_param  case dep_let { dep_bound -> dep_bound + dep_const } }\n")
# every kind of definition INSIDE a file of the dependency (cursor on the declaration, and on a use where there is one)
DEP_PROBES = [('function', 'helper', 'fresh_name'), ('constant', 'dep_const', 'fresh_name'), ('type', 'DepType', 'FreshName'), ('constructor', 'DepVariant', 'FreshName'),
              ('field', 'dep_field', 'fresh_name'), ('type alias', 'DepAlias', 'FreshName'), ('parameter', 'dep_param', 'fresh_name'), ('let binding', 'dep_let', 'fresh_name'),
              ('case-pattern variable', 'dep_bound', 'fresh_name')]


def dependency_probes(oracle):
    """rename / prepare_rename with the cursor INSIDE a file of the build/packages dependency, on every kind of definition -> [(what, accepted by, answer)] for accepted ones"""
    out = []
    for what, needle, nm in DEP_PROBES:
        offs = [m.start() for m in re.finditer(r'\b%s\b' % needle, DEP)]
        for off in offs:
            nat = oracle.ask('rename', json.dumps(fixture(1, off, nm)))
            r = nat.get('rename', {}); pr = nat.get('prepare', {})
            if r.get('ok') is True and r.get('edits'):
                out.append((what, 'rename', 'rename of the %s `%s` (cursor at offset %d of build/packages/dep/src/dep_mod.gleam) to %r -> edits %s' % (what, needle, off, nm, json.dumps(r.get('edits'))[:160])))
            if pr.get('ok') is True:
                out.append((what, 'prepare_rename', 'prepare_rename on the %s `%s` (offset %d of build/packages/dep/src/dep_mod.gleam) -> %s' % (what, needle, off, json.dumps(pr)[:160])))
    return out
NEEDLE = {'Function': 'my_fn', 'ModuleConstant': 'my_const', 'Field': 'my_field', 'Local': 'my_local', 'Adt': 'MyType', 'TypeAlias': 'MyAlias',
          'Variant': 'MyVariant', 'Module': 'dep_mod', 'BuiltIn': 'Int'}
VALID = {'Function': 'fresh_name', 'ModuleConstant': 'fresh_name', 'Field': 'fresh_name', 'Local': 'fresh_name', 'Adt': 'FreshName', 'TypeAlias': 'FreshName',
         'Variant': 'FreshName', 'Module': 'fresh_name', 'BuiltIn': 'FreshName'}


def fixture(file, offset, new_name):
    return {'files': [{'path': '/app/src/main.gleam', 'text': APP, 'root': 0}, {'path': '/app/build/packages/dep/src/dep_mod.gleam', 'text': DEP, 'root': 1}],
            'roots': [{'path': '/app', 'local': True, 'deps': [1]}, {'path': '/app/build/packages/dep', 'local': False, 'deps': []}],
            'file': file, 'offset': offset, 'new_name': new_name}


def confirm(chk, res, oracle, label):
    seen = set()
    for v in res.violations:
        cex = v['cex']
        for why in v['why']:
            key = (why.split('accepts')[0], cex.get('kind') if 'new name' in why else None, cex.get('name') if 'new name' in why else None)
            if key in seen:
                continue
            seen.add(key)
            if 'new name' in why:
                kind = cex['kind']
                nat = oracle.ask('rename', json.dumps(fixture(0, APP.index(NEEDLE[kind]), cex['name'])))
                okc = nat.get('rename', {}).get('ok') is True
                chk.violation('rename:name-class:%s' % kind, 'bounded', '%s: %s; public API: rename of `%s` (%s) to %r -> %s' %
                              (label, why, NEEDLE[kind], kind, cex['name'], json.dumps(nat.get('rename'))[:200]), {'kind': kind, 'new_name': cex['name']}, confirmed=okc)
            elif 'locality' in why:
                fn = cex['fn']
                nat = oracle.ask('rename', json.dumps(fixture(0, APP.index('helper'), 'fresh_name')))
                if fn == 'rename':
                    r = nat.get('rename', {})
                    okc = r.get('ok') is True and any(e[0] == 1 for e in r.get('edits', []))
                else:
                    okc = nat.get('prepare', {}).get('ok') is True
                detail = json.dumps(nat)[:300]
                if not okc:
                    # the cursor inside the dependency's own file, every kind of definition
                    inside = [p_ for p_ in dependency_probes(oracle) if p_[1] == fn]
                    if inside:
                        okc = True; detail = inside[0][2]
                chk.violation('%s:locality' % fn, 'bounded', '%s: %s; public API on a symbol defined under build/packages: %s' % (label, why, detail),
                              {'fn': fn, 'symbol': 'dep_mod.helper'}, confirmed=okc)
            else:
                m = re.search(r'accepts a (\w+) definition', why)
                kind = m.group(1) if m else 'Module'
                nat = oracle.ask('rename', json.dumps(fixture(0, APP.index(NEEDLE.get(kind, 'dep_mod')), VALID.get(kind, 'fresh_name'))))
                okc = nat.get('rename' if cex['fn'] == 'rename' else 'prepare', {}).get('ok') is True
                chk.violation('%s:kind:%s' % (cex['fn'], kind), 'bounded', '%s: %s; public API: %s' % (label, why, json.dumps(nat)[:300]), {'fn': cex['fn'], 'kind': kind}, confirmed=okc)


def validate_api(chk, oracle, tables):
    """translator validation of the guard tables through the public API: every (kind, valid/invalid name, local/foreign) cell"""
    ok = 0; total = 0
    racc = tables['rename']; pacc = tables['prepare_rename']
    for kind, needle in NEEDLE.items():
        for nm, valid in ((VALID[kind], True), ('&&', False), ('two words', False), ('', False)):
            nat = oracle.ask('rename', json.dumps(fixture(0, APP.index(needle), nm)))
            native_acc = nat.get('rename', {}).get('ok') is True
            engine_acc = valid and (kind in racc)
            if kind in tables.get('rename_any_name', ()):
                continue        # a name-class violation is being reported for this kind; its probes are in the confirmation
            total += 1
            if native_acc == engine_acc:
                ok += 1
            else:
                chk.inconclusive.append('translator validation FAILED: rename of %s (%s) to %r: engine %s native %s' % (needle, kind, nm, engine_acc, nat.get('rename')))
        nat = oracle.ask('rename', json.dumps(fixture(0, APP.index(needle), VALID[kind])))
        total += 1
        if (nat.get('prepare', {}).get('ok') is True) == (kind in pacc):
            ok += 1
        else:
            chk.inconclusive.append('translator validation FAILED: prepare_rename of %s (%s): engine %s native %s' % (needle, kind, kind in pacc, nat.get('prepare')))
    chk.validated += ok
    chk.log('translator validation: %d/%d public-API probes agree with the engine\'s guard tables' % (ok, total))


DEVDEP_FILES = {
    'gleam.toml': 'name = "app"\nversion = "0.1.0"\n\n[dependencies]\ndep = "1.0"\n\n[dev-dependencies]\ndevdep = "1.0"\n',
    'src/app.gleam': 'import dep_mod\n\npub fn main() {\n  dep_mod.helper()\n}\n',
    'test/app_test.gleam': 'import devdep\n\npub fn check() {\n  devdep.helper()\n}\n',
    'build/packages/dep/gleam.toml': 'name = "dep"\nversion = "1.0.0"\n',
    'build/packages/dep/src/dep_mod.gleam': 'pub fn helper() { 1 }\n',
    'build/packages/devdep/gleam.toml': 'name = "devdep"\nversion = "1.0.0"\n',
    'build/packages/devdep/src/devdep.gleam': 'pub fn helper() { 2 }\n\npub fn other() { helper() }\n',
}


def main(tier, seed):
    global W2
    from mirsym import native
    chk = Check('C08', tier, seed)
    B = BOUNDS[tier]
    jobs = int(os.environ.get('VERIF_JOBS', '16'))
    # a) name class through the real lexer
    syn.load('dev', log=chk.log, need_oracle=False)
    for n in range(0, B['lex'] + 1):
        res, complete = explore.explore(name_factory, (n,), jobs=jobs)
        chk.add_run('name class: strings of %d bytes through the real lexer' % n, res, complete, {'bytes': n}, nontrivial_classes=lambda c: c.startswith('single:'))
        for v in res.violations:
            txt = bytes.fromhex(v['cex']['bytes']).decode('utf-8', 'replace')
            chk.violation('name-class:lexer', 'bounded', 'name %r: %s' % (txt, '; '.join(v['why'])), {'name': txt}, confirmed=True)
    syn.W.cleanup()
    # b) guards of rename / prepare_rename, under-constrained, lexer real
    W2 = World(['ide', 'syntax'], 'dev', log=chk.log)
    syn.W = W2; syn.KINDS = W2.kinds(); syn.INV = {v: k for k, v in syn.KINDS.items()}
    t0 = __import__('time').time()
    oracle = native.Oracle(native.build('oracle-ide'))
    chk.log('native oracle (public ide API) built in %.1fs' % (__import__('time').time() - t0))
    tables = {'rename': set(), 'prepare_rename': set(), 'rename_any_name': set()}
    accepted_local = {'rename': set(), 'prepare_rename': set()}
    try:
        res, complete = explore.explore(guard_factory, ('prepare_rename', 0), jobs=jobs)
        chk.add_run('prepare_rename guards (under-constrained)', res, complete, {'callees': 'havoc except Option/Result plumbing'}, nontrivial_classes=lambda c: c.startswith(('accept', 'reject')))
        confirm(chk, res, oracle, 'prepare_rename')
        for acc, kinds, loc in res.extra.get('table', []):
            if acc:
                for k in kinds:
                    tables['prepare_rename'].add(k); accepted_local['prepare_rename'].add((k, loc))
        for n in range(0, B['guard_name'] + 1):
            res, complete = explore.explore(guard_factory, ('rename', n), jobs=jobs)
            chk.add_run('rename guards (under-constrained, real lexer) name=%d bytes' % n, res, complete, {'name_bytes': n, 'callees': 'database havoc, lexer real'},
                        nontrivial_classes=lambda c: c.startswith(('accept', 'reject')))
            confirm(chk, res, oracle, 'rename with a %d-byte name' % n)
            for acc, kinds, loc in res.extra.get('table', []):
                if acc:
                    for k in kinds:
                        tables['rename'].add(k); accepted_local['rename'].add((k, loc))
            for v in res.violations:
                if v['cex'].get('name') is not None:
                    tables['rename_any_name'].add(v['cex']['kind'])
        # prepare-rename accepts a position exactly when rename with a valid name would
        if accepted_local['rename'] != accepted_local['prepare_rename']:
            only_r = sorted(accepted_local['rename'] - accepted_local['prepare_rename'], key=str); only_p = sorted(accepted_local['prepare_rename'] - accepted_local['rename'], key=str)
            nat = oracle.ask('rename', json.dumps(fixture(0, APP.index('helper'), 'fresh_name')))
            differ = (nat.get('prepare', {}).get('ok') is True) != (nat.get('rename', {}).get('ok') is True)
            chk.violation('prepare-vs-rename', 'bounded', 'prepare_rename and rename accept different (definition kind, locality) combinations: only rename %s, only prepare %s; public API on a dependency symbol: %s'
                          % (only_r, only_p, json.dumps(nat)[:300]), {'only_rename': [list(map(str, x)) for x in only_r], 'only_prepare': [list(map(str, x)) for x in only_p]}, confirmed=differ)
        validate_api(chk, oracle, tables)
        # c) the alias rule inside find_def
        res, complete = explore.explore(alias_factory, (), jobs=jobs)
        chk.add_run('find_def alias refusal (under-constrained)', res, complete, {'callees': 'havoc'}, nontrivial_classes=lambda c: c.startswith(('accepted', 'refused')))
        probes = alias_probes(oracle)
        acc = [(w, r, p, nat) for (w, r, p, nat) in probes if r or p]
        if res.violations:
            why = '; '.join(sorted({w for v in res.violations for w in v['why']}))
            if acc:
                w, r, p, nat = acc[0]
                chk.violation('find_def:alias', 'bounded', 'find_def: %s; public API, %s: rename ok=%s prepare ok=%s %s' % (why, w, r, p, json.dumps(nat)[:300]),
                              {'fn': 'find_def', 'alias_probe': w}, confirmed=True)
            else:
                chk.inconclusive.append('find_def (under-constrained): %s -- but none of the %d aliased spellings probed through the public API is accepted' % (why, len(probes)))
        elif acc:
            chk.inconclusive.append('translator validation FAILED: the engine finds the alias test on every accepting path of find_def, yet the public API accepts: %s' % acc[0][0])
        else:
            chk.validated += len(probes)
            chk.log('alias refusal: %d/%d aliased spellings are refused by rename and prepare_rename through the public API' % (len(probes), len(probes)))
        # d) no edit in a dependency, whatever the cursor is on: every kind of definition inside the dependency's own file (public API)
        inside = dependency_probes(oracle)
        reported = any(v['site'].endswith(':locality') and v.get('confirmed', True) for v in chk.viol)
        if inside and not reported:
            chk.violation('%s:locality:inside-dependency' % inside[0][1], 'probe', 'a definition of a build/packages dependency is accepted: %s' % inside[0][2], {'probe': inside[0][0], 'fn': inside[0][1]}, confirmed=True)
        elif not inside:
            chk.validated += sum(len(re.findall(r'\b%s\b' % n_, DEP)) for _, n_, _ in DEP_PROBES)
    finally:
        oracle.close(); W2.cleanup()
    # on-disk scenario (real binary): a dependency and a dev-dependency under build/packages - rename must be refused in both
    try:
        from mirsym import lsp_replay
        out, alive = lsp_replay.ondisk_session(lsp_replay.build_binary(), DEVDEP_FILES, ['src/app.gleam', 'test/app_test.gleam', 'build/packages/devdep/src/devdep.gleam', 'build/packages/dep/src/dep_mod.gleam'],
                                               [(m_, f_, (0, 8), ({'newName': 'renamed'} if m_.endswith('/rename') else None))
                                                for f_ in ('build/packages/devdep/src/devdep.gleam', 'build/packages/dep/src/dep_mod.gleam') for m_ in ('textDocument/prepareRename', 'textDocument/rename')])
        labels = ['prepareRename in the dev-dependency', 'rename in the dev-dependency', 'prepareRename in the dependency', 'rename in the dependency']
        bad = [(l, r) for l, r in zip(labels, out) if not (isinstance(r, dict) and 'error' in r)]
        if not alive:
            bad.append(('server', 'died'))
        for l, r in bad[:2]:
            chk.violation('rename:build-packages', 'fixture', 'real server on an on-disk project (dep under [dependencies], devdep under [dev-dependencies], both in build/packages): %s is accepted: %s' % (l, json.dumps(r)[:300]),
                          {'kind': 'ondisk-devdep'}, confirmed=True)
        if not bad:
            chk.validated += 4
    except Exception as e:
        chk.inconclusive.append('on-disk rename scenario failed: %s' % e)
    chk.assumptions += [
        'part b is under-constrained execution: find_def, Definition::{module,name}, Package::is_local, the usage search and every other database callee return unconstrained values; the lexer and the Option/Result plumbing are real; a path that reaches the usage search is taken as "produces edits"',
        'every under-constrained finding is replayed through the public API (ide::Analysis::{prepare_rename, rename}) on a two-package fixture (one local, one under build/packages) before it is reported',
        "part c: find_def is executed under-constrained; the obligation is that every accepting path passed an equality test between a string derived from the token under the cursor and one derived from Definition::name of the classified definition; that classify_node resolves an aliased spelling to the original definition is assumed (probed through the public API on 9 aliased spellings)",
        "assemble_graph's build/packages rule and the edit set itself (C07) are outside the claim; names longer than the bounds are outside the claim",
        'keywords = the 15 keywords of the supported grammar (as assert case const external fn if import let opaque panic pub todo type use)']
    chk.trusted += ['rustc MIR', 'mirsym interpreter (full mode for the lexer, under-constrained mode for rename/prepare_rename)', 'z3', 'logos runtime model']
    chk.level = 'model_checking'
    return chk.finish({'guard_tables': {k: sorted(v) for k, v in tables.items()}})


def replay(path):
    from mirsym import native
    d = json.load(open(path))
    oracle = native.Oracle(native.build('oracle-ide'))
    cex = d['cex']
    if cex.get('fn') == 'find_def':
        print(json.dumps([(w, r, p_) for (w, r, p_, nat) in alias_probes(oracle)], indent=1))
    elif 'new_name' in cex:
        print(json.dumps(oracle.ask('rename', json.dumps(fixture(0, APP.index(NEEDLE[cex['kind']]), cex['new_name'])))))
    else:
        print(json.dumps(oracle.ask('rename', json.dumps(fixture(0, APP.index('helper'), 'fresh_name')))))
    return 0
