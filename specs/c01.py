"""C01 — the syntax tree is lossless for every input text (bounded, solver-decided)."""
import os, json
from mirsym import native
from . import syn, synspecs, synrun
from .runner import Check

BOUNDS = {
    # raw = token kinds incl. the four trivia kinds (WHITESPACE..=ERROR, 75 kinds): exercises the trivia re-interleaving
    'quick':    {'raw': 3, 'raw_ctx': 1, 'lex': 6, 'pipeline': 2, 'deep': (1, 3)},
    'thorough': {'raw': 4, 'raw_ctx': 2, 'lex': 8, 'pipeline': 3, 'deep': (2, 3)},
}
# contexts that matter for trivia placement: doc comments before fn / const / type / variant vs. other nodes
RAW_CONTEXTS = [
    ('before-fn', []), ('in-block', synrun.BLOCK), ('in-type', ['TYPE_KW', 'U_IDENT', 'L_BRACE']),
    ('after-const', ['CONST_KW', 'IDENT', 'EQ', 'INTEGER']), ('after-fn', ['FN_KW', 'IDENT', 'L_PAREN', 'R_PAREN', 'L_BRACE', 'R_BRACE']),
    ('in-variant-fields', ['TYPE_KW', 'U_IDENT', 'L_BRACE', 'U_IDENT', 'L_PAREN']), ('import', ['IMPORT_KW', 'IDENT']),
    ('in-case', synrun.BLOCK + ['CASE_KW', 'IDENT', 'L_BRACE']),
]
SUFFIXES = [[], ['FN_KW', 'IDENT', 'L_PAREN', 'R_PAREN', 'L_BRACE', 'R_BRACE'], ['R_BRACE']]


def main(tier, seed):
    chk = Check('C01', tier, seed)
    B = BOUNDS[tier]
    jobs = int(os.environ.get('VERIF_JOBS', '16'))
    syn.load('dev', log=chk.log)
    oracle = native.Oracle(syn.ORACLE_BIN)
    sp = syn.Spellings(oracle)
    props = ['C01']
    synrun.token_suite(chk, oracle, sp, jobs, props, B['raw'], 0, lo='WHITESPACE', hi='ERROR', raw=True)
    # trivia between concrete neighbours: prefix + k symbolic raw tokens + suffix
    from mirsym import explore
    for name, prefix in RAW_CONTEXTS:
        for si, suffix in enumerate(SUFFIXES):
            if not prefix and not suffix:
                continue
            k = B['raw_ctx'] + (1 if tier == 'quick' and False else 0) + 1
            res, complete = explore.explore(raw_ctx_factory, (k, tuple(prefix), tuple(suffix)), jobs=jobs)
            chk.add_run('raw ctx %s +%d +suffix%d' % (name, k, si), res, complete,
                        {'symbolic_raw_tokens': k, 'alphabet': 'WHITESPACE..=ERROR (75 kinds)', 'prefix': prefix, 'suffix': suffix},
                        nontrivial_classes=lambda c: c != 'ok-clean')
            synrun.confirm_violations(chk, res, oracle, sp, 'raw context %s' % name, props, raw=True)
            synrun.validate_samples(chk, res, oracle, sp, 'raw ctx %s/%d' % (name, si), raw=True)
    synrun.deep_suite(chk, oracle, sp, jobs, props, B['deep'][0], B['deep'][1])
    synrun.lexer_suite(chk, oracle, sp, jobs, props, B['lex'], B['pipeline'])
    synrun.flat_runs(chk, oracle, props)
    oracle.close()
    chk.assumptions += synrun.SYN_ASSUMPTIONS + ['texts with more raw tokens than the bound, and tokens longer than the lexer bound, are outside the claim - except along 13 families of flat repetition pumped to lengths around 2^7, 2^8, 2^15 and 2^16 and parsed natively (executed code, not a solver verdict): counters and buffers that saturate or wrap there']
    chk.trusted += synrun.SYN_TRUSTED
    syn.W.cleanup()
    return chk.finish({'unrealisable_counterexamples': chk.extra.get('unrealisable', 0)})


def _ws(seq):
    """raw token vectors need the whitespace that keeps adjacent tokens apart in a real text"""
    out = []
    for i, t in enumerate(seq):
        if i:
            out.append('WHITESPACE')
        out.append(t)
    return out


def raw_ctx_factory(k, prefix, suffix):
    return synspecs.TokenSpec(k, lo='WHITESPACE', hi='ERROR', prefix=_ws(prefix), suffix=_ws(suffix))


def replay(path):
    d = json.load(open(path))
    syn.load('dev', log=lambda m: None)
    oracle = native.Oracle(syn.ORACLE_BIN)
    c = d['cex']
    if c.get('kind') == 'flat-run':
        text = c['prefix'] + c['sep'].join([c['unit']] * c['count']) + c['suffix']
        r = oracle.ask('roundtrip', text)
        print(json.dumps({'family': c['family'], 'count': c['count'], 'bytes': len(text), 'native': r}, indent=1))
        return 0 if (isinstance(r, dict) and r.get('text_ok') is True and r.get('contiguous') is True) else 1
    nv = synrun.native_verdict(oracle, c['text'])
    print(json.dumps({'input': c['text'], 'native_verdict': nv}, indent=1))
    return 1 if nv else 0
