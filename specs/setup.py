"""setup: warm the dependency caches in the scratch directory (everything is rebuilt on demand anyway)."""
import os, sys, time, shutil
from mirsym import dump, native


def main():
    t0 = time.time()
    rundir = dump.scratch('run-setup')
    for crate in ('syntax', 'ide', 'glas'):
        for prof in ('dev', 'release'):
            try:
                d = dump.dump(crate, prof, verbose=False, expanded=False, rundir=rundir)
                print('setup: MIR dump %s/%s ok (%.1fs)' % (crate, prof, d['secs']), flush=True)
            except Exception as e:
                print('setup: MIR dump %s/%s failed: %s' % (crate, prof, e), flush=True)
    shutil.rmtree(rundir, ignore_errors=True)
    for name in sorted(os.listdir(native.NATIVE)):
        if os.path.isdir(os.path.join(native.NATIVE, name)) and os.path.exists(os.path.join(native.NATIVE, name, 'Cargo.toml.in')):
            try:
                extra = None
                if name == 'oracle-glas':
                    from specs import vfsrun
                    extra = vfsrun.overlay_files()
                native.build(name, extra_files=extra)
                print('setup: built %s' % name, flush=True)
            except Exception as e:
                print('setup: building %s failed: %s' % (name, e), flush=True)
    print('setup done in %.0fs' % (time.time() - t0))
    return 0
