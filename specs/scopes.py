"""Kernel of C05 / C18: the real MIR of ExprScopes::{root_scope, add_bindings, traverse_expr, traverse_expr_stmts,
scope_for_expr, scope_chain, resolve_name_in_scope, entries} and Resolver::{resolve_name, values_names_in_scope}
(crates/ide/src/def) on function bodies built directly (arena contents as data) whose identifiers are symbolic."""
import re
import z3
from mirsym.world import World
from mirsym.values import *
from mirsym import models

W = None


def load(profile='dev', log=print):
    global W
    W = World(['ide'], profile, log=log)
    return W


def body(suffix_re):
    c = [b for n, b in W.crates['ide'].items() if re.search(suffix_re, n)]
    if len(c) != 1:
        raise KeyError('%d bodies match %s: %s' % (len(c), suffix_re, [b.name for b in c][:4]))
    return c[0]


class ArenaV:
    __slots__ = ('items',)

    def __init__(s, items):
        s.items = items


class ArenaMapV:
    __slots__ = ('m',)

    def __init__(s):
        s.m = {}


def idx(i):
    return IntV(i, 32, 0)


def smol(x):
    return Agg('struct', 'SmolStr', None, [x])


def smol_eq(it, a, b):
    a, b = models.deref(a), models.deref(b)
    x, y = a.fields[0], b.fields[0]
    if isinstance(x, StrV) and isinstance(y, StrV):
        return BoolV(x.s == y.s)
    if isinstance(x, IntV) and isinstance(y, IntV):
        return it.binop('Eq', x, y)
    return BoolV(False)       # pool names (lowercase identifiers) never equal the capitalised built-in names


def install(it):
    M = it.models; TM = it.trait_models
    M['<Arena as Default>::default'] = M['Arena::new'] = lambda it_, c, a: ArenaV([])
    M['<ArenaMap as Default>::default'] = M['ArenaMap::new'] = lambda it_, c, a: ArenaMapV()

    def alloc(it_, c, a):
        ar = models.deref(a[0]); ar.items.append(a[1]); return idx(len(ar.items) - 1)
    M['Arena::alloc'] = alloc

    def aindex(it_, c, a):
        ar = models.deref(a[0]); i = a[1]
        if isinstance(ar, ArenaMapV):
            if i.v not in ar.m:
                raise Panic('arena-map-index', 'no entry for id %d' % i.v, it_.stack)
            return RefV(ar.m, i.v)
        if i.v >= len(ar.items):
            raise Panic('index-out-of-bounds', 'arena index %d len %d' % (i.v, len(ar.items)), it_.stack)
        return RefV(ar.items, i.v)
    M['<Arena as Index>::index'] = M['<Arena as IndexMut>::index_mut'] = aindex
    M['<ArenaMap as Index>::index'] = aindex

    def am_insert(it_, c, a):
        am = models.deref(a[0]); old = am.m.get(a[1].v); am.m[a[1].v] = a[2]
        return none() if old is None else some(old)
    M['ArenaMap::insert'] = am_insert

    def am_get(it_, c, a):
        am = models.deref(a[0])
        return some(RefV(am.m, a[1].v)) if a[1].v in am.m else none()
    M['ArenaMap::get'] = am_get
    M['Arena::shrink_to_fit'] = lambda it_, c, a: UNIT

    def arena_iter(it_, c, a):
        ar = models.deref(a[0])
        if not isinstance(ar, ArenaV):
            return NotImplemented
        return PyIter((tup(idx(i), RefV(ar.items, i)) for i in range(len(ar.items))))
    M['Arena::iter'] = arena_iter
    # IdxRange<Pattern> (lambda parameters): modelled as a python range of raw ids
    M['<IdxRange as Clone>::clone'] = lambda it_, c, a: models.deref(a[0])
    TM_into = TM.get(('IntoIterator', 'into_iter'))

    def into_iter(it_, c, a):
        v = a[0]
        if isinstance(v, Agg) and v.name == 'IdxRange':
            lo, hi = v.fields[0].v, v.fields[1].v
            return PyIter((idx(i) for i in range(lo, hi)))
        return TM_into(it_, c, a)
    TM[('IntoIterator', 'into_iter')] = into_iter
    M['<SmolStr as Clone>::clone'] = lambda it_, c, a: models.deref(a[0])
    M['<SmolStr as PartialEq>::eq'] = lambda it_, c, a: smol_eq(it_, a[0], a[1])
    M['<SmolStr as PartialEq>::ne'] = lambda it_, c, a: it_.rvalue(('unop', 'Not', ('const', 'true')), {}) if False else _not(it_, smol_eq(it_, a[0], a[1]))
    M['<Arc as Deref>::deref'] = lambda it_, c, a: a[0]
    M['<Arc as Clone>::clone'] = lambda it_, c, a: models.deref(a[0])
    M['Arc::new'] = lambda it_, c, a: a[0]


def _not(it, b):
    return BoolV(not b.v) if not b.sym() else BoolV(z3.Not(b.v))


# ------------------------------------------------------------------------------------------------ mini AST -> Body

class Builder:
    """mini AST (python tuples) -> Body value; records binders, uses and the reference visibility of binders at each use"""

    def __init__(self, pool, it):
        self.exprs = []; self.patterns = []
        self.names = []          # symbolic name terms, one per binder / use
        self.binders = {}        # pattern id -> name term
        self.uses = []           # (expr id, name term, [visible binder pattern ids, innermost first])
        self.pool = pool; self.it = it
        self.groups = []         # lists of binder pattern ids that must have pairwise distinct names (one pattern / one parameter list)

    def fresh_name(self, tag):
        v = z3.BitVec('%s%d' % (tag, len(self.names)), 8)
        self.names.append(v)
        return v

    def E(self, variant, fields):
        self.exprs.append(Agg('enum', 'def::module::Expr', variant, fields)); return len(self.exprs) - 1

    def P(self, variant, fields):
        self.patterns.append(Agg('enum', 'def::module::Pattern', variant, fields)); return len(self.patterns) - 1

    # patterns: returns (pattern id, [binder pattern ids in the order add_bindings should see them])
    def pattern(self, p):
        k = p[0]
        if k == 'pvar':
            nm = self.fresh_name('b'); pid = self.P('Variable', [smol(IntV(nm, 8, 0))]); self.binders[pid] = nm
            return pid, [pid]
        if k in ('phole', 'plit', 'pmissing'):
            return self.P({'phole': 'Hole', 'plit': 'Literal', 'pmissing': 'Missing'}[k], [IntV(0, 16, 0)] if k == 'plit' else []), []
        if k in ('ptuple', 'plist', 'palt'):
            subs = [self.pattern(x) for x in p[1]]
            pid = self.P({'ptuple': 'Tuple', 'plist': 'List', 'palt': 'AlternativePattern'}[k], [VecV([idx(s[0]) for s in subs])])
            return pid, [b for s in subs for b in s[1]]
        if k == 'pspread':
            if p[1]:
                nm = self.fresh_name('b'); pid = self.P('Spread', [some(smol(IntV(nm, 8, 0)))]); self.binders[pid] = nm
                return pid, [pid]
            return self.P('Spread', [none()]), []
        if k == 'pvariant':
            subs = [self.pattern(x) for x in p[1]]
            pid = self.P('VariantRef', [smol(StrV('Ctor')), none(), VecV([tup(none(), idx(s[0])) for s in subs])])
            return pid, [b for s in subs for b in s[1]]
        if k == 'pas':
            inner = self.pattern(p[1]); asn = self.pattern(('pvar',))
            pid = self.P('AsPattern', [idx(inner[0]), some(idx(asn[0]))])
            return pid, inner[1] + asn[1]
        if k == 'pconcat':
            inner = self.pattern(p[1])
            return self.P('Concat', [idx(inner[0])]), inner[1]
        raise ValueError(p)

    # expressions: env = visible binder pattern ids, innermost first
    def expr(self, e, env):
        k = e[0]
        if k == 'var':
            nm = self.fresh_name('u'); eid = self.E('Variable', [smol(IntV(nm, 8, 0))])
            self.uses.append((eid, nm, list(env)))
            return eid
        if k == 'lit':
            return self.E('Literal', [IntV(0, 16, 0)])
        if k == 'block':
            stmts = []; cur = list(env)
            for s in e[1]:
                if s[0] == 'let':
                    body_e = self.expr(s[2], cur)          # the initialiser does not see the new binder
                    pid, bs = self.pattern(s[1]); self.groups.append(bs)
                    stmts.append(Agg('enum', 'def::module::Statement', 'Let', [idx(pid), idx(body_e)]))
                    cur = list(reversed(bs)) + cur if False else bs + cur
                elif s[0] == 'use':
                    ex = self.expr(s[2], cur)
                    subs = [self.pattern(x) for x in s[1]]; bs = [b for x in subs for b in x[1]]; self.groups.append(bs)
                    stmts.append(Agg('enum', 'def::module::Statement', 'Use', [VecV([idx(x[0]) for x in subs]), idx(ex)]))
                    cur = bs + cur
                else:
                    stmts.append(Agg('enum', 'def::module::Statement', 'Expr', [idx(self.expr(s[1], cur))]))
            return self.E('Block', [VecV(stmts)])
        if k == 'call':
            f = self.expr(e[1], env); args = [self.expr(a, env) for a in e[2]]
            return self.E('Call', [idx(f), VecV([tup(none(), idx(a)) for a in args])])
        if k in ('binary', 'pipe'):
            l = self.expr(e[1], env); r = self.expr(e[2], env)
            return self.E('Binary', [idx(l), idx(r), none()]) if k == 'binary' else self.E('Pipe', [idx(l), idx(r)])
        if k in ('tuple', 'list'):
            xs = [self.expr(x, env) for x in e[1]]
            return self.E('Tuple' if k == 'tuple' else 'List', [VecV([idx(x) for x in xs])])
        if k == 'field':
            b = self.expr(e[1], env); lab = self.E('Literal', [IntV(0, 16, 0)])
            return self.E('FieldAccess', [smol(StrV('x')), idx(b), idx(lab), smol(StrV('f'))])
        if k == 'lambda':
            lo = len(self.patterns)
            subs = [self.pattern(x) for x in e[1]]; bs = [b for x in subs for b in x[1]]; self.groups.append(bs)
            # lambda parameters are an IdxRange: they must be allocated contiguously and each parameter is ONE pattern id
            pids = [x[0] for x in subs]
            hi = len(self.patterns)
            bd = self.expr(e[2], bs + env)
            rng = Agg('struct', 'IdxRange', None, [IntV(min(pids) if pids else lo, 32, 0), IntV((max(pids) + 1) if pids else lo, 32, 0)])
            self.lambda_ok = all(p[0] in ('pvar', 'phole') for p in e[1])
            return self.E('Lambda', [idx(bd), rng])
        if k == 'case':
            subj = [self.expr(x, env) for x in e[1]]
            clauses = []
            for pats, ce in e[2]:
                subs = [self.pattern(x) for x in pats]; bs = [b for x in subs for b in x[1]]; self.groups.append(bs)
                cex = self.expr(ce, bs + env)
                clauses.append(Agg('struct', 'Clause', None, [VecV([idx(x[0]) for x in subs]), idx(cex)]))
            return self.E('Case', [VecV([idx(x) for x in subj]), VecV(clauses)])
        raise ValueError(e)

    def function(self, params, body_e):
        subs = [self.pattern(p) for p in params]; bs = [b for x in subs for b in x[1]]; self.groups.append(bs)
        be = self.expr(body_e, bs)
        bodyv = Agg('struct', 'Body', None, [ArenaV(self.patterns), ArenaV(self.exprs), VecV([tup(idx(x[0]), none(), none()) for x in subs]), none(), idx(be)])
        return bodyv, [x[0] for x in subs], be

    def constraints(self):
        cs = [z3.ULT(n, self.pool) for n in self.names]
        for g in self.groups:
            for i in range(len(g)):
                for j in range(i + 1, len(g)):
                    cs.append(self.binders[g[i]] != self.binders[g[j]])       # Gleam rejects duplicate names in one pattern / parameter list
        return cs


V = ('var',)
TEMPLATES = {
    # let chain with shadowing; initialiser must not see its own binder
    'let-chain': (([('pvar',)], ('block', [('let', ('pvar',), V), ('let', ('pvar',), ('binary', V, V)), ('expr', V)]))),
    # nested block: bindings do not escape
    'nested-block': (([('pvar',)], ('block', [('let', ('pvar',), ('block', [('let', ('pvar',), V), ('expr', V)])), ('expr', ('call', V, [V]))]))),
    # case clauses with tuple / list / spread / as patterns
    'case': (([('pvar',)], ('block', [('expr', ('case', [V], [([('ptuple', [('pvar',), ('phole',)])], V), ([('pas', ('plist', [('pvar',), ('pspread', True)]))], ('tuple', [V, V]))])), ('expr', V)]))),
    # lambda and use
    'lambda-use': (([('pvar',)], ('block', [('let', ('pvar',), ('lambda', [('pvar',)], ('binary', V, V))), ('use', [('pvar',)], ('call', V, [])), ('expr', ('pipe', V, V))]))),
    # constructor pattern, alternative pattern, concat
    'patterns': (([('pvar',), ('pvar',)], ('block', [('let', ('pvariant', [('pvar',), ('pconcat', ('pvar',))]), V), ('expr', ('case', [V], [([('palt', [('pvar',), ('plit',)])], V)])), ('expr', ('list', [V]))]))),
    # no parameters: the function's root scope is empty when the first let / block is reached
    'no-params': (([], ('block', [('let', ('pvar',), ('block', [('let', ('pvar',), V), ('expr', V)])), ('expr', V), ('let', ('pvar',), V), ('expr', V)]))),
    'no-params-clause': (([], ('block', [('expr', ('case', [('lit',)], [([('phole',)], ('block', [('let', ('pvar',), V), ('expr', V)]))])), ('use', [('pvar',)], V), ('expr', V)]))),
    # the initialiser of `let _ = e` / `let _x = e`: its binders must be visible inside it (the discard pattern is also an expression node)
    'let-discard': (([('pvar',)], ('block', [('let', ('phole',), ('call', V, [('lambda', [('pvar',)], V)])), ('let', ('phole',), ('block', [('let', ('pvar',), V), ('expr', V)])), ('expr', V)]))),
    'lambda-no-params': (([('pvar',)], ('block', [('let', ('pvar',), ('lambda', [], ('block', [('let', ('pvar',), V), ('expr', V)]))), ('expr', ('call', V, [V]))]))),
}


def build(it, template, pool):
    b = Builder(pool, it)
    params, be = TEMPLATES[template]
    bodyv, param_pids, body_eid = b.function(params, be)
    return b, bodyv, param_pids, body_eid


class ScopeSpec:
    """C05 kernel: for every Variable expression of the template, the real scope construction + lookup returns the binder
    the reference rules prescribe (innermost visible binder with that name), for every assignment of names from the pool"""

    def __init__(self, template, pool):
        self.template = template; self.pool = pool

    def make_interp(self):
        it = W.interp('ide')
        install(it)
        b, bodyv, pp, be = build(it, self.template, self.pool)
        for c in b.constraints():
            it.solver.add(c)
        self.names = b.names
        return it

    def run_path(self, it):
        b, bodyv, param_pids, body_eid = build(it, self.template, self.pool)
        scopes = Agg('struct', 'ExprScopes', None, [ArenaV([]), ArenaMapV()])
        cell = [scopes]; bcell = [bodyv]
        root = it.run_body(body(r'^def::scope::<impl at [^>]*>::root_scope$'), [RefV(cell, 0)])
        for pid in param_pids:
            it.run_body(body(r'^def::scope::<impl at [^>]*>::add_bindings$'), [RefV(cell, 0), RefV(bcell, 0), root, RefV([idx(pid)], 0)])
        it.run_body(body(r'^def::scope::<impl at [^>]*>::traverse_expr$'), [RefV(cell, 0), RefV(bcell, 0), idx(body_eid), root])
        bad = []; results = []
        for (eid, nm, visible) in b.uses:
            sc = it.run_body(body(r'^def::scope::<impl at [^>]*>::scope_for_expr$'), [RefV(cell, 0), idx(eid)])
            if sc.variant != 'Some':
                bad.append('C05: expression %d has no scope' % eid); continue
            scope_id = models.deref(sc.fields[0])
            r = it.run_body(body(r'^def::scope::<impl at [^>]*>::resolve_name_in_scope$'), [RefV(cell, 0), scope_id, RefV([smol(IntV(nm, 8, 0))], 0)])
            actual = None
            if r.variant == 'Some':
                entry = models.deref(r.fields[0])
                actual = entry.fields[1].v            # ScopeEntry { name, pat }
            results.append((eid, actual))
            # reference: innermost visible binder with that name
            if actual is None:
                cond = z3.Or([b.binders[p] == nm for p in visible]) if visible else z3.BoolVal(False)
                what = 'resolves to no local although a visible binder has that name'
            elif actual not in visible:
                bad.append('C05: the identifier of expression %d resolves to pattern %d which is not visible there (bindings escaped their construct); visible: %s' % (eid, actual, visible))
                continue
            else:
                k = visible.index(actual)
                cond = z3.Not(z3.And([b.binders[actual] == nm] + [b.binders[p] != nm for p in visible[:k]]))
                what = 'resolves to pattern %d but an inner binder with the same name is visible (or the names differ)' % actual
            rr, m = it.check(cond)
            if rr == z3.sat:
                names = {('u%d' % i if i >= 0 else ''): 0 for i in []}
                assign = [m.eval(n, model_completion=True).as_long() for n in b.names]
                bad.append('C05: template %s, expression %d %s; names %s, visible binders (innermost first) %s' % (self.template, eid, what, assign, visible))
        m = it.get_model()
        assign = [m.eval(n, model_completion=True).as_long() for n in b.names]
        nres = sum(1 for _, a in results if a is not None)
        rec = {'cls': 'resolved:%d/%d' % (nres, len(results)), 'ok': True, 'sample': {'template': self.template, 'names': assign, 'resolution(expr,pattern)': results}}
        if bad:
            rec.update({'cls': 'violation', 'ok': False, 'why': bad[:3], 'cex': {'template': self.template, 'names': assign}})
        return rec

    def on_panic(self, it, e):
        return {'cls': 'panic:' + e.kind, 'ok': False, 'why': ['C05/C10: scope construction panics: %s' % e], 'cex': {'template': self.template, 'panic': str(e)}}


def scope_factory(template, pool):
    return ScopeSpec(template, pool)


# ------------------------------------------------------------------------------------------------ Gleam text of a template (native replay)

NAMES = 'abcdefgh'


def render_program(template, assign):
    """Gleam source of the template with concrete names; returns (text, {pattern id: offset of its name}, [(use index, offset)])
    ids are assigned in the same order as Builder does (patterns and uses are numbered in construction order)."""
    params, be = TEMPLATES[template]
    out = []; pos = [0]
    binders = {}; uses = []
    counters = {'p': 0, 'n': 0}

    def emit(s):
        out.append(s); pos[0] += len(s.encode())

    def name():
        i = counters['n']; counters['n'] += 1
        return NAMES[assign[i]]

    # Builder numbering: patterns get ids in creation order (children before parents for composite patterns)
    def pat(p):
        k = p[0]
        if k == 'pvar':
            nm = name(); off = pos[0]; emit(nm); pid = counters['p']; counters['p'] += 1; binders[pid] = off; return
        if k == 'phole':
            emit('_'); counters['p'] += 1; return
        if k == 'plit':
            emit('1'); counters['p'] += 1; return
        if k in ('ptuple', 'plist', 'palt'):
            emit({'ptuple': '#(', 'plist': '[', 'palt': ''}[k])
            for i, x in enumerate(p[1]):
                if i:
                    emit(' | ' if k == 'palt' else ', ')
                pat(x)
            emit({'ptuple': ')', 'plist': ']', 'palt': ''}[k]); counters['p'] += 1; return
        if k == 'pspread':
            emit('..')
            if p[1]:
                nm = name(); off = pos[0]; emit(nm); binders[counters['p']] = off
            counters['p'] += 1; return
        if k == 'pvariant':
            emit('Ctor(')
            for i, x in enumerate(p[1]):
                if i:
                    emit(', ')
                pat(x)
            emit(')'); counters['p'] += 1; return
        if k == 'pas':
            pat(p[1]); emit(' as '); pat(('pvar',)); counters['p'] += 1; return
        if k == 'pconcat':
            emit('"s" <> '); pat(p[1]); counters['p'] += 1; return
        raise ValueError(p)

    def expr(e):
        k = e[0]
        if k == 'var':
            nm = name(); uses.append(pos[0]); emit(nm); return
        if k == 'lit':
            emit('1'); return
        if k == 'block':
            emit('{ ')
            for s in e[1]:
                if s[0] == 'let':
                    # Builder creates the initialiser before the pattern: names are numbered in that order
                    buf_start = len(out); p0 = pos[0]
                    emit('let ')
                    # render initialiser first into a temporary to keep the name numbering of Builder
                    save_out, save_pos = list(out), pos[0]
                    tmp = []
                    out.clear(); pos[0] = 0
                    # initialiser offsets are relative; fix them after we know the pattern text length
                    use_mark = len(uses); before_b = set(binders)
                    expr(s[2]); init_txt = ''.join(out); init_uses = uses[use_mark:]; del uses[use_mark:]
                    init_b = [k2 for k2 in binders if k2 not in before_b]
                    out.clear(); out.extend(save_out); pos[0] = save_pos
                    pat(s[1]); emit(' = ')
                    base = pos[0]
                    uses.extend(u + base for u in init_uses)
                    for k2 in init_b:
                        binders[k2] += base
                    emit(init_txt); emit(' ')
                elif s[0] == 'use':
                    save_out, save_pos = list(out), pos[0]
                    out.clear(); pos[0] = 0
                    use_mark = len(uses); before_b = set(binders)
                    expr(s[2]); init_txt = ''.join(out); init_uses = uses[use_mark:]; del uses[use_mark:]
                    init_b = [k2 for k2 in binders if k2 not in before_b]
                    out.clear(); out.extend(save_out); pos[0] = save_pos
                    emit('use ')
                    for i, x in enumerate(s[1]):
                        if i:
                            emit(', ')
                        pat(x)
                    emit(' <- ')
                    base = pos[0]
                    uses.extend(u + base for u in init_uses)
                    for k2 in init_b:
                        binders[k2] += base
                    emit(init_txt); emit(' ')
                else:
                    expr(s[1]); emit(' ')
            emit('}'); return
        if k == 'call':
            expr(e[1]); emit('(')
            for i, a in enumerate(e[2]):
                if i:
                    emit(', ')
                expr(a)
            emit(')'); return
        if k in ('binary', 'pipe'):
            expr(e[1]); emit(' + ' if k == 'binary' else ' |> '); expr(e[2]); return
        if k in ('tuple', 'list'):
            emit('#(' if k == 'tuple' else '[')
            for i, x in enumerate(e[1]):
                if i:
                    emit(', ')
                expr(x)
            emit(')' if k == 'tuple' else ']'); return
        if k == 'lambda':
            emit('fn(')
            for i, x in enumerate(e[1]):
                if i:
                    emit(', ')
                pat(x)
            emit(') { '); expr(e[2]); emit(' }'); return
        if k == 'case':
            emit('case ')
            for i, x in enumerate(e[1]):
                if i:
                    emit(', ')
                expr(x)
            emit(' { ')
            for pats, ce in e[2]:
                for i, x in enumerate(pats):
                    if i:
                        emit(', ')
                    pat(x)
                emit(' -> '); expr(ce); emit(' ')
            emit('}'); return
        raise ValueError(e)
    emit('type T { Ctor(Int, String) }\nfn main(')
    for i, p in enumerate(params):
        if i:
            emit(', ')
        pat(p)
    emit(') ')
    expr(be)
    emit('\n')
    return ''.join(out), binders, uses


# ------------------------------------------------------------------------------------------------ C18 kernel: completion walk == resolver

def install_c18(it):
    M = it.models

    def entry(it_, c, a):
        mp = models.deref(a[0]); key = a[1]
        j = models._map_find(it_, mp, key)
        if j is None:
            return Agg('enum', 'Entry', 'Vacant', [tup(RefV([mp], 0), key)])
        return Agg('enum', 'Entry', 'Occupied', [tup(RefV([mp], 0), IntV(j, 64, 0))])
    M['IndexMap::entry'] = entry

    def vacant_insert(it_, c, a):
        e = a[0]; mp = models.deref(e.fields[0]); key = e.fields[1]
        mp.kv.append((key, a[1]))
        return RefV(models._KVRef(mp, len(mp.kv) - 1), 1)
    M['VacantEntry::insert'] = vacant_insert

    def occupied_insert(it_, c, a):
        e = models.deref(a[0]); mp = models.deref(e.fields[0]); j = e.fields[1].v
        old = mp.kv[j][1]; mp.kv[j] = (mp.kv[j][0], a[1])
        return old
    M['OccupiedEntry::insert'] = occupied_insert
    M['<&str as Into>::into'] = M['<str as Into>::into'] = lambda it_, c, a: smol(models.deref(a[0])) if isinstance(models.deref(a[0]), StrV) else NotImplemented
    M['<SmolStr as From>::from'] = lambda it_, c, a: smol(models.deref(a[0]))
    old_keq = models._key_eq

    def key_eq(it_, k1, k2):
        a, b = models.deref(k1), models.deref(k2)
        if isinstance(a, Agg) and isinstance(b, Agg) and a.name == 'SmolStr' and b.name == 'SmolStr':
            return it_.choose_bool(smol_eq(it_, a, b))
        return old_keq(it_, k1, k2)
    models._key_eq = key_eq


class CompletionSpec(ScopeSpec):
    """C18 kernel: at every identifier position of the template, Resolver::values_names_in_scope lists a name of the pool
    exactly when Resolver::resolve_name finds a non-built-in definition for it, and both name the same definition.
    The module scope holds one function and one constant whose names come from the same pool (collisions with locals)."""

    def make_interp(self):
        it = ScopeSpec.make_interp(self)
        install_c18(it)
        self.mod_names = [z3.BitVec('m0', 8), z3.BitVec('m1', 8)]
        for m in self.mod_names:
            it.solver.add(z3.ULT(m, self.pool))
        it.solver.add(self.mod_names[0] != self.mod_names[1])
        return it

    def run_path(self, it):
        b, bodyv, param_pids, body_eid = build(it, self.template, self.pool)
        scopes = Agg('struct', 'ExprScopes', None, [ArenaV([]), ArenaMapV()])
        cell = [scopes]; bcell = [bodyv]
        root = it.run_body(body(r'^def::scope::<impl at [^>]*>::root_scope$'), [RefV(cell, 0)])
        for pid in param_pids:
            it.run_body(body(r'^def::scope::<impl at [^>]*>::add_bindings$'), [RefV(cell, 0), RefV(bcell, 0), root, RefV([idx(pid)], 0)])
        it.run_body(body(r'^def::scope::<impl at [^>]*>::traverse_expr$'), [RefV(cell, 0), RefV(bcell, 0), idx(body_eid), root])
        values = MapV()
        values.kv.append((smol(IntV(self.mod_names[0], 8, 0)), Agg('enum', 'def::hir_def::ModuleDefId', 'FunctionId', [Agg('struct', 'FunctionId', None, [IntV(7, 32, 0)])])))
        values.kv.append((smol(IntV(self.mod_names[1], 8, 0)), Agg('enum', 'def::hir_def::ModuleDefId', 'ModuleConstant', [Agg('struct', 'ModuleConstantId', None, [IntV(8, 32, 0)])])))
        modscope = Agg('struct', 'ModuleScope', None, [values, MapV(), MapV(), MapV()])
        owner = Agg('struct', 'FunctionId', None, [IntV(1, 32, 0)])
        bad = []; nchecked = 0
        for (eid, nm, visible) in b.uses:
            sc = it.run_body(body(r'^def::scope::<impl at [^>]*>::scope_for_expr$'), [RefV(cell, 0), idx(eid)])
            if sc.variant != 'Some':
                continue
            scope_id = models.deref(sc.fields[0])
            chain = []
            cur = scope_id
            while cur is not None:
                chain.append(cur)
                par = cell[0].fields[0].items[cur.v].fields[0]
                cur = par.fields[0] if par.variant == 'Some' else None
            rs = VecV([Agg('enum', 'def::resolver::Scope', 'ExprScope', [Agg('struct', 'ExprScope', None, [dcopy(owner), cell[0], s])]) for s in reversed(chain)])
            resolver = Agg('struct', 'Resolver', None, [rs, modscope])
            names_map = it.run_body(body(r'^def::resolver::<impl at [^>]*>::values_names_in_scope$'), [RefV([resolver], 0)])
            for n in range(self.pool):
                key = smol(IntV(n, 8, 0))
                listed = None
                for (k, v) in names_map.kv:
                    if it.choose_bool(smol_eq(it, k, key)):
                        listed = v; break
                res = it.run_body(body(r'^def::resolver::<impl at [^>]*>::resolve_name$'), [RefV([resolver], 0), RefV([key], 0)])
                found = res.fields[0] if res.variant == 'Some' else None
                if found is not None and found.variant == 'BuiltIn':
                    found = None
                nchecked += 1
                if (listed is None) != (found is None):
                    bad.append('C18: at expression %d the name #%d is %s by the completion walk but %s by the resolver' %
                               (eid, n, 'offered' if listed is not None else 'not offered', 'resolves' if found is not None else 'does not resolve'))
                elif listed is not None and repr(listed) != repr(found):
                    bad.append('C18: at expression %d the completion walk and the resolver name different definitions for name #%d: %r vs %r' % (eid, n, listed, found))
        m = it.get_model()
        assign = [m.eval(x, model_completion=True).as_long() for x in b.names]
        mods = [m.eval(x, model_completion=True).as_long() for x in self.mod_names]
        rec = {'cls': 'ok', 'ok': True, 'sample': {'template': self.template, 'names': assign, 'module_names': mods, 'name_lookups_compared': nchecked}}
        if bad:
            rec.update({'cls': 'violation', 'ok': False, 'why': bad[:3], 'cex': {'template': self.template, 'names': assign, 'module_names': mods}})
        return rec


def completion_factory(template, pool):
    return CompletionSpec(template, pool)
