"""C06 kernels (under-constrained database): the usage search loop, the search scope, and the assembly of references.

(a) FindUsages::search on its real MIR.  The scope holds two files; the substring finder yields up to K candidate offsets per file
    (symbolic, ascending); rowan's token lookup, the cast to a name-like node and classify_node are answered from symbolic decision
    variables drawn up front (one set per candidate).  Solver-decided obligation: the sink receives (file, range of the node) for a
    candidate IF AND ONLY IF the candidate lies in the file's search range, a token at that offset is spelled with the search name,
    its parent casts to Name / NameRef / TypeName / Label and classifies as the target definition; each at most once, no other calls.
(b) Definition::search_scope / SearchScope::package_graph: a local is searched in the file of its module only, everything else in
    every module file of every package of the graph; a definition without module is searched nowhere.
(c) ide::references: the answer is the union over all files of the ranges the search found, nothing twice, nothing dropped."""
import re, json, os
import z3
from mirsym.world import World
from mirsym.values import *
from mirsym import models
from mirsym.interp import PyFn

W = None
NAME = 'ab'
CASTS = ['Name', 'TypeName', 'NameRef', 'Label']


def register_ast_enum(W_, name='TypeNameOrName'):
    """enums declared through the `enums!` macro of crates/syntax/src/ast.rs: variant order from the source"""
    src = open(os.path.join(os.environ.get('VERIF_REPO', '/repo'), 'crates/syntax/src/ast.rs'), encoding='utf-8').read()
    m = re.search(r'\n\s*%s\s*\{([^}]*)\}' % name, src)
    vs = [v.strip() for v in m.group(1).split(',') if v.strip()]
    ev = [(v, True, i) for i, v in enumerate(vs)]
    W_.enums[name] = ev; W_.enums['syntax::ast::' + name] = ev; W_.enums['ast::' + name] = ev
    return vs


def fid(k):
    return Agg('struct', 'FileId', None, [IntV(k, 32, 0)])


def mk_def(variant, ident):
    """Definition::<variant>(<Id>(u32))"""
    return Agg('enum', 'def::semantics::Definition', variant, [Agg('struct', variant + 'Id', None, [ident])])


class SearchSpec:
    def __init__(self, nfiles, k, ranged=False):
        self.nfiles = nfiles; self.k = k; self.ranged = ranged

    def make_interp(self):
        it = W.interp('ide', uc=True)
        it.allow = [r'^def::search::<impl at [^>]*>::search(::|$)', r'^def::search::<impl at [^>]*>::found_(name|name_ref|type_name|label)$']
        spec = self
        nf, K = self.nfiles, self.k
        bv = lambda n, b=32: z3.BitVec(n, b)
        self.flen = [bv('len%d' % f) for f in range(nf)]
        self.off = [[bv('off_%d_%d' % (f, k)) for k in range(K)] for f in range(nf)]
        self.ncand = [bv('ncand%d' % f, 8) for f in range(nf)]
        self.sr = [(bv('srs%d' % f), bv('sre%d' % f)) for f in range(nf)]
        # decisions per candidate: left/right token spelled with the name, parent exists, cast variant, classification
        self.tokL = [[z3.Bool('tokL_%d_%d' % (f, k)) for k in range(K)] for f in range(nf)]      # a token ENDING at the offset exists and is spelled NAME
        self.tokR = [[z3.Bool('tokR_%d_%d' % (f, k)) for k in range(K)] for f in range(nf)]      # the token STARTING at / containing the offset is spelled NAME
        self.par = [[z3.Bool('par_%d_%d' % (f, k)) for k in range(K)] for f in range(nf)]
        self.cast = [[bv('cast_%d_%d' % (f, k), 8) for k in range(K)] for f in range(nf)]        # 0 none, 1..4 CASTS
        self.cls = [[bv('cls_%d_%d' % (f, k), 8) for k in range(K)] for f in range(nf)]          # 0 none, 1 the target, 2 another definition of the same kind, 3 another kind
        self.ns = [[bv('ns_%d_%d' % (f, k)) for k in range(K)] for f in range(nf)]
        self.ne = [[bv('ne_%d_%d' % (f, k)) for k in range(K)] for f in range(nf)]
        S = it.solver
        for f in range(nf):
            S.add(z3.ULE(self.flen[f], 40), z3.ULE(self.ncand[f], K))
            S.add(z3.ULE(self.sr[f][0], self.sr[f][1]), z3.ULE(self.sr[f][1], self.flen[f]))
            for k in range(K):
                S.add(z3.ULE(self.off[f][k] + len(NAME), self.flen[f]), z3.ULE(self.off[f][k], 40))
                if k:
                    S.add(z3.UGE(self.off[f][k], self.off[f][k - 1] + len(NAME)))           # memmem::FindIter: ascending, non-overlapping
                S.add(z3.ULE(self.cast[f][k], 4), z3.ULE(self.cls[f][k], 3))
                S.add(z3.ULE(self.ns[f][k], self.ne[f][k]), z3.ULE(self.ne[f][k], self.flen[f]))
        self.target_id = bv('target_id')
        self.other_id = bv('other_id')
        S.add(self.target_id != self.other_id)

        # ---- models
        M = it.models

        def search_scope(it_, c, a):
            mp = MapV()
            for f in range(nf):
                rng = some(models.mk_range(IntV(spec.sr[f][0], 32, 0), IntV(spec.sr[f][1], 32, 0))) if spec.ranged else none()
                mp.kv.append((fid(f), rng))
            return Agg('struct', 'SearchScope', None, [mp])
        M['Definition::search_scope'] = search_scope
        M['Definition::name'] = lambda it_, c, a: some(Agg('struct', 'SmolStr', None, [StrV(NAME)]))
        M['Definition::module'] = lambda it_, c, a: some(Agg('struct', 'Module', None, [fid(0)]))           # the target is declared in file 0
        M['SmolStr::as_str'] = lambda it_, c, a: RefV([models.deref(a[0]).fields[0]], 0)
        M['Finder::new'] = lambda it_, c, a: Opaque(('finder',))

        def file_content(it_, c, a):
            f = models.deref(a[-1]).fields[0].v
            return Opaque(('text', f))
        for pre in ('<TyDatabase as SourceDatabase>::', '<DefDatabase as SourceDatabase>::', '<SourceDatabase as SourceDatabase>::'):
            M[pre + 'file_content'] = file_content
        M['<Arc as Deref>::deref'] = lambda it_, c, a: a[0]

        def tsz_of(it_, c, a):
            t = models.deref(a[0])
            if isinstance(t, Opaque) and t.tag[0] == 'text':
                return models.mk_tsz(IntV(spec.flen[t.tag[1]], 32, 0))
            return NotImplemented
        M['TextSize::of'] = tsz_of
        M['str::as_bytes'] = lambda it_, c, a: a[0]

        def find_iter(it_, c, a):
            t = models.deref(a[1])
            f = t.tag[1]

            def gen():
                for k in range(K):
                    if not it_.choose([(z3.UGT(spec.ncand[f], k), True), (z3.ULE(spec.ncand[f], k), False)]):
                        return
                    spec.cur = (f, k)
                    yield IntV(z3.ZeroExt(32, spec.off[f][k]), 64, 0)
            return PyIter(gen())
        M['Finder::find_iter'] = find_iter

        def parse(it_, c, a):
            return Opaque(('parse', models.deref(a[-1]).fields[0].v))
        M['Semantics::parse'] = parse
        M['SourceFile::syntax'] = M['<SourceFile as AstNode>::syntax'] = lambda it_, c, a: RefV([Opaque(('root', models.deref(a[0]).tag[1]))], 0)
        M['<SyntaxNode as Clone>::clone'] = lambda it_, c, a: models.deref(a[0])
        M['Lazy::new'] = lambda it_, c, a: Agg('struct', 'LazyCell', None, [a[0], none()])

        def lazy_force(it_, c, a):
            lz = models.deref(a[0])
            if lz.fields[1].variant == 'None':
                lz.fields[1] = some(it_.call_closure(lz.fields[0], []))
            return RefV(lz.fields[1].fields, 0)
        M['<Lazy as Deref>::deref'] = lazy_force
        M['Lazy::force'] = lazy_force

        def token_at_offset(it_, c, a):
            root = models.deref(a[0]); off = models.tsz(a[1])
            f = root.tag[1]
            # which candidate is this?  (the offset handed in must be one of the finder's offsets)
            k = None
            for kk in range(K):
                if not off.sym() and False:
                    pass
                r, _ = it_.check(off.z() != spec.off[f][kk])
                if r != z3.sat:
                    k = kk; break
            if k is None:
                spec.bad.append('token lookup at an offset that is not a match offset of the finder')
                return PyIter(iter(()))
            spec.looked.append((f, k))

            def gen():
                # rowan: between two tokens the left one first, then the right one
                yield Opaque(('tok', f, k, 'L'))
                yield Opaque(('tok', f, k, 'R'))
            return PyIter(gen())
        M['SyntaxNode::token_at_offset'] = token_at_offset

        def tok_text(it_, c, a):
            t = models.deref(a[0])
            return Opaque(('toktext',) + t.tag[1:])
        M['SyntaxToken::text'] = tok_text

        def str_eq(it_, c, a):
            x, y = models.deref(a[0]), models.deref(a[1])
            for u, v in ((x, y), (y, x)):
                if isinstance(u, Opaque) and u.tag[0] == 'toktext':
                    if not (isinstance(v, StrV) and v.s == NAME):
                        spec.bad.append('a token text is compared with something that is not the search name')
                    _, f, k, side = u.tag
                    var = spec.tokL[f][k] if side == 'L' else spec.tokR[f][k]
                    return BoolV(it_.choose([(var, True), (z3.Not(var), False)]))
            return NotImplemented
        M['<str as PartialEq>::eq'] = str_eq
        M['<&str as PartialEq>::eq'] = str_eq
        self._str_eq = str_eq

        def tok_parent(it_, c, a):
            t = models.deref(a[0])
            _, f, k, side = t.tag
            if it_.choose([(spec.par[f][k], True), (z3.Not(spec.par[f][k]), False)]):
                return some(Opaque(('node', f, k, side)))
            return none()
        M['SyntaxToken::parent'] = tok_parent

        def cast(it_, c, a):
            n = models.deref(a[0])
            if not (isinstance(n, Opaque) and n.tag[0] == 'node'):
                return NotImplemented
            _, f, k, side = n.tag
            v = it_.choose([(spec.cast[f][k] == i, i) for i in range(5)])
            if v == 0:
                return none()
            return some(Agg('enum', 'syntax::ast::TypeNameOrName', CASTS[v - 1], [Agg('struct', CASTS[v - 1], None, [n])]))
        M['<TypeNameOrName as AstNode>::cast'] = cast
        for cn in CASTS:
            M['<%s as AstNode>::syntax' % cn] = lambda it_, c, a: RefV(models.deref(a[0]).fields, 0)

        def classify(it_, c, a):
            n = models.deref(a[1])
            if not (isinstance(n, Opaque) and n.tag[0] == 'node'):
                spec.bad.append('classify_node on something that is not the node found at a match offset'); return none()
            _, f, k, side = n.tag
            spec.classified.append((f, k))
            v = it_.choose([(spec.cls[f][k] == i, i) for i in range(4)])
            if v == 0:
                return none()
            if v == 1:
                return some(mk_def('Function', IntV(spec.target_id, 32, 0)))
            if v == 2:
                return some(mk_def('Function', IntV(spec.other_id, 32, 0)))
            return some(mk_def('Local', IntV(spec.target_id, 32, 0)))
        M['semantics::classify_node'] = classify

        def def_eq(it_, c, a):
            x, y = models.deref(a[0]), models.deref(a[1])
            if not (isinstance(x, Agg) and isinstance(y, Agg)):
                return NotImplemented
            if x.variant != y.variant:
                return BoolV(False)
            return it_.binop('Eq', x.fields[0].fields[0], y.fields[0].fields[0])
        M['<Definition as PartialEq>::eq'] = def_eq

        def find_file(it_, c, a):
            n = models.deref(a[1])
            return Agg('struct', 'InFile', None, [fid(n.tag[1]), n])
        M['Semantics::find_file'] = find_file

        def text_range(it_, c, a):
            n = models.deref(a[0])
            _, f, k, side = n.tag
            return models.mk_range(IntV(spec.ns[f][k], 32, 0), IntV(spec.ne[f][k], 32, 0))
        M['SyntaxNode::text_range'] = text_range
        M['span!'] = lambda it_, c, a: UNIT
        return it

    def run_path(self, it):
        b = next(bd for n, bd in W.crates['ide'].items() if re.match(r'^def::search::<impl at [^>]*>::search$', n))
        self.bad = []; self.looked = []; self.classified = []; self.sunk = []
        spec = self

        def sink(fidv, rng):
            spec.sunk.append((models.deref(fidv).fields[0], models.deref(rng)))
            return BoolV(False)
        fu = Agg('struct', 'FindUsages', None, [mk_def('Function', IntV(self.target_id, 32, 0)), RefV([Agg('struct', 'Semantics', None, [LazyV('db'), LazyV('cache')])], 0), none()])
        it.run_body(b, [RefV([fu], 0), RefV([PyFn(sink)], 0)])
        nf, K = self.nfiles, self.k
        bad = list(self.bad)
        # expected hits as z3 terms over the decision variables
        sunk = {}
        for fv, rg in self.sunk:
            s, e = models.tsz(rg.fields[0]).z(), models.tsz(rg.fields[1]).z()
            hit = None
            for f in range(nf):
                for k in range(K):
                    if s is self.ns[f][k] or z3.eq(z3.simplify(s), self.ns[f][k]):
                        hit = (f, k)
            if hit is None:
                bad.append('C06: the search reports a range that is not the range of a node found at a match offset'); continue
            f, k = hit
            if not z3.eq(z3.simplify(e), self.ne[f][k]):
                bad.append('C06: the reported range does not end where the found node ends')
            if fv.sym() or fv.v != f:
                bad.append('C06: a usage found in file %d is reported for file %s' % (f, fv.v))
            sunk[hit] = sunk.get(hit, 0) + 1
        conds = []
        for f in range(nf):
            for k in range(K):
                o = self.off[f][k]
                inr = z3.And(z3.ULE(self.sr[f][0], o), z3.ULE(o, self.sr[f][1])) if self.ranged else z3.BoolVal(True)
                exp = z3.And(z3.UGT(self.ncand[f], k), inr, z3.Or(self.tokL[f][k], self.tokR[f][k]), self.par[f][k], self.cast[f][k] != 0, self.cls[f][k] == 1)
                n = sunk.get((f, k), 0)
                if n > 1:
                    bad.append('C06: one occurrence is reported %d times' % n)
                conds.append(exp != z3.BoolVal(n >= 1))
        if not bad:
            r, m = it.check(z3.Or(conds))
            if r == z3.sat:
                ev = lambda t: m.eval(t, model_completion=True)
                desc = []
                for f in range(nf):
                    for k in range(K):
                        if ev(self.ncand[f]).as_long() > k:
                            desc.append('file %d match@%d: token spelled with the name %s, parent %s, cast %s, classifies as %s -> %s' % (
                                f, ev(self.off[f][k]).as_long(), bool(z3.is_true(ev(z3.Or(self.tokL[f][k], self.tokR[f][k])))), z3.is_true(ev(self.par[f][k])),
                                (['none'] + CASTS)[ev(self.cast[f][k]).as_long()], ['nothing', 'the target', 'another definition', 'another kind'][ev(self.cls[f][k]).as_long()],
                                'reported' if sunk.get((f, k)) else 'not reported'))
                bad.append('C06: the usage search and "classifies as the target" disagree: ' + '; '.join(desc))
        rec = {'cls': 'reported:%d' % len(self.sunk), 'ok': True, 'sample': {'files': nf, 'candidates_looked_up': len(self.looked), 'classified': len(self.classified), 'reported': len(self.sunk)}}
        if bad:
            rec.update({'cls': 'violation', 'ok': False, 'why': bad[:3], 'cex': {'kernel': 'search', 'files': nf, 'k': K}})
        return rec

    def on_panic(self, it, e):
        return {'cls': 'panic:' + e.kind, 'ok': False, 'why': ['C06: the usage search panics: %s' % e], 'cex': {'kernel': 'search', 'panic': str(e)}}


def search_factory(nfiles, k, ranged):
    return SearchSpec(nfiles, k, ranged)


# ------------------------------------------------------------------------------------------------ (b) search scope per definition kind

class ScopeSpec:
    """Definition::search_scope on its real MIR (incl. SearchScope::{single_file, package_graph, empty}); the database is answered from a
    fixed graph: two packages with two module files each; whether the definition has a module at all is symbolic"""
    PKG_FILES = {0: [10, 11], 1: [12, 13]}

    def __init__(self, kind):
        self.kind = kind

    def make_interp(self):
        it = W.interp('ide', uc=True)
        it.allow = [r'^def::search::<impl at [^>]*>::(search_scope|single_file|package_graph|empty|new)$', r'^base::<impl at [^>]*>::iter$', r'^base::<impl at [^>]*>::iter::\{closure#\d+\}$']
        from . import scopes
        scopes.install(it)
        spec = self
        self.has_module = z3.Bool('has_module')
        M = it.models

        def module(it_, c, a):
            if it_.choose([(spec.has_module, True), (z3.Not(spec.has_module), False)]):
                return some(Agg('struct', 'Module', None, [fid(11)]))
            return none()
        M['Definition::module'] = module
        src = open(os.path.join(os.environ.get('VERIF_REPO', '/repo'), 'crates/ide/src/base.rs'), encoding='utf-8').read()
        m = re.search(r'pub struct PackageInfo\s*\{(.*?)\n\}', src, flags=re.S)
        fields = re.findall(r'^\s*(?:pub(?:\([^)]*\))?\s+)?(\w+)\s*:', m.group(1), flags=re.M)

        def mk_info(p):
            vals = []
            for f in fields:
                vals.append(VecV([]) if f == 'dependencies' else fid(100 + p) if f == 'gleam_toml' else Opaque(f))
            return Agg('struct', 'PackageInfo', None, vals)

        def package_graph(it_, c, a):
            spec.graph_asked = True
            return Agg('struct', 'PackageGraph', None, [Opaque('target'), scopes.ArenaV([mk_info(0), mk_info(1)])])

        def file_source_root(it_, c, a):
            return Agg('struct', 'SourceRootId', None, [IntV(models.deref(a[-1]).fields[0].v - 100, 32, 0)])

        def source_root(it_, c, a):
            return Opaque(('sroot', models.deref(a[-1]).fields[0].v))
        for pre in ('<DefDatabase as SourceDatabase>::', '<SourceDatabase as SourceDatabase>::', '<DefDatabase as DefDatabase>::', '<TyDatabase as SourceDatabase>::'):
            M[pre + 'package_graph'] = package_graph
            M[pre + 'file_source_root'] = file_source_root
            M[pre + 'source_root'] = source_root
        M['<PackageGraph as Index>::index'] = lambda it_, c, a: RefV(models.deref(a[0]).fields[1].items, a[1].v)
        M['Arc::new'] = lambda it_, c, a: a[0]

        def module_files(it_, c, a):
            sr = models.deref(a[0])
            return PyIter((tup(fid(f), RefV([Opaque(('path', f))], 0)) for f in spec.PKG_FILES[sr.tag[1]]))
        M['SourceRoot::module_files'] = module_files
        M['IntMap::insert'] = M['HashMap::insert']
        return it

    def run_path(self, it):
        b = next(bd for n, bd in W.crates['ide'].items() if re.match(r'^def::search::<impl at [^>]*>::search_scope$', n))
        self.graph_asked = False
        if self.kind == 'Module':
            d = Agg('enum', 'def::semantics::Definition', 'Module', [Agg('struct', 'Module', None, [fid(11)])])
        else:
            d = mk_def(self.kind, IntV(5, 32, 0))
        r = it.run_body(b, [RefV([d], 0), LazyV('db')])
        mp = models.deref(models.deref(r).fields[0])
        got = {}
        bad = []
        for k, v in mp.kv:
            f = models.deref(k).fields[0].v
            vv = models.deref(v)
            if f in got:
                bad.append('C06: file %d is searched twice' % f)
            got[f] = 'whole' if (isinstance(vv, Agg) and vv.variant == 'None') else 'part'
        m = it.get_model()
        hasm = z3.is_true(m.eval(self.has_module, model_completion=True))
        if not hasm:
            want = {}
        elif self.kind == 'Local':
            want = {11: 'whole'}
        else:
            want = {f: 'whole' for fs in self.PKG_FILES.values() for f in fs}
        if got != want:
            bad.append('C06: a %s definition %s is searched in files %s; Gleam can reference it from %s' % (self.kind, 'of module file 11' if hasm else 'without a module', got, want))
        rec = {'cls': 'scope:%s:%d-files' % (self.kind, len(got)), 'ok': True, 'sample': {'kind': self.kind, 'has_module': hasm, 'files_searched': sorted(got)}}
        if bad:
            rec.update({'cls': 'violation', 'ok': False, 'why': bad[:3], 'cex': {'kernel': 'search_scope', 'kind': self.kind}})
        return rec

    def on_panic(self, it, e):
        return {'cls': 'panic-under-havoc', 'ok': True}


def scope_factory(kind):
    return ScopeSpec(kind)


# ------------------------------------------------------------------------------------------------ (c) assembly of references / rename edits

def usage_result(own, other):
    """UsageSearchResult { references: {file 1: other ranges, file 0: own ranges} }"""
    rng = lambda s, e: models.mk_range(IntV(s, 32, 0), IntV(e, 32, 0))
    mp = MapV()
    if other:
        mp.kv.append((fid(1), VecV([rng(s, e) for s, e in other])))
    if own:
        mp.kv.append((fid(0), VecV([rng(s, e) for s, e in own])))
    return Agg('struct', 'UsageSearchResult', None, [mp])


def install_sets(it):
    for t in ('HashSet',):
        it.models['%s::new' % t] = lambda it_, c, a: MapV()
        it.models['<%s as Default>::default' % t] = lambda it_, c, a: MapV()
        it.models['%s::insert' % t] = lambda it_, c, a: BoolV(models._map_insert(it_, models.deref(a[0]), a[1], UNIT).variant == 'None')
    base_into = it.trait_models.get(('IntoIterator', 'into_iter'))

    def into_iter(it_, c, a):
        v = a[0]
        if isinstance(v, MapV):
            if 'HashSet' in c:
                return PyIter((k for k, _ in list(v.kv)))
            return PyIter((tup(k, x) for k, x in list(v.kv)))
        if isinstance(v, Agg) and v.kind == 'struct' and v.name == 'UsageSearchResult':
            return NotImplemented
        return base_into(it_, c, a)
    it.trait_models[('IntoIterator', 'into_iter')] = into_iter
    it.models['IntMap::remove'] = it.models['HashMap::remove']


class RefsSpec:
    """ide::references on its real MIR: the usage search is replaced by a result with symbolic ranges in two files"""

    def __init__(self, n_own, n_other):
        self.n_own = n_own; self.n_other = n_other

    def make_interp(self):
        it = W.interp('ide', uc=True)
        it.allow = [r'^ide::references::references$', r'^ide::references::references::\{closure#\d+\}', r'^def::search::<impl at [^>]*>::into_iter$']
        mk = lambda tag, i: (z3.BitVec('%ss%d' % (tag, i), 32), z3.BitVec('%se%d' % (tag, i), 32))
        self.own = [mk('o', i) for i in range(self.n_own)]
        self.other = [mk('x', i) for i in range(self.n_other)]
        for grp in (self.own, self.other):
            for i, (s, e) in enumerate(grp):
                it.solver.add(z3.ULT(s, e), z3.ULE(e, 64))
                if i:
                    it.solver.add(z3.ULE(grp[i - 1][1], s))           # the search reports the occurrences of one file in ascending order, disjoint
        spec = self
        it.models['FindUsages::all'] = lambda it_, c, a: usage_result(spec.own, spec.other)
        install_sets(it)

        def unique(it_, c, a):
            src = models.persist(it_, a[0])

            def gen():
                seen = MapV()
                for x in models._drain_all(it_, src):
                    if models._map_insert(it_, seen, x, UNIT).variant == 'None':
                        yield x
            return PyIter(gen())
        it.models['Itertools::unique'] = unique
        it.trait_models[('Itertools', 'unique')] = unique
        return it

    def run_path(self, it):
        b = W.crates['ide']['ide::references::references']
        fpos = Agg('struct', 'FilePos', None, [fid(0), models.mk_tsz(IntV(3, 32, 0))])
        r = it.run_body(b, [LazyV('db'), fpos])
        var, pay = models.shape(it, r, ['None', 'Some'])
        if var == 'None':
            return {'cls': 'no-answer', 'ok': True}
        out = [models.deref(x) for x in pay.items]
        got = []
        for fr in out:
            f = models.deref(fr.fields[0]).fields[0]
            rr = models.deref(fr.fields[1])
            got.append((f, models.tsz(rr.fields[0]).z(), models.tsz(rr.fields[1]).z()))
        want = [(0, s, e) for s, e in self.own] + [(1, s, e) for s, e in self.other]
        bad = []
        # every found occurrence is listed exactly once; nothing else is listed
        conds = []
        for (wf, ws, we) in want:
            cnt = z3.Sum([z3.If(z3.And(z3.BoolVal((not gf.sym()) and gf.v == wf), gs == ws, ge == we), 1, 0) for gf, gs, ge in got]) if got else z3.IntVal(0)
            conds.append(cnt != 1)
        for gf, gs, ge in got:
            conds.append(z3.Not(z3.Or([z3.And(z3.BoolVal((not gf.sym()) and gf.v == wf), gs == ws, ge == we) for wf, ws, we in want]))) if want else conds.append(z3.BoolVal(True))
        if conds:
            rr2, m = it.check(z3.Or(conds))
            if rr2 == z3.sat:
                ev = lambda t: m.eval(t, model_completion=True).as_long()
                bad.append('C06: the usage search finds %s but references lists %s' % ([(f, ev(s), ev(e)) for f, s, e in want], [(gf.v if not gf.sym() else '?', ev(s), ev(e)) for gf, s, e in got]))
        rec = {'cls': 'answer:%d-references' % len(out), 'ok': True, 'sample': {'found_in_file_0': self.n_own, 'found_in_file_1': self.n_other, 'listed': len(out)}}
        if bad:
            rec.update({'cls': 'violation', 'ok': False, 'why': bad, 'cex': {'kernel': 'references', 'own': self.n_own, 'other': self.n_other}})
        return rec

    def on_panic(self, it, e):
        return {'cls': 'panic-under-havoc', 'ok': True}


def refs_factory(a, b):
    return RefsSpec(a, b)
