"""C13 - native edit layer (real binary, NOT a solver verdict): enumerated edit scenarios against `glas --stdio`.

The solver-decided kernels of C13 / C14 / C15 drive `convert::from_range`, `Vfs::change_file_content` and `LineMap` through their current
signatures.  A refactor of exactly that plumbing (a line map read once per notification, an incrementally patched line map, a changed
helper signature) can put the change outside what the kernels can execute (exit 2, never a pass).  This layer does not depend on any
internal interface: a reference LSP client (UTF-16 positions, LF / CRLF line breaks) applies every edit to its own copy, the server receives
the same notifications, and the text the server analyses (leaf tokens of glas/syntaxTree) must be the client's text with CRs removed.

Scenario space (all positions valid for the client's document at that moment, start <= end):
  documents  = sequences of <= D symbols over {a, b, LF, e-acute (2 bytes / 1 UTF-16 unit), U+1F600 (4 bytes / 2 units), CRLF}
  change     = (start, end, inserted text in {"", x, e-acute, LF, U+1F600, CRLF, xy})
  shapes     = one change | two changes in ONE notification | two notifications with one change each | a full-text change mixed with ranged ones in one notification
One-change scenarios are enumerated exhaustively for documents of <= D1 symbols; two-change scenarios take every first change and a seeded
sample of second changes (a stale line map after the first change shows when the second change addresses the edited line)."""
import os, json, random, itertools, multiprocessing

ALPHA = ['a', 'b', '\n', 'é', '\U0001F600', '\r\n']
INS = ['', 'x', 'é', '\n', '\U0001F600', '\r\n', 'xy']


def lines_of(doc):
    """[(line text without terminator)], splitting at LF (a CR before it belongs to the terminator)"""
    out = []
    for ln in doc.split('\n'):
        out.append(ln)
    # every line but the last was terminated by LF; strip the CR of CRLF
    return [ln[:-1] if (i < len(out) - 1 and ln.endswith('\r')) else ln for i, ln in enumerate(out)]


def positions(doc):
    """all valid LSP positions (line, utf16 col) with their offset in the python string"""
    res = []
    off = 0
    raw = doc.split('\n')
    for li, ln in enumerate(raw):
        body = ln[:-1] if (li < len(raw) - 1 and ln.endswith('\r')) else ln
        col = 0
        for k in range(len(body) + 1):
            res.append(((li, col), off + k))
            if k < len(body):
                col += 2 if ord(body[k]) > 0xFFFF else 1
        off += len(ln) + 1
    return res


def apply(doc, ch):
    if ch[0] is None:
        return ch[6]                      # full-text change (no range)
    (s_off, e_off, text) = ch[4], ch[5], ch[6]
    return doc[:s_off] + text + doc[e_off:]


def changes_for(doc):
    ps = positions(doc)
    for i in range(len(ps)):
        for j in range(i, len(ps)):
            for t in INS:
                (l1, c1), so = ps[i]; (l2, c2), eo = ps[j]
                yield (l1, c1, l2, c2, so, eo, t)


def scenarios(tier, seed):
    rnd = random.Random(seed)
    D1 = 3 if tier == 'quick' else 4
    D2 = 2 if tier == 'quick' else 3
    K2 = 3 if tier == 'quick' else 8
    out = []
    for n in range(0, D1 + 1):
        for syms in itertools.product(ALPHA, repeat=n):
            doc = ''.join(syms)
            if '\n\n' in doc.replace('\r', '') and n > 3:
                pass
            for ch in changes_for(doc):
                out.append((doc, [[ch]]))
    for n in range(0, D2 + 1):
        for syms in itertools.product(ALPHA, repeat=n):
            doc = ''.join(syms)
            for ch1 in changes_for(doc):
                d1 = apply(doc, ch1)
                c2s = list(changes_for(d1))
                for ch2 in rnd.sample(c2s, min(K2, len(c2s))):
                    out.append((doc, [[ch1, ch2]]))
                    out.append((doc, [[ch1], [ch2]]))
    # a full-text change and ranged changes mixed in ONE notification (the ranged ones address the replaced text)
    full = lambda t: (None, None, None, None, None, None, t)
    for n in range(0, D2 + 1):
        for syms in itertools.product(ALPHA, repeat=n):
            doc = ''.join(syms)
            c1s = list(changes_for(doc))
            for ch in rnd.sample(c1s, min(6 if tier == 'quick' else 20, len(c1s))):
                out.append(('zz\n', [[full(doc), ch]]))
                d1 = apply(doc, ch)
                c2 = rnd.choice(list(changes_for(d1)))
                out.append(('zz\n', [[full(doc), ch, c2]]))
                out.append((doc, [[ch, full(d1), c2]]))
    # larger documents, seeded
    for _ in range(2000 if tier == 'quick' else 20000):
        n = rnd.randint(3, 6)
        doc = ''.join(rnd.choice(ALPHA) for _ in range(n))
        c1 = rnd.choice(list(changes_for(doc))); d1 = apply(doc, c1)
        c2 = rnd.choice(list(changes_for(d1))); d2 = apply(d1, c2)
        c3 = rnd.choice(list(changes_for(d2)))
        out.append((doc, rnd.choice([[[c1, c2, c3]], [[c1], [c2, c3]], [[c1, c2], [c3]], [[c1], [c2], [c3]]])))
    return out


def expected(doc, notifs):
    for n in notifs:
        for ch in n:
            doc = apply(doc, ch)
    return doc.replace('\r', '')


def _worker(args):
    binary, chunk = args
    from mirsym import lsp_replay
    bad = []
    s = lsp_replay.Session(binary, timeout=20.0)
    ver = 1
    try:
        uri = s.uri()
        s.notify('textDocument/didOpen', {'textDocument': {'uri': uri, 'languageId': 'gleam', 'version': ver, 'text': ''}})
        for doc, notifs in chunk:
            ver += 1
            s.notify('textDocument/didChange', {'textDocument': {'uri': uri, 'version': ver}, 'contentChanges': [{'text': doc}]})
            for n in notifs:
                ver += 1
                s.notify('textDocument/didChange', {'textDocument': {'uri': uri, 'version': ver},
                                                    'contentChanges': [({'range': {'start': {'line': c[0], 'character': c[1]}, 'end': {'line': c[2], 'character': c[3]}}, 'text': c[6]} if c[0] is not None else {'text': c[6]}) for c in n]})
            txt, raw = s.server_text()
            want = expected(doc, notifs)
            if txt != want:
                dead = isinstance(raw, dict) and ('dead' in raw or 'timeout' in raw)
                bad.append({'doc': doc, 'notifications': [[list(c[:4]) + [c[6]] for c in n] for n in notifs], 'server_text': txt, 'client_text_cr_stripped': want,
                            'server': ('dead: %s' % raw) if dead else 'alive'})
                if dead or not s.alive():
                    s.close()
                    s = lsp_replay.Session(binary, timeout=20.0); uri = s.uri(); ver = 1
                    s.notify('textDocument/didOpen', {'textDocument': {'uri': uri, 'languageId': 'gleam', 'version': ver, 'text': ''}})
                if len(bad) >= 5:
                    break
    finally:
        s.close()
    return bad


def run(binary, tier, seed, jobs=16):
    sc = scenarios(tier, seed)
    chunks = [sc[i::jobs * 4] for i in range(jobs * 4)]
    with multiprocessing.Pool(jobs) as pool:
        res = pool.map(_worker, [(binary, c) for c in chunks if c])
    bad = [b for r in res for b in r]
    return len(sc), bad


def replay_one(binary, cex):
    doc = cex['doc']
    notifs = []
    d = doc
    for n in cex['notifications']:
        nn = []
        for (l1, c1, l2, c2, t) in n:
            if l1 is None:
                ch = (None, None, None, None, None, None, t)
                nn.append(ch); d = apply(d, ch); continue
            pm = dict(positions(d))
            ch = (l1, c1, l2, c2, pm[(l1, c1)], pm[(l2, c2)], t)
            nn.append(ch); d = apply(d, ch)
        notifs.append(nn)
    return _worker((binary, [(doc, notifs)]))


def part(chk, tier, seed, jobs):
    from mirsym import lsp_replay
    binary = lsp_replay.build_binary()
    n, bad = run(binary, tier, seed, jobs)
    chk.log('native edit layer: %d enumerated edit scenarios against the real binary, %d with a server text that is not the client\'s' % (n, len(bad)))
    chk.extra.setdefault('native_oracle', {})['edit_scenarios'] = n
    seen = set()
    for b in bad:
        key = (len(b['notifications']), tuple(len(x) for x in b['notifications']))
        if key in seen:
            continue
        seen.add(key)
        chk.violation('edit-scenario:%s' % ('+'.join(str(len(x)) for x in b['notifications'])), 'enumerated',
                      'real binary: document %r, then %s -> the server analyses %r, the editor shows (CRs removed) %r [%s]' % (b['doc'], b['notifications'], b['server_text'], b['client_text_cr_stripped'], b['server']),
                      dict(b, kind='edit-scenario'), confirmed=True)
    if not bad:
        chk.validated += n
    return n, bad
