"""Kernel shared by C13 / C14 / C15 / C19 / C20(ii): the real MIR of glas::vfs (LineMap, Vfs::change_file_content) and
glas::convert (from_pos, from_range, to_range, to_semantic_tokens) over symbolic documents, against a reference LSP
client written as z3 terms from the LSP specification (lines split at LF, columns in UTF-16 code units)."""
import os, time, json
import z3
from mirsym.world import World
from mirsym.values import *
from mirsym import models
from . import syn

W = None


def load(profile='dev', log=print):
    global W
    W = World(['glas'], profile, log=log)
    return W


def body(name_suffix):
    c = [b for n, b in W.crates['glas'].items() if n.endswith(name_suffix)]
    if len(c) != 1:
        raise KeyError('%d bodies match %s' % (len(c), name_suffix))
    return c[0]


def interp():
    it = W.interp('glas')
    install_models(it)
    return it


# ------------------------------------------------------------------------------------------------
# extra library models needed by the glas kernel

def install_models(it):
    M = it.models

    def arc_from(it_, c, a):
        v = a[0]
        if isinstance(v, StringV):
            return StrSym(list(v.b))
        return v
    for k in ('<Arc as From>::from', 'Arc::new', 'Arc::from'):
        M[k] = arc_from
    M['<Arc as Deref>::deref'] = lambda it_, c, a: (a[0] if not isinstance(a[0], RefV) else (a[0] if isinstance(a[0].get(), (StrSym, StrV, Agg, VecV)) else a[0]))
    M['<Arc as Clone>::clone'] = lambda it_, c, a: models.deref(a[0])
    M['<Arc as AsRef>::as_ref'] = M['<Arc as Deref>::deref']
    M['Position::new'] = lambda it_, c, a: Agg('struct', 'Position', None, [a[0], a[1]])
    M['Range::new'] = lambda it_, c, a: Agg('struct', 'LspRange', None, [a[0], a[1]])
    # log / tracing macros: statically disabled level check
    M['log::max_level'] = lambda it_, c, a: IntV(0, 16, 0)
    # logging is stubbed as disabled (formatting/logging is not the subject of any property here)
    M['<Level as PartialOrd>::le'] = lambda it_, c, a: BoolV(False)
    M['<Level as PartialOrd>::lt'] = lambda it_, c, a: BoolV(False)
    M['LevelFilter::current'] = lambda it_, c, a: IntV(0, 64, 0)


# ------------------------------------------------------------------------------------------------
# reference LSP client as z3 terms over document bytes

def u16units(b):
    """UTF-16 code units contributed by byte b when it starts a character (0 for continuation bytes)"""
    return z3.If(z3.Or(z3.ULT(b, 0x80), z3.And(z3.UGE(b, 0xC0), z3.ULT(b, 0xF0))), z3.BitVecVal(1, 32),
                 z3.If(z3.UGE(b, 0xF0), z3.BitVecVal(2, 32), z3.BitVecVal(0, 32)))


def is_cont(b):
    return z3.And(z3.UGE(b, 0x80), z3.ULE(b, 0xBF))


class RefDoc:
    """reference positions for a document given as a list of 8-bit z3 terms"""

    def __init__(self, bs):
        self.bs = bs; self.n = len(bs)
        self._line = {}; self._col = {}

    def boundary(self, p):
        if p == 0 or p == self.n:
            return z3.BoolVal(True)
        return z3.Not(is_cont(self.bs[p]))

    def line(self, p):
        if p not in self._line:
            t = z3.BitVecVal(0, 32)
            for i in range(p):
                t = t + z3.If(self.bs[i] == 0x0A, z3.BitVecVal(1, 32), z3.BitVecVal(0, 32))
            self._line[p] = t
        return self._line[p]

    def col(self, p):
        """UTF-16 column of byte offset p: units of the characters between the last LF before p and p"""
        if p not in self._col:
            t = z3.BitVecVal(0, 32)
            nolf = z3.BoolVal(True)     # no LF in bs[i..p)
            for i in range(p - 1, -1, -1):
                nolf = z3.And(nolf, self.bs[i] != 0x0A)
                t = t + z3.If(nolf, u16units(self.bs[i]), z3.BitVecVal(0, 32))
            self._col[p] = t
        return self._col[p]

    def denotes(self, l, c, p):
        """(l, c) is the LSP position of byte offset p"""
        return z3.And(self.boundary(p), self.line(p) == l, self.col(p) == c)

    def valid(self, l, c):
        return z3.Or([self.denotes(l, c, p) for p in range(self.n + 1)])

    def line_count_minus1(self):
        return self.line(self.n)

    def line_end_offset(self, l, p):
        """p is the end of line l (offset of its LF, or end of text)"""
        atend = (self.bs[p] == 0x0A) if p < self.n else z3.BoolVal(True)
        return z3.And(self.line(p) == l, atend)


def doc_constraints(bs, allow_cr=False, crlf_only=True):
    cs = [syn.utf8_valid(bs)]
    for i, b in enumerate(bs):
        if not allow_cr:
            cs.append(b != 0x0D)
        elif crlf_only:
            nxt = (bs[i + 1] == 0x0A) if i + 1 < len(bs) else z3.BoolVal(False)
            cs.append(z3.Implies(b == 0x0D, nxt))
    return cs


def eval_bytes(m, bs):
    return bytes(m.eval(b, model_completion=True).as_long() for b in bs)


# ------------------------------------------------------------------------------------------------
# running the kernel

def normalize(it, byte_ivs):
    """LineMap::normalize(String) -> (text StringV, LineMap Agg)"""
    r = it.run_body(body('::normalize'), [StringV(list(byte_ivs))])
    return r.fields[0], r.fields[1]


def line_col_for_pos(it, lm, p):
    r = it.run_body(body('::line_col_for_pos'), [RefV([lm], 0), models.mk_tsz(IntV(p, 32, 0) if isinstance(p, int) else p)])
    return r.fields[0], r.fields[1]


def pos_for_line_col(it, lm, l, c):
    r = it.run_body(body('::pos_for_line_col'), [RefV([lm], 0), l, c])
    return models.tsz(r)


def to_range(it, lm, s, e):
    rng = models.mk_range(IntV(s, 32, 0), IntV(e, 32, 0))
    return it.run_body(body('convert::to_range'), [RefV([lm], 0), rng])


# ------------------------------------------------------------------------------------------------
# native oracle (overlay copies of the real files + appended accessors)

VERIF_API = '''

// ---- appended by /verif at check time (overlay copy only; /repo is not modified) ----
pub mod verif_api {
    use super::*;
    pub fn normalize(s: String) -> (String, LineMap) {
        LineMap::normalize(s)
    }
}
'''

URLEXT_FALLBACK = '''
use ide::VfsPath;
use lsp_types::Url;
pub(crate) trait UrlExt: Sized {
    fn to_vfs_path(&self) -> VfsPath;
    fn from_vfs_path(path: &VfsPath) -> Self;
}
'''


def overlay_files():
    import re
    src = os.path.join(os.environ.get('VERIF_REPO', '/repo'), 'crates', 'glas', 'src')
    out = {}
    out['src/vfs.rs'] = open(os.path.join(src, 'vfs.rs')).read() + VERIF_API
    out['src/convert.rs'] = open(os.path.join(src, 'convert.rs')).read()
    out['src/semantic_tokens.rs'] = open(os.path.join(src, 'semantic_tokens.rs')).read()
    lib = open(os.path.join(src, 'lib.rs')).read()
    m = re.search(r'pub\(crate\) trait UrlExt.*?\n}\n\nimpl UrlExt for Url \{.*?\n}\n', lib, flags=re.S)
    body = m.group(0) if m else None
    if body is None:
        raise RuntimeError('cannot extract UrlExt from lib.rs')
    out['src/urlext.rs'] = 'use ide::VfsPath;\nuse lsp_types::Url;\n' + body
    return out


def build_oracle():
    from mirsym import native
    return native.build('oracle-glas', extra_files=overlay_files())


class GlasOracle:
    def __init__(self, binary):
        from mirsym import native
        self.o = native.Oracle(binary)

    def ask(self, cmd, **req):
        return self.o.ask(cmd, json.dumps(req))

    def close(self):
        self.o.close()


# ------------------------------------------------------------------------------------------------
# Vfs state built directly (one open document), Slab / Change models

class SlabV:
    __slots__ = ('entries',)

    def __init__(s, entries):
        s.entries = entries


class ChangeRec:
    """ide::Change as a recorder"""
    __slots__ = ('calls',)

    def __init__(s):
        s.calls = []


def install_vfs_models(it):
    M = it.models

    def slab_index(it_, c, a):
        sl = models.deref(a[0]); i = a[1]
        if i.sym():
            i = IntV(it_.concretize(i), 64, 0)
        if i.v >= len(sl.entries) or sl.entries[i.v] is None:
            raise Panic('slab-index', 'invalid key %d' % i.v, it_.stack)
        return RefV(sl.entries, i.v)
    M['<Slab as Index>::index'] = slab_index
    M['<Slab as IndexMut>::index_mut'] = slab_index

    def slab_remove(it_, c, a):
        sl = models.deref(a[0]); i = a[1]
        if i.v >= len(sl.entries) or sl.entries[i.v] is None:
            raise Panic('slab-index', 'invalid key %d' % i.v, it_.stack)
        v = sl.entries[i.v]; sl.entries[i.v] = None
        return v
    M['Slab::remove'] = slab_remove
    M['Slab::len'] = lambda it_, c, a: IntV(sum(1 for e in models.deref(a[0]).entries if e is not None), 64, 0)

    def change_file(it_, c, a):
        models.deref(a[0]).calls.append(('change_file', a[1], a[2])); return UNIT
    M['Change::change_file'] = change_file
    M['Change::set_structural_change'] = lambda it_, c, a: (models.deref(a[0]).calls.append(('structural',)), UNIT)[1]

    # anyhow: errors are opaque values (only Ok/Err matters to the kernel)
    def any_err(it_, c, a):
        return Opaque('anyhow::Error')
    for k in ('Error::msg', '__private::format_err', 'anyhow::format_err', 'Error::new', '__private::must_use', 'Error::construct',
              'private::format_err', 'private::must_use'):
        M[k] = any_err


def mk_vfs(text_strsym, lm):
    entry = tup(text_strsym, lm)
    return Agg('struct', 'Vfs', None, [SlabV([entry]), Opaque('FileSet'), ChangeRec()])


def lsp_range(l1, c1, l2, c2):
    P = lambda l, c: Agg('struct', 'Position', None, [l, c])
    return Agg('struct', 'LspRange', None, [P(l1, c1), P(l2, c2)])
