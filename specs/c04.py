"""C04 — well-formed programs parse error-free with Gleam's structure (bounded, solver-decided).

Reference = Gleam's grammar, written here independently of parser.rs: (1) the binary-operator precedence table and
left associativity, prefix tighter than any binary operator, postfix (call / field / tuple index) tighter than prefix,
`|>` as its own node; (2) a catalogue of well-formed programs of the supported surface, each annotated with the nodes
(kind + exact token span) the grammar prescribes.  Terminals with alternatives are symbolic inside their class."""
import os, json
import z3
from mirsym import explore, native, models
from mirsym.values import *
from . import syn, synspecs, synrun
from .runner import Check

# Gleam's operator precedence (gleam-lang reference), lowest first; all left associative
PREC_LEVELS = [['VBAR_VBAR'], ['AMPER_AMPER'], ['EQ_EQ', 'NOT_EQ'],
               ['LESS', 'LESS_EQ', 'LESS_DOT', 'LESS_EQ_DOT', 'GREATER', 'GREATER_EQ', 'GREATER_DOT', 'GREATER_EQ_DOT'],
               ['LT_GT'], ['VBAR_GT'], ['PLUS', 'MINUS', 'PLUS_DOT', 'MINUS_DOT'], ['STAR', 'SLASH', 'STAR_DOT', 'SLASH_DOT', 'PERCENT']]
BINOPS = [o for lvl in PREC_LEVELS for o in lvl]
PREFIX = ['BANG', 'MINUS']
LITERALS = ['INTEGER', 'FLOAT', 'STRING']


def level(op):
    """z3 term: precedence level of a symbolic operator kind"""
    t = z3.BitVecVal(0, 8)
    for i, lvl in enumerate(PREC_LEVELS):
        for o in lvl:
            t = z3.If(op == syn.KINDS[o], z3.BitVecVal(i + 1, 8), t)
    return t


class Sym:
    def __init__(self, cls):
        self.cls = cls        # list of kind names


class N:
    """an annotated node: kind + children (token kind names, Sym, or N)"""
    def __init__(self, kind, *children):
        self.kind = kind; self.children = children


def flatten(node, toks, spans):
    start = len(toks)
    for ch in node.children:
        if isinstance(ch, N):
            flatten(ch, toks, spans)
        elif isinstance(ch, (list, tuple)):
            for x in ch:
                if isinstance(x, N):
                    flatten(x, toks, spans)
                else:
                    toks.append(x)
        else:
            toks.append(ch)
    if node.kind is not None:
        spans.append((node.kind, start, len(toks) - 1))


class ProgramSpec(synspecs.TokenSpec):
    """a well-formed program with symbolic terminals; asserts: no errors, every annotated node exists with its span"""

    def __init__(self, name):
        self.name = name
        prog = PROGRAMS[name]
        toks = []; spans = []
        flatten(prog, toks, spans)
        self.toks = toks; self.spans = spans
        self.symidx = [i for i, t in enumerate(toks) if isinstance(t, Sym)]
        synspecs.TokenSpec.__init__(self, 0)
        self.n = len(toks)

    def make_interp(self):
        it = syn.W.interp('syntax')
        self.syms = []
        self.ks = []; self.kiv = []
        for i, t in enumerate(self.toks):
            if isinstance(t, Sym):
                k = z3.BitVec('k%d' % i, 16)
                it.solver.add(z3.Or([k == syn.KINDS[x] for x in t.cls]))
                self.syms.append(k); self.ks.append(k); self.kiv.append(IntV(k, 16, 0))
            else:
                self.ks.append(z3.BitVecVal(syn.KINDS[t], 16)); self.kiv.append(IntV(syn.KINDS[t], 16, 0))
        self.prefix = []; self.nsym = len(self.syms)
        self.fuel = synspecs.FuelHook(); it.call_hooks.append(self.fuel)
        return it

    def alternatives(self, it, limit=4):
        return []

    def run_path(self, it):
        res, src = syn.parse_tokens(it, [IntV(k.v, 16, 0) for k in self.kiv])
        log, errors = syn.parse_result(res)
        m = it.get_model()
        kv = lambda iv: (iv.v if not iv.sym() else m.eval(iv.v, model_completion=True).as_long())
        tree = syn.tree_from_log(log, kv)
        nodes = set()
        _collect(tree, nodes)
        bad = []
        if errors:
            bad.append('C04: %d syntax error(s) on a well-formed program: %s' % (len(errors), [syn.error_info(e) for e in errors][:3]))
        comma = syn.KINDS['COMMA']
        kat = lambda i: (self.kiv[i].v if 0 <= i < len(self.kiv) and not self.kiv[i].sym() else None)
        for kind, a, b in self.spans:
            kk = syn.KINDS[kind]
            # where a list separator is attached (inside the element node or beside it) is not prescribed by the grammar
            okn = (kk, a, b) in nodes or (kat(b) == comma and (kk, a, b - 1) in nodes) or (kat(b + 1) == comma and (kk, a, b + 1) in nodes)
            if not okn:
                bad.append('C04: no %s node over tokens %d..%d (the grammar prescribes one)' % (kind, a, b))
        for kk, a, b in degenerate(tree):
            bad.append('C04: a %s node wraps nothing but another %s node (tokens %d..%d): the construct is nested twice, so the typed accessors that take "the %s child" find the wrapper instead of the thing itself'
                       % (syn.INV.get(kk, kk), syn.INV.get(kk, kk), a, b, syn.INV.get(kk, kk)))
        rec = {'cls': 'ok', 'ok': True, 'nerr': len(errors), 'depth': it.maxdepth, 'lookaheads': 0}
        if bad:
            rec.update({'cls': 'violation', 'ok': False, 'why': bad[:4], 'cex': {'kinds': self.witness(it)}})
        else:
            rec['sample'] = {'program': self.name, 'tokens': self.witness(it)}
            rec['_tree'] = (log, [])
        return rec


def degenerate(t):
    """[(kind, first token, last token)] of nodes whose only child is a node of the same kind (works on engine trees and, with key 'k', native trees)"""
    out = []
    stack = [t]
    while stack:
        n = stack.pop()
        if not isinstance(n, list):
            continue
        kids = [c for c in n[1:] if not (isinstance(c, dict) and c['k'] <= 3)]          # native trees: trivia tokens do not count
        if len(kids) == 1 and isinstance(kids[0], list) and kids[0][0] == n[0]:
            toks = _tokens(n) if not any(isinstance(x, dict) for x in _flat(n)) else [x['s'] for x in _flat(n) if isinstance(x, dict)]
            out.append((n[0], min(toks) if toks else -1, max(toks) if toks else -1))
        stack.extend(c for c in n[1:] if isinstance(c, list))
    return out


def _flat(n):
    out = []; st = [n]
    while st:
        x = st.pop()
        if isinstance(x, list):
            st.extend(x[1:])
        else:
            out.append(x)
    return out


def _collect(t, nodes):
    """set of (kind, first token, last token) of every node; returns token span"""
    stack = [(t, False)]
    spans = {}
    order = []
    # iterative post-order
    st = [(t, 0)]
    res = {}
    def span(n):
        if isinstance(n, tuple):
            return (n[2], n[2])
        lo = None; hi = None
        for c in n[1:]:
            s = span(c)
            if s is None:
                continue
            lo = s[0] if lo is None else min(lo, s[0]); hi = s[1] if hi is None else max(hi, s[1])
        if lo is not None:
            nodes.add((n[0], lo, hi))
            return (lo, hi)
        return None
    span(t)


class OpChainSpec(synspecs.TokenSpec):
    """const x = [PRE] a OP1 [PRE] b OP2 ... with every operator symbolic over Gleam's binary operators"""

    def __init__(self, nops, prefix_at=()):
        self.nops = nops; self.prefix_at = set(prefix_at)
        synspecs.TokenSpec.__init__(self, 0)

    def make_interp(self):
        it = syn.W.interp('syntax')
        K = syn.KINDS
        self.ops = [z3.BitVec('op%d' % i, 16) for i in range(self.nops)]
        for o in self.ops:
            it.solver.add(z3.Or([o == K[x] for x in BINOPS]))
        self.pres = {}
        seq = [('c', 'CONST_KW'), ('c', 'IDENT'), ('c', 'EQ')]
        self.operand_tok = []; self.op_tok = []; self.pre_tok = {}
        for i in range(self.nops + 1):
            if i in self.prefix_at:
                p = z3.BitVec('pre%d' % i, 16)
                it.solver.add(z3.Or([p == K[x] for x in PREFIX]))
                self.pres[i] = p
                self.pre_tok[i] = len(seq); seq.append(('s', p))
            self.operand_tok.append(len(seq)); seq.append(('c', 'IDENT'))
            if i < self.nops:
                self.op_tok.append(len(seq)); seq.append(('s', self.ops[i]))
        self.ks = [z3.BitVecVal(K[x], 16) if t == 'c' else x for t, x in seq]
        self.kiv = [IntV(K[x], 16, 0) if t == 'c' else IntV(x, 16, 0) for t, x in seq]
        self.syms = list(self.ops) + list(self.pres.values())
        self.prefix = []; self.nsym = len(self.syms); self.n = len(seq)
        self.fuel = synspecs.FuelHook(); it.call_hooks.append(self.fuel)
        return it

    def alternatives(self, it, limit=4):
        return []

    def run_path(self, it):
        K = syn.KINDS
        res, src = syn.parse_tokens(it, [IntV(k.v, 16, 0) for k in self.kiv])
        log, errors = syn.parse_result(res)
        m = it.get_model()
        kv = lambda iv: (iv.v if not iv.sym() else m.eval(iv.v, model_completion=True).as_long())
        tree = syn.tree_from_log(log, kv)
        bad = []
        if errors:
            bad.append('C04: syntax errors on a well-formed operator chain: %s' % [syn.error_info(e) for e in errors][:3])
        # find the expression under MODULE_CONSTANT
        expr = None
        for ch in tree[1:]:
            if isinstance(ch, list) and ch[0] == K['MODULE_CONSTANT']:
                kids = [c for c in ch[1:] if isinstance(c, list) and c[0] != K['NAME']]
                expr = kids[-1] if kids else None
        conds = []
        if expr is None:
            bad.append('C04: no expression under MODULE_CONSTANT')
        else:
            self._shape(expr, conds, bad)
        if conds and not bad:
            r, mm = it.check(z3.Or(conds))
            if r == z3.sat:
                ops = [syn.INV[mm.eval(o, model_completion=True).as_long()] for o in self.ops]
                bad.append('C04: operators %s are grouped against Gleam\'s precedence / left associativity' % ops)
                self._cexm = mm
        rec = {'cls': 'ok', 'ok': True, 'nerr': len(errors), 'depth': it.maxdepth, 'lookaheads': 0}
        if bad:
            mm = getattr(self, '_cexm', None) or it.get_model()
            self._cexm = None
            rec.update({'cls': 'violation', 'ok': False, 'why': bad[:3], 'cex': {'kinds': [syn.INV.get(mm.eval(k, model_completion=True).as_long()) for k in self.ks]}})
        else:
            rec['sample'] = {'chain': self.witness(it)[3:]}
            rec['_tree'] = (log, [])
        return rec

    def _shape(self, node, conds, bad):
        """returns (lo_operand, hi_operand) covered by node; appends z3 'this grouping is wrong' conditions"""
        K = syn.KINDS
        if isinstance(node, tuple):
            return None
        kind = node[0]
        toks = _tokens(node)
        operands = [i for i, t in enumerate(self.operand_tok) if t in toks]
        if kind in (K['BINARY_OP'], K['PIPE']):
            kids = [c for c in node[1:]]
            optoks = [c for c in kids if isinstance(c, tuple)]
            sub = [c for c in kids if isinstance(c, list)]
            if len(optoks) != 1 or len(sub) != 2 or optoks[0][2] not in self.op_tok:
                bad.append('C04: malformed binary node'); return None
            j = self.op_tok.index(optoks[0][2])
            l = self._shape(sub[0], conds, bad); r = self._shape(sub[1], conds, bad)
            if l is None or r is None:
                bad.append('C04: malformed operand'); return None
            lo, hi = l[0], r[1]
            if not (l[1] == j and r[0] == j + 1):
                bad.append('C04: operator %d does not sit between its operands' % j); return None
            lj = level(self.ops[j])
            for i in range(lo, hi):
                if i == j:
                    continue
                li = level(self.ops[i])
                okc = z3.Or(z3.UGT(li, lj), z3.And(li == lj, z3.BoolVal(i < j)))
                conds.append(z3.Not(okc))
            conds.append((self.ops[j] == K['VBAR_GT']) != z3.BoolVal(kind == K['PIPE']))
            return (lo, hi)
        if kind == K['UNARY_OP']:
            sub = [c for c in node[1:] if isinstance(c, list)]
            pt = [c for c in node[1:] if isinstance(c, tuple)]
            if len(sub) != 1 or len(pt) != 1:
                bad.append('C04: malformed unary node'); return None
            s = self._shape(sub[0], conds, bad)
            # prefix binds tighter than any binary operator: its operand is a single operand
            if s is None or s[0] != s[1] or self.pre_tok.get(s[0]) != pt[0][2]:
                bad.append('C04: a prefix operator does not bind tighter than the binary operators'); return None
            return s
        if len(operands) == 1:
            return (operands[0], operands[0])
        bad.append('C04: unexpected node kind %s in an operator chain' % syn.INV.get(kind, kind))
        return None


def _tokens(node):
    out = []; stack = [node]
    while stack:
        x = stack.pop()
        if isinstance(x, tuple):
            out.append(x[2])
        else:
            stack.extend(reversed(x[1:]))
    return out


# ------------------------------------------------------------------------------------------------
# catalogue of well-formed programs (supported surface), with the nodes the grammar prescribes
LIT = lambda: Sym(LITERALS)
OP = lambda: Sym(BINOPS)
OPNP = lambda: Sym([o for o in BINOPS if o != 'VBAR_GT'])     # a BINARY_OP node (|> builds a PIPE node instead)
PRE = lambda: Sym(PREFIX)
FN = lambda name_tokens, body: N('FUNCTION', 'FN_KW', 'IDENT', *name_tokens, N('BLOCK', 'L_BRACE', *body, 'R_BRACE'))
P0 = [N('PARAM_LIST', 'L_PAREN', 'R_PAREN')]

PROGRAMS = {
    'const-literal': N('SOURCE_FILE', N('MODULE_CONSTANT', 'CONST_KW', N('NAME', 'IDENT'), 'EQ', N('LITERAL', LIT()))),
    'pub-const-annotated': N('SOURCE_FILE', N('MODULE_CONSTANT', 'PUB_KW', 'CONST_KW', 'IDENT', 'COLON', N('TYPE_NAME_REF', 'U_IDENT'), 'EQ', LIT()),
                             N('MODULE_CONSTANT', 'CONST_KW', 'IDENT', 'EQ', LIT())),
    'imports': N('SOURCE_FILE', N('IMPORT', 'IMPORT_KW', N('MODULE_PATH', 'IDENT', 'SLASH', 'IDENT')),
                 N('IMPORT', 'IMPORT_KW', N('MODULE_PATH', 'IDENT'), 'AS_KW', N('NAME', 'IDENT')),
                 N('IMPORT', 'IMPORT_KW', 'IDENT', 'DOT', 'L_BRACE', N('UNQUALIFIED_IMPORT', 'IDENT', 'COMMA'), N('UNQUALIFIED_IMPORT', 'U_IDENT', 'AS_KW', 'U_IDENT', 'COMMA'),
                   N('UNQUALIFIED_IMPORT', 'TYPE_KW', 'U_IDENT'), 'R_BRACE'),
                 N('MODULE_CONSTANT', 'CONST_KW', 'IDENT', 'EQ', LIT())),
    'custom-type': N('SOURCE_FILE', N('ADT', 'PUB_KW', 'TYPE_KW', N('TYPE_NAME', 'U_IDENT'), N('GENERIC_PARAM_LIST', 'L_PAREN', 'IDENT', 'COMMA', 'IDENT', 'R_PAREN'), 'L_BRACE',
                                      N('VARIANT', N('NAME', 'U_IDENT')),
                                      N('VARIANT', 'U_IDENT', N('VARIANT_FIELD_LIST', 'L_PAREN', N('VARIANT_FIELD', N('NAME', 'IDENT'), 'COLON', 'U_IDENT'), 'COMMA',
                                                                N('VARIANT_FIELD', 'IDENT'), 'COMMA', N('VARIANT_FIELD', N('TYPE_APPLICATION', 'U_IDENT', N('TYPE_ARG_LIST', 'L_PAREN', 'U_IDENT', 'R_PAREN'))), 'R_PAREN')),
                                      'R_BRACE'),
                     N('FUNCTION', 'FN_KW', 'IDENT', 'L_PAREN', 'R_PAREN', 'L_BRACE', LIT(), 'R_BRACE')),
    'opaque-type-and-alias': N('SOURCE_FILE', N('ADT', 'PUB_KW', 'OPAQUE_KW', 'TYPE_KW', 'U_IDENT', 'L_BRACE', N('VARIANT', 'U_IDENT'), 'R_BRACE'),
                               N('TYPE_ALIAS', 'TYPE_KW', 'U_IDENT', 'EQ', N('TYPE_APPLICATION', 'U_IDENT', 'L_PAREN', 'U_IDENT', 'COMMA', 'IDENT', 'DOT', 'U_IDENT', 'R_PAREN')),
                               N('TYPE_ALIAS', 'PUB_KW', 'TYPE_KW', 'U_IDENT', 'EQ', N('FN_TYPE', 'FN_KW', 'L_PAREN', 'U_IDENT', 'COMMA', 'IDENT', 'R_PAREN', 'R_ARROW', N('TUPLE_TYPE', 'HASH', 'L_PAREN', 'U_IDENT', 'COMMA', 'U_IDENT', 'R_PAREN'))),
                               N('MODULE_CONSTANT', 'CONST_KW', 'IDENT', 'EQ', LIT())),
    'fn-params': N('SOURCE_FILE', N('FUNCTION', 'PUB_KW', 'FN_KW', N('NAME', 'IDENT'),
                                    N('PARAM_LIST', 'L_PAREN', N('PARAM', N('LABEL', 'IDENT'), N('PATTERN_VARIABLE', 'IDENT'), 'COLON', N('TYPE_NAME_REF', 'U_IDENT'), 'COMMA'),
                                      N('PARAM', N('PATTERN_VARIABLE', 'IDENT'), 'COMMA'), N('PARAM', N('HOLE', 'DISCARD_IDENT'), 'COLON', 'IDENT', 'COMMA'),
                                      N('PARAM', N('LABEL', 'IDENT'), N('HOLE', 'DISCARD_IDENT')), 'R_PAREN'),
                                    'R_ARROW', N('TYPE_NAME_REF', 'U_IDENT'), N('BLOCK', 'L_BRACE', N('STMT_EXPR', 'IDENT'), 'R_BRACE')),
                   N('FUNCTION', 'FN_KW', 'IDENT', 'L_PAREN', 'R_PAREN', 'L_BRACE', 'R_BRACE')),
    'attributes': N('SOURCE_FILE', N('FUNCTION', N('EXTERNAL_ATTR', 'AT', 'EXTERNAL_KW', 'L_PAREN', 'IDENT', 'COMMA', 'STRING', 'COMMA', 'STRING', 'R_PAREN'),
                                     'PUB_KW', 'FN_KW', 'IDENT', 'L_PAREN', 'IDENT', 'COLON', 'U_IDENT', 'R_PAREN', 'R_ARROW', 'U_IDENT'),
                    N('FUNCTION', N('TARGET_ATTR', 'AT', 'IDENT', 'L_PAREN', 'IDENT', 'R_PAREN'), 'FN_KW', 'IDENT', 'L_PAREN', 'R_PAREN', 'L_BRACE', LIT(), 'R_BRACE'),
                    N('MODULE_CONSTANT', 'CONST_KW', 'IDENT', 'EQ', LIT())),
    'statements': N('SOURCE_FILE', FN(P0, [N('STMT_LET', 'LET_KW', N('PATTERN_VARIABLE', 'IDENT'), 'EQ', N('LITERAL', LIT())),
                                           N('STMT_LET', 'LET_KW', 'ASSERT_KW', N('VARIANT_REF', 'U_IDENT', 'L_PAREN', 'IDENT', 'R_PAREN'), 'COLON', 'U_IDENT', 'EQ', N('EXPR_CALL', 'IDENT', 'L_PAREN', 'IDENT', 'R_PAREN')),
                                           N('STMT_USE', 'USE_KW', 'IDENT', 'COMMA', 'IDENT', 'L_ARROW', N('EXPR_CALL', 'IDENT', 'L_PAREN', LIT(), 'R_PAREN')),
                                           N('STMT_EXPR', N('BINARY_OP', 'IDENT', OPNP(), 'IDENT')),
                                           N('STMT_EXPR', 'IDENT')]),
                    N('FUNCTION', 'FN_KW', 'IDENT', 'L_PAREN', 'R_PAREN', 'L_BRACE', 'R_BRACE')),
    'postfix-chain': N('SOURCE_FILE', FN(P0, [N('STMT_EXPR', N('TUPLE_INDEX', N('EXPR_CALL', N('FIELD_ACCESS', N('FIELD_ACCESS', 'IDENT', 'DOT', 'IDENT'), 'DOT', 'IDENT'),
                                                                                 N('ARG_LIST', 'L_PAREN', N('ARG', LIT(), 'COMMA'), N('ARG', N('LABEL', 'IDENT'), 'COLON', 'IDENT'), 'R_PAREN')), 'DOT', 'INTEGER')),
                                              N('STMT_LET', 'LET_KW', 'IDENT', 'EQ', N('BINARY_OP', N('UNARY_OP', PRE(), N('EXPR_CALL', 'IDENT', 'L_PAREN', 'R_PAREN')), OPNP(), N('FIELD_ACCESS', 'IDENT', 'DOT', 'IDENT')))])),
    'tuple-index-chain': N('SOURCE_FILE', FN(P0, [N('STMT_EXPR', N('FIELD_ACCESS', N('TUPLE_INDEX', 'IDENT', 'DOT', 'INTEGER'), 'DOT', 'IDENT')),
                                                  N('STMT_EXPR', N('EXPR_CALL', N('TUPLE_INDEX', 'IDENT', 'DOT', 'INTEGER'), 'L_PAREN', LIT(), 'R_PAREN'))])),
    'collections': N('SOURCE_FILE', FN(P0, [N('STMT_LET', 'LET_KW', 'IDENT', 'EQ', N('LIST', 'L_SQUARE', LIT(), 'COMMA', 'IDENT', 'COMMA', N('EXPR_SPREAD', 'DOT_DOT', 'IDENT'), 'R_SQUARE')),
                                            N('STMT_LET', 'LET_KW', 'IDENT', 'EQ', N('TUPLE', 'HASH', 'L_PAREN', LIT(), 'COMMA', N('TUPLE', 'HASH', 'L_PAREN', 'IDENT', 'R_PAREN'), 'R_PAREN')),
                                            N('STMT_EXPR', N('EXPR_CALL', N('VARIANT_CONSTRUCTOR', 'U_IDENT'), 'L_PAREN', N('ARG', 'DOT_DOT', 'IDENT', 'COMMA'), N('ARG', 'IDENT', 'COLON', LIT()), 'R_PAREN')),
                                            N('STMT_EXPR', N('BLOCK', 'L_BRACE', 'IDENT', 'R_BRACE')),
                                            N('STMT_EXPR', N('MISSING', 'TODO_KW', 'AS_KW', 'STRING')),
                                            N('STMT_EXPR', N('MISSING', 'PANIC_KW'))])),
    'lambda-and-pipe': N('SOURCE_FILE', FN(P0, [N('STMT_LET', 'LET_KW', 'IDENT', 'EQ', N('LAMBDA', 'FN_KW', N('PARAM_LIST', 'L_PAREN', 'IDENT', 'COMMA', 'IDENT', 'COLON', 'U_IDENT', 'R_PAREN'), 'R_ARROW', 'U_IDENT',
                                                                                       N('BLOCK', 'L_BRACE', N('BINARY_OP', 'IDENT', OPNP(), 'IDENT'), 'R_BRACE'))),
                                                N('STMT_EXPR', N('PIPE', N('PIPE', 'IDENT', 'VBAR_GT', N('EXPR_CALL', 'IDENT', 'L_PAREN', N('HOLE', 'DISCARD_IDENT'), 'COMMA', LIT(), 'R_PAREN')), 'VBAR_GT', 'IDENT'))])),
    'case': N('SOURCE_FILE', FN([N('PARAM_LIST', 'L_PAREN', 'IDENT', 'COMMA', 'IDENT', 'R_PAREN')],
                                [N('STMT_EXPR', N('CASE', 'CASE_KW', 'IDENT', 'COMMA', 'IDENT', 'L_BRACE',
                                                  N('CLAUSE', N('ALTERNATIVE_PATTERN', N('VARIANT_REF', 'U_IDENT', N('VARIANT_REF_FIELD_LIST', 'L_PAREN', N('VARIANT_REF_FIELD', N('LABEL', 'IDENT'), 'COLON', 'IDENT', 'COMMA'), N('VARIANT_REF_FIELD', 'DOT_DOT'), 'R_PAREN'))), 'COMMA',
                                                    N('ALTERNATIVE_PATTERN', N('PATTERN_LIST', 'L_SQUARE', 'IDENT', 'COMMA', N('PATTERN_SPREAD', 'DOT_DOT', 'IDENT'), 'R_SQUARE')), 'R_ARROW', LIT()),
                                                  N('CLAUSE', N('ALTERNATIVE_PATTERN', N('LITERAL', LIT())), 'COMMA', N('ALTERNATIVE_PATTERN', N('HOLE', 'DISCARD_IDENT')),
                                                    N('PATTERN_GUARD', 'IF_KW', N('BINARY_OP', 'IDENT', OPNP(), 'IDENT')), 'R_ARROW', N('BLOCK', 'L_BRACE', 'IDENT', 'R_BRACE')),
                                                  N('CLAUSE', N('ALTERNATIVE_PATTERN', N('AS_PATTERN', N('PATTERN_TUPLE', 'HASH', 'L_PAREN', 'IDENT', 'COMMA', 'DISCARD_IDENT', 'R_PAREN'), 'AS_KW', 'IDENT')), 'COMMA',
                                                    N('ALTERNATIVE_PATTERN', N('PATTERN_CONCAT', N('LITERAL', 'STRING'), 'LT_GT', N('PATTERN_VARIABLE', N('NAME', 'IDENT')))), 'R_ARROW', 'IDENT'),
                                                  N('CLAUSE', N('ALTERNATIVE_PATTERN', N('VARIANT_REF', 'IDENT', 'DOT', 'U_IDENT')), 'COMMA', N('ALTERNATIVE_PATTERN', N('PATTERN_VARIABLE', 'IDENT')), 'R_ARROW', LIT()),
                                                  'R_BRACE'))]),
              N('MODULE_CONSTANT', 'CONST_KW', 'IDENT', 'EQ', LIT())),
    'type-exprs': N('SOURCE_FILE',
                    N('FUNCTION', 'FN_KW', 'IDENT',
                      N('PARAM_LIST', 'L_PAREN',
                        N('PARAM', 'IDENT', 'COLON', N('TYPE_APPLICATION', 'U_IDENT', N('TYPE_ARG_LIST', 'L_PAREN', N('FN_TYPE', 'FN_KW', 'L_PAREN', 'IDENT', 'R_PAREN', 'R_ARROW', 'IDENT'), 'R_PAREN')), 'COMMA'),
                        N('PARAM', 'IDENT', 'COLON', N('TUPLE_TYPE', 'HASH', 'L_PAREN', 'U_IDENT', 'COMMA', N('FN_TYPE', 'FN_KW', 'L_PAREN', 'R_PAREN', 'R_ARROW', 'IDENT'), 'R_PAREN')), 'R_PAREN'),
                      'R_ARROW', N('TYPE_APPLICATION', 'U_IDENT', 'L_PAREN', 'IDENT', 'COMMA',
                                   N('FN_TYPE', 'FN_KW', 'L_PAREN', 'IDENT', 'COMMA', 'IDENT', 'R_PAREN', 'R_ARROW', N('TUPLE_TYPE', 'HASH', 'L_PAREN', 'IDENT', 'COMMA', 'IDENT', 'R_PAREN')), 'R_PAREN'),
                      N('BLOCK', 'L_BRACE', 'IDENT', 'R_BRACE')),
                    N('ADT', 'TYPE_KW', 'U_IDENT', 'L_BRACE',
                      N('VARIANT', 'U_IDENT', 'L_PAREN', N('VARIANT_FIELD', 'IDENT', 'COLON', N('FN_TYPE', 'FN_KW', 'L_PAREN', 'U_IDENT', 'R_PAREN', 'R_ARROW', 'U_IDENT')), 'COMMA',
                        N('VARIANT_FIELD', N('TYPE_APPLICATION', 'U_IDENT', 'L_PAREN', N('FN_TYPE', 'FN_KW', 'L_PAREN', 'R_PAREN', 'R_ARROW', 'IDENT'), 'COMMA', N('TYPE_APPLICATION', 'U_IDENT', 'L_PAREN', 'U_IDENT', 'R_PAREN'), 'R_PAREN')), 'R_PAREN'),
                      'R_BRACE'),
                    N('MODULE_CONSTANT', 'CONST_KW', 'IDENT', 'COLON', N('TYPE_APPLICATION', 'U_IDENT', 'L_PAREN', N('TUPLE_TYPE', 'HASH', 'L_PAREN', 'U_IDENT', 'COMMA', 'IDENT', 'DOT', 'U_IDENT', 'R_PAREN'), 'R_PAREN'), 'EQ', LIT())),
    # Gleam: `|` separates the alternatives of a clause, each alternative is a comma-separated list with one pattern per subject
    'case-alternatives': N('SOURCE_FILE', FN([N('PARAM_LIST', 'L_PAREN', 'IDENT', 'COMMA', 'IDENT', 'R_PAREN')],
                                             [N('STMT_EXPR', N('CASE', 'CASE_KW', 'IDENT', 'COMMA', 'IDENT', 'L_BRACE',
                                                               N('CLAUSE', N('ALTERNATIVE_PATTERN', LIT(), 'COMMA', LIT()), 'VBAR', N('ALTERNATIVE_PATTERN', LIT(), 'COMMA', LIT()), 'R_ARROW', LIT()),
                                                               'R_BRACE'))])),
    'item-boundaries': N('SOURCE_FILE', N('TYPE_ALIAS', 'TYPE_KW', 'U_IDENT', 'EQ', 'U_IDENT'), N('FUNCTION', 'FN_KW', 'IDENT', 'L_PAREN', 'R_PAREN', 'L_BRACE', N('STMT_EXPR', 'IDENT'), N('STMT_EXPR', 'IDENT', 'L_PAREN', 'R_PAREN'), 'R_BRACE'),
                         N('ADT', 'TYPE_KW', 'U_IDENT', 'L_BRACE', 'U_IDENT', 'R_BRACE'), N('IMPORT', 'IMPORT_KW', 'IDENT'), N('MODULE_CONSTANT', 'CONST_KW', 'IDENT', 'EQ', 'IDENT', 'DOT', 'IDENT'),
                         N('FUNCTION', 'PUB_KW', 'FN_KW', 'IDENT', 'L_PAREN', 'R_PAREN', 'L_BRACE', 'R_BRACE')),
}

BOUNDS = {'quick': {'chain': [(1, ()), (2, ()), (3, ()), (2, (0,)), (2, (1,)), (2, (0, 2))], 'trivia_programs': []},
          'thorough': {'chain': [(1, ()), (2, ()), (3, ()), (4, ()), (2, (0,)), (2, (1,)), (2, (2,)), (3, (0, 2)), (3, (1, 3))], 'trivia_programs': []}}


def chain_factory(nops, prefix_at):
    return OpChainSpec(nops, prefix_at)


def program_factory(name):
    return ProgramSpec(name)


def _in(b, lo, hi):
    return z3.And(z3.UGE(b, ord(lo)), z3.ULE(b, ord(hi)))


def gleam_int(bs):
    """valid Gleam integer literal: decimal digits (underscores inside), 0x hex, 0o octal, 0b binary"""
    if not bs:
        return z3.BoolVal(False)
    dec = z3.And([_in(bs[0], '0', '9')] + [z3.Or(_in(b, '0', '9'), b == ord('_')) for b in bs[1:]])
    alts = [dec]
    if len(bs) >= 3:
        pre = lambda a, b: z3.And(bs[0] == ord('0'), z3.Or(bs[1] == ord(a), bs[1] == ord(b)))
        hexd = lambda b: z3.Or(_in(b, '0', '9'), _in(b, 'a', 'f'), _in(b, 'A', 'F'), b == ord('_'))
        alts.append(z3.And([pre('x', 'X'), z3.Not(bs[2] == ord('_'))] + [hexd(b) for b in bs[2:]]))
        alts.append(z3.And([pre('o', 'O'), z3.Not(bs[2] == ord('_'))] + [z3.Or(_in(b, '0', '7'), b == ord('_')) for b in bs[2:]]))
        alts.append(z3.And([pre('b', 'B'), z3.Not(bs[2] == ord('_'))] + [z3.Or(_in(b, '0', '1'), b == ord('_')) for b in bs[2:]]))
    return z3.Or(alts)


class LiteralClassSpec(synspecs.LexStepSpec):
    """every valid Gleam integer literal of n bytes is ONE INTEGER token of the real lexer (the converse is not demanded)"""

    def run_path(self, it):
        n = self.n
        src = [IntV(b, 8, 0) for b in self.bs]
        lx = LexerV(src)
        gl = Agg('struct', 'GleamLexer', None, [lx])
        r = it.run_body(self.next, [RefV([gl], 0)])
        single_int = None
        if r.variant == 'Some':
            tok = r.fields[0]; k = tok.fields[0]
            e = models.tsz(tok.fields[2].fields[1]).v
            if e == n:
                single_int = (k.v == syn.KINDS['INTEGER']) if not k.sym() else (k.v == syn.KINDS['INTEGER'])
        ref = gleam_int(self.bs)
        if single_int is True:
            cond = z3.BoolVal(False)
        elif single_int is None or single_int is False:
            cond = ref
        else:
            cond = z3.And(ref, z3.Not(single_int))
        rr, m = it.check(cond)
        rec = {'ok': True, 'cls': 'int' if single_int is True else 'other'}
        if rr == z3.sat:
            w = bytes(m.eval(b, model_completion=True).as_long() for b in self.bs)
            rec = {'cls': 'violation', 'ok': False, 'why': ['C04: the integer literal %r is not lexed as one INTEGER token' % w.decode('latin1')], 'cex': {'bytes': w.hex()}}
        else:
            rec['sample'] = {'text': self.witness(it).hex(), 'class': rec['cls']}
        return rec


def literal_factory(n):
    return LiteralClassSpec(n)


def gleam_string(bs):
    """valid Gleam string literal of exactly len(bs) bytes: '"' body '"' where the body is a sequence of ordinary characters (anything but '"' and
    '\\', line breaks included) and escapes '\\' + one of " \\ f n r t.  (\\u{..} escapes are left out: they need >= 6 body bytes.)  Written as a
    left-to-right scan over the bytes: esc[i] = 'byte i is the second byte of an escape'"""
    n = len(bs)
    if n < 2:
        return z3.BoolVal(False)
    conds = [bs[0] == 0x22, bs[n - 1] == 0x22]
    esc_prev = z3.BoolVal(False)          # is byte i-1 a backslash that STARTS an escape?
    for i in range(1, n - 1):
        b = bs[i]
        is_bs = b == 0x5C
        ok_escape_char = z3.Or([b == c for c in (0x22, 0x5C, ord('f'), ord('n'), ord('r'), ord('t'))])
        # if the previous byte opened an escape this byte must be an escape character and does not open one itself
        conds.append(z3.If(esc_prev, ok_escape_char, z3.And(b != 0x22)))
        esc_prev = z3.And(z3.Not(esc_prev), is_bs)
    conds.append(z3.Not(esc_prev))        # the closing quote is not escaped
    return z3.And(conds)


class StringClassSpec(synspecs.LexStepSpec):
    """every valid Gleam string literal of n bytes (escapes included, in particular an escaped backslash right before the closing quote) is ONE STRING token"""

    def run_path(self, it):
        n = self.n
        src = [IntV(b, 8, 0) for b in self.bs]
        gl = Agg('struct', 'GleamLexer', None, [LexerV(src)])
        r = it.run_body(self.next, [RefV([gl], 0)])
        single = None
        if r.variant == 'Some':
            tok = r.fields[0]; k = tok.fields[0]
            e = models.tsz(tok.fields[2].fields[1]).v
            if e == n:
                single = (k.v == syn.KINDS['STRING'])
        ref = gleam_string(self.bs)
        cond = z3.BoolVal(False) if single is True else ref
        rr, m = it.check(cond)
        rec = {'ok': True, 'cls': 'string' if single is True else 'other'}
        if rr == z3.sat:
            w = bytes(m.eval(b, model_completion=True).as_long() for b in self.bs)
            rec = {'cls': 'violation', 'ok': False, 'why': ['C04: the string literal %r is not lexed as one STRING token' % w.decode('utf-8', 'replace')], 'cex': {'bytes': w.hex()}}
        else:
            rec['sample'] = {'text': self.witness(it).hex(), 'class': rec['cls']}
        return rec


def string_factory(n):
    return StringClassSpec(n)


def confirm(chk, res, oracle, sp, label):
    for v in res.violations:
        kinds = [syn.KINDS[k] for k in v['cex']['kinds']]
        txt = sp.text_for(kinds, oracle)
        if txt is None:
            chk.extra['unrealisable'] = chk.extra.get('unrealisable', 0) + 1
            continue
        nat = oracle.ask('parse', txt)
        # the native tree must show the same defect: re-evaluate the same criteria on the native tree
        problem = None
        if 'tree' not in nat:
            problem = 'native parser: %s' % nat
        elif nat['errors']:
            problem = 'native parser reports %s' % nat['errors'][:3]
        else:
            problem = 'native tree: %s' % _sexp(nat['tree'], txt)
        okc = True
        if all('wraps nothing but' in w for w in v['why']):
            okc = 'tree' in nat and bool(degenerate(nat['tree']))          # the native tree must show the same double nesting
        chk.violation('structure' + (':' + label.split('program ')[1] if label.startswith('program ') else ''), 'bounded', '%s: %s; program %r; %s' % (label, '; '.join(v['why'])[:300], txt, problem[:400]), {'text': txt, 'kinds': v['cex']['kinds']}, confirmed=okc)


def _sexp(t, txt):
    if isinstance(t, dict):
        return txt.encode()[t['s']:t['e']].decode() if t['k'] > syn.KINDS['COMMENT_MODULE'] else ''
    inner = ' '.join(x for x in (_sexp(c, txt) for c in t[1:]) if x)
    return '(%s %s)' % (syn.INV.get(t[0], t[0]), inner)


def main(tier, seed):
    chk = Check('C04', tier, seed)
    B = BOUNDS[tier]
    jobs = int(os.environ.get('VERIF_JOBS', '16'))
    syn.load('dev', log=chk.log)
    oracle = native.Oracle(syn.ORACLE_BIN)
    sp = syn.Spellings(oracle)
    for nops, pre in B['chain']:
        res, complete = explore.explore(chain_factory, (nops, tuple(pre)), jobs=jobs)
        name = 'operator chain: %d symbolic binary operators, prefix operators at operands %s' % (nops, list(pre))
        chk.add_run(name, res, complete, {'binary_operators': nops, 'operator_alphabet': '%d Gleam binary operators' % len(BINOPS), 'prefix_at': list(pre)})
        confirm(chk, res, oracle, sp, name)
        synrun.validate_samples(chk, res, oracle, sp, 'chain %d %s' % (nops, list(pre)))
    # literals: every valid Gleam integer literal is one INTEGER token (the catalogue spells literals with one fixed text per kind)
    for n in range(1, (5 if tier == 'quick' else 6) + 1):
        res, complete = explore.explore(literal_factory, (n,), jobs=jobs)
        chk.add_run('integer literals of %d bytes through the real lexer' % n, res, complete, {'bytes': n}, nontrivial_classes=lambda c: c == 'int')
        for v in res.violations:
            txt = bytes.fromhex(v['cex']['bytes']).decode('latin1')
            nat = oracle.ask('lex', txt)
            toks = nat.get('tokens') if isinstance(nat, dict) else None
            okc = not (toks and len(toks) == 1 and toks[0][0] == syn.KINDS['INTEGER'])
            chk.violation('lexer:integer-literal', 'bounded', '%s; native lexer on %r: %s' % (v['why'][0], txt, toks), {'text': txt}, confirmed=okc)
            break
    for n in range(2, (6 if tier == 'quick' else 7) + 1):
        res, complete = explore.explore(string_factory, (n,), jobs=jobs)
        chk.add_run('string literals of %d bytes (escapes included) through the real lexer' % n, res, complete, {'bytes': n}, nontrivial_classes=lambda c: c == 'string')
        for v in res.violations:
            txt = bytes.fromhex(v['cex']['bytes']).decode('utf-8', 'replace')
            nat = oracle.ask('lex', txt)
            toks = nat.get('tokens') if isinstance(nat, dict) else None
            okc = not (toks and len(toks) == 1 and toks[0][0] == syn.KINDS['STRING'])
            chk.violation('lexer:string-literal', 'bounded', '%s; native lexer on %r: %s' % (v['why'][0], txt, toks), {'text': txt}, confirmed=okc)
            break
    for pname in PROGRAMS:
        res, complete = explore.explore(program_factory, (pname,), jobs=jobs)
        chk.add_run('program ' + pname, res, complete, {'program': pname, 'symbolic_terminals': 'literal kinds, binary operators, prefix operators'})
        confirm(chk, res, oracle, sp, 'program ' + pname)
        synrun.validate_samples(chk, res, oracle, sp, 'program ' + pname)
    oracle.close()
    chk.assumptions += synrun.SYN_ASSUMPTIONS + [
        'reference grammar = the operator table PREC_LEVELS (Gleam language reference) and the annotated program catalogue PROGRAMS in specs/c04.py; programs outside the catalogue, '
        'chains longer than the bound and bit-array segments (marked ToDo in the parser) are outside the claim',
        'ast.rs typed accessors run on rowan cursors and are not executed; the builder log is the tree they read',
        'whitespace/comment placement does not change the token vector the parser sees (trivia is filtered before parsing; its re-insertion is decided by C01)']
    chk.trusted += synrun.SYN_TRUSTED
    syn.W.cleanup()
    return chk.finish({'programs': len(PROGRAMS), 'unrealisable_counterexamples': chk.extra.get('unrealisable', 0)})


def replay(path):
    d = json.load(open(path))
    syn.load('dev', log=lambda m: None)
    oracle = native.Oracle(syn.ORACLE_BIN)
    nat = oracle.ask('parse', d['cex']['text'])
    print(json.dumps({'text': d['cex']['text'], 'errors': nat.get('errors'), 'tree': _sexp(nat['tree'], d['cex']['text']) if 'tree' in nat else nat}, indent=1))
    return 0
