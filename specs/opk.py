"""C09 / C04 kernel: the operator token of a binary expression is typed as Gleam types that operator.

syntax::ast::BinaryOp::op_details maps the operator TOKEN to a BinaryOpKind (per-token closure of a find_map, real MIR, full mode); ide's
inference then types the expression by that kind (the term kernel, termk.py).  Here the token's kind is ONE symbolic SyntaxKind over all
kinds; on every path the solver decides whether some kind admitted by the path condition is mapped to a BinaryOpKind whose typing class
(operand type, result type - by variant name, the same reference table the term kernel uses) differs from the class Gleam gives the
operator spelled by that token.  Tokens that are no binary operator must map to nothing.  `!=`, `&&`, `||` may stay unmapped (the HIR
does not model them; listed in DESIGN as a known gap) but must not be given a wrong class."""
import os, re
import z3
from mirsym.values import *
from mirsym import models
from . import syn, termk

# Gleam: spelling -> (operand type or None = both sides equal, result)
GLEAM = {'+': ('Int', 'Int'), '-': ('Int', 'Int'), '*': ('Int', 'Int'), '/': ('Int', 'Int'), '%': ('Int', 'Int'),
         '>': ('Int', 'Bool'), '<': ('Int', 'Bool'), '>=': ('Int', 'Bool'), '<=': ('Int', 'Bool'),
         '+.': ('Float', 'Float'), '-.': ('Float', 'Float'), '*.': ('Float', 'Float'), '/.': ('Float', 'Float'),
         '>.': ('Float', 'Bool'), '<.': ('Float', 'Bool'), '>=.': ('Float', 'Bool'), '<=.': ('Float', 'Bool'),
         '==': (None, 'Bool'), '!=': (None, 'Bool'), '<>': ('String', 'String'), '&&': ('Bool', 'Bool'), '||': ('Bool', 'Bool')}
MAY_BE_UNMAPPED = {'!=', '&&', '||'}


def spellings():
    """kind name -> spelling, from the #[token("..")] attributes of kind.rs"""
    kind_rs = open(os.path.join(os.environ.get('VERIF_REPO', '/repo'), 'crates/syntax/src/kind.rs'), encoding='utf-8').read()
    out = {}
    for m in re.finditer(r'#\[token\("((?:[^"\\]|\\.)*)"\)\]\s*\n\s*(\w+)', kind_rs):
        out[m.group(2)] = eval('"%s"' % m.group(1))
    return out


class OpSpec:
    def make_interp(self):
        it = syn.W.interp('syntax')
        self.kind = z3.BitVec('kind', 16)
        self.all = sorted(syn.KINDS.values())
        it.solver.add(z3.Or([self.kind == k for k in self.all]))
        spec = self
        it.models['SyntaxToken::kind'] = lambda it_, c, a: IntV(spec.kind, 16, 0)
        it.models['NodeOrToken::into_token'] = lambda it_, c, a: some(Opaque('token'))
        self.ops = [vn for vn, hf, d in syn.W.enums['BinaryOpKind']]
        self.sp = spellings()
        return it

    def run_path(self, it):
        clo = next(b for n, b in syn.W.crates['syntax'].items() if re.search(r'BinaryOp>?::op_details::\{closure#0\}$', n) or re.search(r'ast::<impl at [^>]*>::op_details::\{closure#0\}$', n) and 'BinaryOpKind' in b.ret)
        env = Agg('closure', clo.args[0][1].lstrip('&mut ').strip(), None, [])
        r = models.deref(it.run_body(clo, [RefV([env], 0), Opaque('element')]))
        if r.variant == 'Some':
            op = models.deref(r.fields[0]).fields[1]
            opn = self.ops[op.v] if not op.sym() else None
        else:
            opn = None
        got = termk.OPS_REF.get(opn) if opn else None
        # every kind this path admits
        bad = []; n = 0
        it.solver.push()
        try:
            while True:
                it.nq += 1
                if it.solver.check() != z3.sat:
                    break
                k = it.solver.model().eval(self.kind, model_completion=True).as_long()
                it.solver.add(self.kind != k); n += 1
                name = syn.INV[k]; spell = self.sp.get(name)
                want = GLEAM.get(spell)
                if want is None:
                    if opn is not None:
                        bad.append('C09: the token %s (%r) is no binary operator of Gleam but is mapped to BinaryOpKind::%s' % (name, spell, opn))
                elif opn is None:
                    if spell not in MAY_BE_UNMAPPED:
                        bad.append('C09: the operator %r (token %s) is mapped to no BinaryOpKind: the expression stays untyped' % (spell, name))
                elif got is None or got != want:
                    bad.append('C09: the operator %r (token %s) is mapped to BinaryOpKind::%s, typed %s; Gleam types it %s' % (spell, name, opn, got, want))
        finally:
            it.solver.pop()
        rec = {'cls': 'op:%s' % opn if opn else 'none', 'ok': True, 'sample': {'maps_to': opn, 'token_kinds_on_this_path': n}}
        if bad:
            m = re.search(r"operator '([^']*)'", bad[0])
            spell = m.group(1) if m else '+'
            prog = 'fn subject(p, q) {\n  { p %s q }\n}\n' % spell
            rec.update({'cls': 'violation', 'ok': False, 'why': bad[:3], 'cex': {'operator': spell, 'program': prog, 'gleam': GLEAM.get(spell)}})
        return rec

    def on_panic(self, it, e):
        return {'cls': 'panic:' + e.kind, 'ok': False, 'why': ['C10: BinaryOp::op_details panics: %s' % e], 'cex': {'panic': str(e)}}


def factory():
    return OpSpec()


def native_witness(oracle, spell):
    """hover on the function of `fn subject(p, q) { { p OP q } }`: parameter and result types must be Gleam's"""
    import json
    want = GLEAM.get(spell)
    if want is None:
        return None
    prog = 'fn subject(p, q) {\n  { p %s q }\n}\n' % spell
    r = oracle.ask('hover', json.dumps({'text': prog, 'offsets': [prog.index('subject')]}))
    if not isinstance(r, dict) or 'hover' not in r:
        return 'hover on %r: %s' % (prog, str(r)[:200])
    h = (r['hover'] or [None])[0]
    m = re.search(r'```gleam\n(.*?)\n```', h or '', flags=re.S)
    if not m:
        return 'hover on %r gives nothing' % prog
    try:
        sig = termk.parse_ty(re.sub(r'^fn\s+subject', 'fn', m.group(1).strip()))
    except ValueError as e:
        return 'hover output %r not understood' % h
    operand, res = want
    a = (operand,) if operand else ('var', 'x')
    exp = ('Fn', (a, a), (res,))
    if spell in MAY_BE_UNMAPPED:
        # unmodelled operators: anything is accepted as long as it is not a WRONG concrete class
        if sig[0] == 'Fn' and all(t[0] == 'var' for t in sig[1]) and sig[2][0] == 'var':
            return None
    if not termk.alpha_eq([(sig, exp)]):
        return 'hover on %r shows %s; Gleam types the operator %s x %s -> %s' % (prog, m.group(1).strip(), operand or 'a', operand or 'a', res)
    return None
