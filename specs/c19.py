"""C19 — the semantic-token stream decodes to exactly the highlighted identifiers (kernel: the encoder)."""
import os, json
from mirsym import explore
from . import vfsrun, vfsk
from .runner import Check

BOUNDS = {'quick': [(6, 1), (5, 2)], 'thorough': [(8, 1), (7, 2), (6, 3)]}


def main(tier, seed):
    chk = Check('C19', tier, seed)
    jobs = int(os.environ.get('VERIF_JOBS', '16'))
    oracle = vfsrun.setup(chk)
    try:
        for (n, m) in BOUNDS[tier]:
            for nn in range(m, n + 1):
                res, complete = explore.explore(vfsrun.semtok_factory, (nn, m), jobs=jobs)
                chk.add_run('encoder doc=%d bytes, %d highlights' % (nn, m), res, complete, {'doc_bytes': nn, 'highlights': m, 'offsets': 'symbolic'},
                            nontrivial_classes=lambda c: c.startswith('ok:') and not c.startswith('ok:0'))
                vfsrun.confirm_semtok(chk, res, oracle, 'doc=%d hls=%d' % (nn, m))
                vfsrun.validate_semtok(chk, res, oracle, 'doc=%d hls=%d' % (nn, m))
        vfsrun.linemap_suite(chk, oracle, jobs, ['C19'], 4 if tier == 'quick' else 6, label='line ends')
    finally:
        oracle.close(); vfsk.W.cleanup()
    # (c) which tokens a full-document / range request covers: ide::semantic_highlighting::highlight
    from . import hlrange
    hlrange.part(chk, tier, jobs)
    chk.assumptions += vfsrun.ASSUMPTIONS + [
        'part d: the tagging closure of highlight() runs under-constrained on one token: a tag must follow from classify_node on that token (Function / function-typed Local / Variant) or from the token being a variant declaration name, and such tokens must be tagged; that classify_node and Local::ty themselves are right is C05/C09 territory; a 10-identifier fixture is compared through the public API',
        'part c: highlight() runs on its real MIR over a chain of <= 3 (thorough 4) tokens with symbolic contiguous ranges (token length 1..3), a symbolic requested range, and a havoc\'d tagging closure; obligations: reported ranges are token ranges starting before the exclusive end of the request and not before the token containing its start, strictly increasing, and tagged tokens in the window are reported; the rowan token navigation (first_token / token_at_offset.right_biased / next_token / text_range) is modelled; every byte range of a fixture is replayed through ide::Analysis::syntax_highlight',
        'kernel claim: the highlight list is an arbitrary list of non-empty, increasing, non-overlapping single-line ranges on char boundaries with arbitrary tags '
        '(what ide::highlight produces for identifier tokens); how classify_node resolves an identifier needs the salsa database and is outside the claim',
        'token-type indices are decoded with the legend the server advertises (def_index! table in semantic_tokens.rs)']
    chk.trusted += vfsrun.TRUSTED
    return chk.finish()


def replay(path):
    d = json.load(open(path))
    if d.get('site') in ('highlight-range', 'highlight-tags'):
        from mirsym import native
        from . import hlrange
        o = native.Oracle(native.build('oracle-ide'))
        print(json.dumps(hlrange.native_scan(o) if d['site'] == 'highlight-range' else {'tagged': hlrange.native_tags(o)[0], 'expected': hlrange.TAG_EXPECT}, indent=1)); o.close()
        return 0
    chk = Check('C19-replay', 'quick', 0)
    oracle = vfsrun.setup(chk)
    print(json.dumps(oracle.ask('semtok', doc=d['cex']['doc'], hls=d['cex']['hls'])))
    return 0
