"""C16 native layer: convergence of the published diagnostics over z3-enumerated message scenarios against the REAL `glas --stdio` binary.

Two documents A and B of one project are open.  A scenario is a sequence of n steps, each one of: edit A into a text WITH a syntax error,
edit A into an error-free text, edit B, close A, re-open A with the text it had when it was closed - followed by a gap of 0 or 25 ms before
the next message.  z3 enumerates every sequence that is well-formed (A is closed only when open, edited only when open, re-opened only when
closed, and open at the end).  Once the client has been quiet, the LAST textDocument/publishDiagnostics of each open document must carry the
diagnostics of that document's final text (computed by a fresh analysis: oracle-ide `diag`), the server must be alive and answer a hover.

Executed code with real timing, not a solver verdict: the schedules explored are the ones these message gaps produce on this machine."""
import json, time, os
import z3
from mirsym import lsp_replay

NFUN = 250
OPS = ['edit A: syntax error', 'edit A: error free', 'edit B', 'close A', 're-open A']


def text_a(k, err):
    return ''.join('pub fn f%d() {\n  %d\n}\n' % (i, i + k) for i in range(NFUN)) + ('bla = bla\n' if err else '')


def text_b(k):
    return 'pub fn b() {\n  %d\n}\n' % k


def all_scenarios(n, limit=None, seed=0):
    s = z3.Solver()
    if seed:
        s.set('random_seed', seed)
    op = [z3.BitVec('op%d' % i, 3) for i in range(n)]; gap = [z3.BitVec('gap%d' % i, 1) for i in range(n)]
    is_open = z3.BoolVal(True)
    for i in range(n):
        s.add(z3.ULT(op[i], len(OPS)))
        s.add(z3.Implies(z3.Or(op[i] == 0, op[i] == 1, op[i] == 3), is_open))
        s.add(z3.Implies(op[i] == 4, z3.Not(is_open)))
        is_open = z3.If(op[i] == 3, z3.BoolVal(False), z3.If(op[i] == 4, z3.BoolVal(True), is_open))
    s.add(is_open)
    out = []; nq = 0
    while True:
        nq += 1
        if s.check() != z3.sat:
            break
        m = s.model()
        val = [(m.eval(op[i], model_completion=True).as_long(), m.eval(gap[i], model_completion=True).as_long()) for i in range(n)]
        out.append(val)
        s.add(z3.Or([z3.Or(op[i] != v[0], gap[i] != v[1]) for i, v in enumerate(val)]))
        if limit and len(out) >= limit:
            break
    return out, nq


def describe(sc):
    return ', '.join('%s%s' % (OPS[o], ' +25ms' if g else '') for o, g in sc)


def run_scenario(binary, oracle_diag, sc):
    """-> problem string or None"""
    s = lsp_replay.Session(binary, timeout=20.0)
    try:
        ua, ub = s.uri('a.gleam'), s.uri('b.gleam')
        ta, tb = text_a(0, True), text_b(0)
        for name, t in (('a.gleam', ta), ('b.gleam', tb)):
            open(os.path.join(s.root, 'src', name), 'w').write(t)
        s.notify('textDocument/didOpen', {'textDocument': {'uri': ua, 'languageId': 'gleam', 'version': 1, 'text': ta}})
        s.notify('textDocument/didOpen', {'textDocument': {'uri': ub, 'languageId': 'gleam', 'version': 1, 'text': tb}})
        lsp_replay.drain(s, quiet=0.6, limit=15.0)
        ver = 1; a_open = True; n0 = len(s.notifications)
        for k, (o, g) in enumerate(sc):
            ver += 1
            if o in (0, 1):
                ta = text_a(k + 1, o == 0)
                s.notify('textDocument/didChange', {'textDocument': {'uri': ua, 'version': ver}, 'contentChanges': [{'text': ta}]})
            elif o == 2:
                tb = text_b(k + 1)
                s.notify('textDocument/didChange', {'textDocument': {'uri': ub, 'version': ver}, 'contentChanges': [{'text': tb}]})
            elif o == 3:
                s.notify('textDocument/didClose', {'textDocument': {'uri': ua}}); a_open = False
            else:
                s.notify('textDocument/didOpen', {'textDocument': {'uri': ua, 'languageId': 'gleam', 'version': ver, 'text': ta}}); a_open = True
            if g:
                time.sleep(0.025)
        lsp_replay.drain(s, quiet=0.9, limit=20.0)
        h = s.request('textDocument/hover', {'textDocument': {'uri': ub}, 'position': {'line': 0, 'character': 8}})
        if 'timeout' in h or 'dead' in h:
            return 'after [%s] a hover is %s' % (describe(sc), 'never answered' if 'timeout' in h else 'not answered: the server died')

        def last(uri):
            ds = [n['params']['diagnostics'] for n in s.notifications if n.get('method') == 'textDocument/publishDiagnostics' and n['params'].get('uri') == uri]
            return len(ds[-1]) if ds else None
        for nm, uri, txt in (('A', ua, ta), ('B', ub, tb)):
            want = oracle_diag(txt)
            got = last(uri)
            if want is None:
                return 'oracle failed'
            if (got or 0) != want:
                # a slow machine is not a violation: a stale state is permanent, a late answer is not - wait much longer before judging
                lsp_replay.drain(s, quiet=4.0, limit=40.0)
                got = last(uri)
            if (got or 0) != want:
                seq = [('A' if n['params'].get('uri') == ua else 'B', len(n['params']['diagnostics'])) for n in s.notifications[n0:] if n.get('method') == 'textDocument/publishDiagnostics']
                return ('after [%s] and a quiet period the last diagnostics published for document %s carry %s entries; its final text has %d (fresh analysis); published since the first step: %s'
                        % (describe(sc), nm, got, want, seq))
        return None
    finally:
        s.close()
