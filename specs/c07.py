"""C07 — rename to a fresh name preserves what every identifier means (kernel: assembly of the edit set, conversion to LSP edits,
TextEdit::apply; plus the native rename oracle on one solver model per explored path of the scope kernel and on the z3-enumerated namings
of a six-module workspace template)."""
import os, json, threading
from concurrent.futures import ThreadPoolExecutor
import z3
from mirsym import explore, native
from mirsym.world import World
from . import scopes, searchk, renamek, invk, c06
from .runner import Check

BOUNDS = {
    'quick':    {'edits': [(1, 1), (2, 1), (0, 2), (2, 2)], 'ws_edit': [(1, 1), (2, 1), (0, 2)], 'apply': [0, 1, 2, 3], 'pool': [2, 3], 'ws': 48},
    'thorough': {'edits': [(1, 1), (2, 1), (0, 2), (2, 2), (3, 2), (3, 3)], 'ws_edit': [(1, 1), (2, 1), (0, 2), (3, 2)], 'apply': [0, 1, 2, 3, 4, 5], 'pool': [2, 3, 4], 'ws': None},
}

_tls = threading.local()
_oracles = []


def _oracle(binary):
    o = getattr(_tls, 'o', None)
    if o is None:
        o = native.Oracle(binary); _tls.o = o; _oracles.append(o)
    return o


def rename_program(binary, ws, expected=None):
    o = _oracle(binary)
    ent, err = invk.inverse_entries(o, ws)
    if ent is None:
        return ['inverse-view oracle: %s' % err], 0, 0
    probs, acc, ref = invk.check_rename(o, ws, ent)
    if expected is not None and not probs and len(ws.get('files', [])) == 1:
        # the same program as a free-standing document that no package owns (loose .gleam file, untitled buffer)
        text = ws['files'][0]['text']
        ent2, err2 = invk.inverse_entries(o, {'text': text})
        if ent2 is not None:
            p2, a2 = invk.check_rename_loose(o, text, ent2)
            probs += p2
    if expected is not None:
        # every occurrence the reference resolver binds to a local binder must be renameable (a valid fresh name is never refused there)
        for (f, s) in expected:
            req = dict(ws, file=f, offset=s, new_name='zz')
            r = o.ask('rename', json.dumps(req))
            if isinstance(r, dict) and 'rename' in r and not r['rename'].get('ok'):
                probs.append('rename of the local at %d:%d to the fresh name zz is refused: %s' % (f, s, r['rename'].get('err')))
    return probs, acc, ref


def main(tier, seed):
    chk = Check('C07', tier, seed)
    B = BOUNDS[tier]
    jobs = int(os.environ.get('VERIF_JOBS', '16'))
    W = World(['syntax', 'ide', 'glas'], 'dev', log=chk.log)
    scopes.W = W; searchk.W = W; renamek.W = W
    from . import syn
    syn.W = W
    searchk.CASTS = searchk.register_ast_enum(W)
    binary = native.build('oracle-ide')
    found = []
    try:
        for (a, b) in B['edits']:
            res, complete = explore.explore(renamek.edits_factory, (a, b), jobs=1)
            chk.add_run('rename(): the usage search found %d range(s) in the queried file and %d in another file (symbolic); new name %r through the real lexer' % (a, b, renamek.NEW), res, complete,
                        {'own': a, 'other': b}, nontrivial_classes=lambda c: c.startswith('edits:'))
            found += [('rename-edits', v) for v in res.violations]
        for (a, b) in B['ws_edit']:
            res, complete = explore.explore(renamek.wsedit_factory, (a, b), jobs=1)
            chk.add_run('convert::to_workspace_edit: %d + %d edits in two documents (symbolic ranges; Vfs accessors and to_range answered by tagged values)' % (a, b), res, complete, {'edits': [a, b]},
                        nontrivial_classes=lambda c: c.startswith('converted'))
            found += [('to_workspace_edit', v) for v in res.violations]
        for n in B['apply']:
            res, complete = explore.explore(renamek.apply_factory, (n,), jobs=1)
            chk.add_run('TextEdit::apply on every ASCII document of %d bytes, every delete range' % n, res, complete, {'doc_bytes': n}, nontrivial_classes=lambda c: c == 'applied')
            found += [('apply', v) for v in res.violations]
        # native layer 1: one solver model per explored path of the scope kernel
        nviol0 = len(chk.viol)
        progs = []
        for pool in B['pool']:
            for t in scopes.TEMPLATES:
                it0 = W.interp('ide'); b0 = scopes.build(it0, t, pool)[0]
                s = z3.Solver(); s.add(b0.constraints())
                if s.check() != z3.sat:
                    continue
                res, complete = explore.explore(c06.allscope_factory, (t, pool), jobs=jobs)
                chk.add_run('scope kernel, template %s, names from a pool of %d (one model per path goes to the native rename oracle)' % (t, pool), res, complete, {'template': t, 'name_pool': pool},
                            nontrivial_classes=lambda c: c.startswith('resolved') and not c.startswith('resolved:0'))
                seen = set()
                for assign in res.extra.get('models', []):
                    if tuple(assign) in seen:
                        continue
                    seen.add(tuple(assign))
                    text, exp = c06.expected_sets(t, pool, assign)
                    progs.append((t, pool, assign, text, exp))
        nacc = nref = 0; nbad = 0
        with ThreadPoolExecutor(max_workers=jobs) as ex:
            futs = [(p, ex.submit(rename_program, binary, c06.single_file_ws(p[3]), list(p[4].keys()))) for p in progs]
            for (t, pool, assign, text, exp), fu in futs:
                probs, acc, ref = fu.result()
                nacc += acc; nref += ref
                if probs:
                    nbad += 1
                    if nbad <= 3:
                        chk.violation('rename:' + t, 'path-model', 'program %r (a solver model of an explored path of the scope kernel, template %s): %s' % (text, t, probs[0][:500]),
                                      {'kind': 'scope-model', 'template': t, 'pool': pool, 'names': assign, 'text': text}, confirmed=True)
                else:
                    chk.validated += 1
        chk.log('%d rendered path models through the native rename oracle: %d renames accepted and verified (edits = references, whole tokens, same resolution afterwards, same diagnostics, rename back restores), %d refused, %d programs with problems' %
                (len(progs), nacc, nref, nbad))
        # labels shared by the first variant and a later one: the edits of a rename are the by-construction occurrence sets
        o_ = _oracle(binary)
        lws = c06.single_file_ws(invk.LABEL_TEXT)
        lent, lerr = invk.inverse_entries(o_, lws)
        lprobs = [str(lerr)] if lent is None else []
        if lent is not None:
            lexp = invk.label_expected()
            lp, la, lr = invk.check_rename(o_, lws, lent, only=set(lexp.keys()))
            lprobs += lp
            for (f_, s_), occ in sorted(lexp.items()):
                r_ = o_.ask('rename', json.dumps(dict(lws, file=f_, offset=s_, new_name='zz')))
                eds = set((e_[0], e_[1]) for e_ in (r_.get('rename', {}).get('edits') or [])) if isinstance(r_, dict) else None
                if eds != set(occ):
                    lprobs.append('rename of the label at offset %d to zz edits %s; by construction the field is written at %s' % (s_, sorted(eds) if eds is not None else r_, sorted(occ)))
        if lprobs:
            chk.violation('rename:variant-labels', 'fixture', 'program %r: %s' % (invk.LABEL_TEXT, lprobs[0][:500]), {'kind': 'fixture', 'text': invk.LABEL_TEXT}, confirmed=True)
        else:
            chk.validated += 1
        # native layer 2: enumerated namings of the workspace template
        asg, nq = invk.ws_all_assignments()
        total = len(asg)
        if B['ws']:
            step = max(1, len(asg) // B['ws'])
            asg = asg[(seed % step)::step][:B['ws']]
        nacc2 = nref2 = 0; nbad2 = 0
        with ThreadPoolExecutor(max_workers=jobs) as ex:
            futs = [(a, ex.submit(rename_program, binary, invk.ws_render(a))) for a in asg]
            for a, fu in futs:
                probs, acc, ref = fu.result()
                nacc2 += acc; nref2 += ref
                if probs:
                    nbad2 += 1
                    if nbad2 <= 3:
                        chk.violation('rename:workspace', 'enumerated', 'six-module workspace with the names %s: %s' % (a, probs[0][:600]), {'kind': 'workspace', 'names': a}, confirmed=True)
                else:
                    chk.validated += 1
        chk.log('%d of %d z3-enumerated namings of the workspace template through the native rename oracle: %d renames accepted and verified, %d refused, %d workspaces with problems' % (len(asg), total, nacc2, nref2, nbad2))
        if nacc + nacc2 == 0:
            chk.inconclusive.append('the native rename oracle accepted no rename at all (vacuous)')
        native_problems = len(chk.viol) - nviol0
        seen = set()
        for site, v in found:
            if site in seen:
                continue
            seen.add(site)
            if native_problems or site == 'apply':
                chk.violation('kernel:' + site, 'bounded', '%s (kernel %s)%s' % (v['why'][0][:400], site, '; the native rename oracle shows the consequence, see the other violations' if native_problems else ''),
                              {'kind': 'kernel', 'kernel': site, 'cex': v.get('cex')}, confirmed=True)
            elif site == 'to_workspace_edit':
                w = lsp_witness()
                if w:
                    chk.violation('kernel:' + site, 'bounded', '%s (kernel %s); real server: %s' % (v['why'][0][:400], site, w[:400]), {'kind': 'kernel', 'kernel': site, 'cex': v.get('cex')}, confirmed=True)
                else:
                    chk.inconclusive.append('%s kernel: %s -- but a textDocument/rename against the real server gives the expected edits' % (site, v['why'][0][:300]))
            else:
                chk.inconclusive.append('%s kernel: %s -- but no program of the native rename oracle shows a consequence' % (site, v['why'][0][:300]))
    finally:
        for o in _oracles:
            o.close()
        W.cleanup()
    # (d) the LSP ranges of the edits: offset -> (line, UTF-16 column) for every document of <= 5 / 7 bytes (the C14 / C20 kernel: a rename edit
    #     whose range is converted wrongly replaces other bytes in the editor than the identifier token)
    try:
        from . import vfsrun, vfsk
        o2 = vfsrun.setup(chk)
        try:
            vfsrun.linemap_suite(chk, o2, jobs, ['C14', 'C20'], 5 if tier == 'quick' else 7, label='edit ranges (to_range)')
        finally:
            o2.close(); vfsk.W.cleanup()
    except ImportError:
        chk.assumptions.append('part (d) (LSP ranges of the edits) is decided by the C14 / C20 checks')
    # end to end: textDocument/rename against the real server (non-ASCII text before and after an occurrence on its line)
    if not any(s_ == 'to_workspace_edit' for s_, _ in found):
        w = lsp_witness()
        if w and any(v['site'] == 'linemap' for v in chk.viol):
            chk.violation('lsp-rename', 'fixture', 'textDocument/rename against the real server: %s' % w[:500], {'kind': 'lsp', 'text': LSP_TEXT}, confirmed=True)
        elif w:
            chk.inconclusive.append('translator validation FAILED: the kernels find no problem, textDocument/rename against the real server: %s' % w[:400])
        else:
            chk.validated += 1
    chk.assumptions += [
        'kernel claim (solver-decided, under-constrained database): (a) ide::rename::rename puts into the WorkspaceEdit exactly one edit per range the usage search reports - same file, delete = that range, insert = the new name - for up to 2+2 / 3+3 symbolic ranges in two files; '
        '(b) convert::to_workspace_edit converts every edit with the line map and URI of its own document, range = to_range(delete), text = insert, nothing dropped or duplicated; '
        '(c) TextEdit::apply turns every ASCII document of <= 3 / 5 bytes into prefix + insert + suffix for every delete range',
        'the usage search itself and the classifier are NOT decided by the solver here (see C06 for the search loop); (d) the offset -> LSP position conversion of the edit ranges (LineMap::line_col_for_pos, convert::to_range) on every document of <= 5 / 7 bytes, as in C14 / C20',
        'native layers (executed, not solver verdicts): rename from every identifier occurrence at which it is accepted, on (i) one solver model per explored path of the expression-scope kernel (quick: name pools of 2 and 3; thorough: also 4) '
        'and (ii) z3-enumerated namings of a six-module workspace template (quick: a seeded spread of %d; thorough: all): the edits are exactly the references, replace whole identifier tokens spelled with the old name, do not overlap; '
        'after applying them every identifier occurrence resolves to the corresponding declaration (go-to-definition re-run on the edited workspace), the number of diagnostics per file is unchanged, and renaming back restores the text; '
        'a local binder or its uses is never refused a fresh valid name' % BOUNDS['quick']['ws'],
        'fresh names: `zz` / `Zz` occur nowhere in the generated programs',
        'outside: multi-package workspaces, broken programs, the repository\'s Gleam corpus']
    chk.trusted += ['rustc MIR', 'mirsym interpreter (under-constrained mode) + HashMap entry / iterator / String::replace_range models', 'z3', 'reference scoping rules of specs/scopes.py']
    chk.level = 'model_checking'
    return chk.finish()


LSP_TEXT = 'pub fn aa(x) { x }\npub fn main() {\n  let s = "hé"  aa(s) // ü€\n}\n'


def lsp_witness():
    """textDocument/rename through the real server on a document with a non-ASCII character before the second occurrence"""
    from mirsym import lsp_replay
    try:
        out = lsp_replay.rename_scenario(lsp_replay.build_binary(), LSP_TEXT, (0, 8), 'zz')
    except Exception as e:
        return 'scenario failed: %s' % e
    want = [((0, 7), (0, 9)), ((2, 16), (2, 18))]          # UTF-16 columns: the é before the second occurrence counts as one unit (two bytes)
    got = sorted(((e['range']['start']['line'], e['range']['start']['character']), (e['range']['end']['line'], e['range']['end']['character'])) for e in out) if out is not None else None
    if got != want or any(e['newText'] != 'zz' for e in out):
        return 'rename of `aa` in %r gives %s, expected the ranges %s with the text zz' % (LSP_TEXT, out, want)
    return None


def replay(path):
    d = json.load(open(path))
    binary = native.build('oracle-ide')
    cex = d['cex']
    if cex.get('kind') == 'workspace':
        ws = invk.ws_render(cex['names'])
    elif 'text' in cex:
        ws = c06.single_file_ws(cex['text'])
    else:
        print(json.dumps({'lsp_witness': lsp_witness()})); return 0
    probs, acc, ref = rename_program(binary, ws)
    print(json.dumps({'problems': probs[:5], 'accepted': acc, 'refused': ref}, indent=1))
    for o in _oracles:
        o.close()
    return 1 if probs else 0
