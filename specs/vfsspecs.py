"""Path specs over the glas kernel (vfs.rs / convert.rs): C13, C14, C15a, C19, C20(ii)."""
import z3
from mirsym.values import *
from mirsym import models
from . import vfsk

FILE0 = lambda: Agg('struct', 'FileId', None, [IntV(0, 32, 0)])


def bv_lex_lt(l1, c1, l2, c2):
    return z3.Or(z3.ULT(l1, l2), z3.And(l1 == l2, z3.ULT(c1, c2)))


def bv_lex_le(l1, c1, l2, c2):
    return z3.Or(z3.ULT(l1, l2), z3.And(l1 == l2, z3.ULE(c1, c2)))


class LineMapSpec:
    """C14 / C20(ii): every valid-UTF-8, CR-free document of exactly n bytes; every char-boundary offset and ordered pair"""

    def __init__(self, n, pairs=True):
        self.n = n; self.pairs = pairs

    def make_interp(self):
        it = vfsk.interp()
        self.bs = [z3.BitVec('b%d' % i, 8) for i in range(self.n)]
        for c in vfsk.doc_constraints(self.bs):
            it.solver.add(c)
        self.ref = vfsk.RefDoc(self.bs)
        return it

    def witness(self, it, m=None):
        if m is not None:
            self._cex = vfsk.eval_bytes(m, self.bs)
            return self._cex
        m = it.get_model()
        return vfsk.eval_bytes(m, self.bs)

    def run_path(self, it):
        n = self.n; ref = self.ref
        self._cex = None
        text, lm = vfsk.normalize(it, [IntV(b, 8, 0) for b in self.bs])
        bad = []; table = []
        if len(text.b) != n:
            bad.append('C13/C14: normalize changed the length of a CR-free text')
        bnd = []
        for p in range(n + 1):
            r, _ = it.check(ref.boundary(p))
            if r == z3.sat:
                bnd.append(p)
        prev = None
        for p in bnd:
            l, c = vfsk.line_col_for_pos(it, lm, p)
            r, m = it.check(ref.boundary(p), z3.Or(l.z() != ref.line(p), c.z() != ref.col(p)))
            if r == z3.sat:
                d = self.witness(it, m)
                bad.append('C14: offset %d of %r is reported as (%s,%s) but an LSP client computes (%d,%d)' %
                           (p, d, l.v if not l.sym() else '?', c.v if not c.sym() else '?',
                            m.eval(ref.line(p), model_completion=True).as_long(), m.eval(ref.col(p), model_completion=True).as_long()))
                table.append((p, None, None, None)); continue
            back = vfsk.pos_for_line_col(it, lm, l, c)
            r, m = it.check(ref.boundary(p), back.z() != z3.BitVecVal(p, 32))
            if r == z3.sat:
                bad.append('C14: offset %d of %r -> (line,col) -> offset is not the identity (comes back as %s)' %
                           (p, self.witness(it, m), back.v if not back.sym() else m.eval(back.v, model_completion=True)))
            if prev is not None:
                pl, pc_ = prev
                r, m = it.check(z3.Not(bv_lex_lt(pl.z(), pc_.z(), l.z(), c.z())))
                if r == z3.sat:
                    bad.append('C14: positions are not strictly increasing around offset %d of %r' % (p, self.witness(it, m)))
            prev = (l, c)
            table.append((p, l.v if not l.sym() else None, c.v if not c.sym() else None, back.v if not back.sym() else None))
        # convert::to_range on every ordered pair (C20 ii): the same two positions, in order
        npairs = 0
        if self.pairs:
            for i, p in enumerate(bnd):
                for q in bnd[i:]:
                    rng = vfsk.to_range(it, lm, p, q)
                    s, e = rng.fields[0], rng.fields[1]
                    cond = z3.Or(s.fields[0].z() != ref.line(p), s.fields[1].z() != ref.col(p),
                                 e.fields[0].z() != ref.line(q), e.fields[1].z() != ref.col(q))
                    r, m = it.check(cond)
                    npairs += 1
                    if r == z3.sat:
                        bad.append('C20: to_range(%d..%d) of %r does not select the same text in an LSP client' % (p, q, self.witness(it, m)))
        # last_line / end_col_for_line against the reference (used by the encoder and by position validation)
        ll = it.run_body(vfsk.body('::last_line'), [RefV([lm], 0)])
        r, m = it.check(ll.z() != ref.line(n))
        if r == z3.sat:
            bad.append('C19: last_line of %r is wrong' % (self.witness(it, m),))
        elif not ll.sym():
            for line in range(ll.v + 1):
                ec = it.run_body(vfsk.body('::end_col_for_line'), [RefV([lm], 0), IntV(line, 32, 0)])
                # reference: column of the offset that ends line `line`
                conds = [z3.And(ref.line_end_offset(z3.BitVecVal(line, 32), p), ec.z() != ref.col(p)) for p in range(n + 1)]
                r, m = it.check(z3.Or(conds))
                if r == z3.sat:
                    bad.append('C19: end_col_for_line(%d) of %r is wrong' % (line, self.witness(it, m)))
        nmulti = sum(1 for p in range(1, n + 1) if p not in bnd)
        nlines = (ll.v if not ll.sym() else 0)
        cls = 'ascii-1line' if (nmulti == 0 and nlines == 0) else ('multibyte' if nlines == 0 else ('multiline' if nmulti == 0 else 'multibyte+multiline'))
        rec = {'cls': cls, 'ok': True, 'pairs': npairs}
        doc = self._cex if getattr(self, '_cex', None) is not None and bad else self.witness(it)
        self._cex = None
        if bad:
            rec.update({'cls': 'violation', 'ok': False, 'why': bad, 'cex': {'doc': doc.hex()}})
        else:
            rec['sample'] = {'doc': doc.hex(), 'positions(offset,line,col,back)': table[:6]}
            rec['_validate'] = {'doc': doc.hex(), 'table': table}
        return rec

    def on_panic(self, it, e):
        return {'cls': 'panic:' + e.kind, 'ok': False, 'why': ['C14/C15: panic %s' % e], 'cex': {'doc': self.witness(it).hex()},
                'panic': {'kind': e.kind, 'msg': e.msg, 'stack': list(e.stack[-4:])}}

    def accumulate(self, extra, rec, it):
        v = rec.pop('_validate', None)
        extra['pairs'] = extra.get('pairs', 0) + rec.get('pairs', 0)
        if v is not None:
            vs = extra.setdefault('validate', [])
            extra['seen'] = extra.get('seen', 0) + 1
            if len(vs) < 60 or extra['seen'] % 7 == 0:
                vs.append(v)


class EditSpec:
    """didOpen(doc) followed by `edits` incremental changes through the real convert::from_range +
    Vfs::change_file_content MIR.  valid=True (C13): positions are valid LSP positions of the current text, start<=end;
    valid=False (C15a): four arbitrary u32 per change."""

    def __init__(self, n, k, valid=True, edits=1, cr_in_insert=True):
        self.n = n; self.k = k; self.valid = valid; self.edits = edits; self.cr = cr_in_insert

    def make_interp(self):
        it = vfsk.interp(); vfsk.install_vfs_models(it)
        self.bs = [z3.BitVec('b%d' % i, 8) for i in range(self.n)]
        for c in vfsk.doc_constraints(self.bs):
            it.solver.add(c)
        self.ins = []; self.pos = []
        for e in range(self.edits):
            ins = [z3.BitVec('i%d_%d' % (e, i), 8) for i in range(self.k)]
            for c in vfsk.doc_constraints(ins, allow_cr=self.cr, crlf_only=self.valid):
                it.solver.add(c)
            self.ins.append(ins)
            self.pos.append([z3.BitVec('%s_%d' % (nm, e), 32) for nm in ('l1', 'c1', 'l2', 'c2')])
        return it

    def witness(self, it, m=None):
        m = m or it.get_model()
        w = {'doc': vfsk.eval_bytes(m, self.bs).hex(), 'edits': []}
        for e in range(self.edits):
            w['edits'].append({'ins': vfsk.eval_bytes(m, self.ins[e]).hex(),
                               'range': [m.eval(p, model_completion=True).as_long() for p in self.pos[e]]})
        return w

    def run_path(self, it):
        text, lm = vfsk.normalize(it, [IntV(b, 8, 0) for b in self.bs])
        cur = list(text.b)                 # IntV bytes of the server text
        cexw = None
        vfs = vfsk.mk_vfs(StrSym(cur), lm)
        cell = [vfs]
        bad = []; outcome = []
        for e in range(self.edits):
            curz = [b.z() for b in cur]
            ref = vfsk.RefDoc(curz)
            l1, c1, l2, c2 = self.pos[e]
            if self.valid:
                it.assume(z3.And(ref.valid(l1, c1), ref.valid(l2, c2), bv_lex_le(l1, c1, l2, c2)))
                r, _ = it.check()
                if r != z3.sat:
                    return {'cls': 'no-valid-position', 'ok': True}
            before = list(cur)
            rng_arg = vfsk.lsp_range(IntV(l1, 32, 0), IntV(c1, 32, 0), IntV(l2, 32, 0), IntV(c2, 32, 0))
            r = it.run_body(vfsk.body('convert::from_range'), [RefV(cell, 0), FILE0(), rng_arg])
            var, pay = models.shape(it, r, ['Ok', 'Err'])
            applied = False
            if var == 'Ok':
                rng = pay.fields[1]
                ins_ivs = [IntV(b, 8, 0) for b in self.ins[e]]
                r2 = it.run_body(vfsk.body('::change_file_content'), [RefV(cell, 0), FILE0(), some(rng), StrSym(ins_ivs)])
                var2, _ = models.shape(it, r2, ['Ok', 'Err'])
                applied = (var2 == 'Ok')
            entry = cell[0].fields[0].entries[0]
            newt = entry.fields[0]
            new = list(newt.b)
            if not applied:
                outcome.append('rejected')
                if self.valid:
                    bad.append('C13: a change with valid positions was rejected (edit #%d)' % e)
                if len(new) != len(before) or any(a is not b for a, b in zip(new, before)):
                    bad.append('C15: the change was rejected but the stored text changed')
                break
            outcome.append('applied')
            # which offsets did the code use?  (concrete on this path: slicing forked on them)
            p1 = it.concretize(models.tsz(rng.fields[0])); p2 = it.concretize(models.tsz(rng.fields[1]))
            # expected: reference splice  cur[:p1] + strip_cr(ins) + cur[p2:]
            kept = []
            for b in self.ins[e]:
                rr, _ = it.check(b == 0x0D)
                if rr != z3.sat:
                    kept.append(b)
                else:
                    rr2, _ = it.check(b != 0x0D)
                    if rr2 == z3.sat:
                        bad.append('engine: CR-ness of an inserted byte is not decided on this path')
            exp = curz[:p1] + kept + curz[p2:]
            mism = None
            if len(exp) != len(new):
                mism = z3.BoolVal(True)
            else:
                diffs = [a.z() != b for a, b in zip(new, exp) if not (isinstance(a.v, z3.ExprRef) and a.v.eq(b))]
                mism = z3.Or(diffs) if diffs else z3.BoolVal(False)
            if self.valid:
                cond = z3.Or(z3.Not(ref.denotes(l1, c1, p1)), z3.Not(ref.denotes(l2, c2, p2)), mism)
                rr, m = it.check(cond)
                if rr == z3.sat:
                    cexw = self.witness(it, m)
                    bad.append('C13: after edit #%d the server text differs from the editor\'s (CRs removed): %s' % (e, cexw))
            else:
                den = lambda l, c, p: z3.Or(ref.denotes(l, c, p),
                                            z3.And(ref.line_end_offset(l, p), z3.UGT(c, ref.col(p))))   # LSP: column past the end clamps to the line end
                # observable criterion: the new text is the reference splice at SOME pair of offsets the positions denote
                alts = []
                ncur = len(curz)
                for q1 in range(ncur + 1):
                    for q2 in range(q1, ncur + 1):
                        if ncur - (q2 - q1) + len(kept) != len(new):
                            continue
                        e2 = curz[:q1] + kept + curz[q2:]
                        eqs = [a.z() == b for a, b in zip(new, e2) if not (isinstance(a.v, z3.ExprRef) and a.v.eq(b))]
                        alts.append(z3.And([den(l1, c1, q1), den(l2, c2, q2)] + eqs))
                cond = z3.Not(z3.Or(alts)) if alts else z3.BoolVal(True)
                rr, m = it.check(cond)
                if rr == z3.sat:
                    cexw = self.witness(it, m)
                    bad.append('C15: a change whose positions do not denote a range of the document was applied somewhere else: %s -> offsets %d..%d' % (cexw, p1, p2))
            cur = new
        w = cexw or self.witness(it)
        rec = {'cls': '+'.join(outcome) or 'none', 'ok': True}
        if bad:
            rec.update({'cls': 'violation', 'ok': False, 'why': bad, 'cex': w})
        else:
            m = it.get_model()
            rec['sample'] = dict(w, outcome=outcome)
            rec['_validate'] = dict(w, outcome=outcome, text=bytes(m.eval(b.z(), model_completion=True).as_long() for b in cur).hex())
        return rec

    def on_panic(self, it, e):
        return {'cls': 'panic:' + e.kind, 'ok': False, 'why': ['C15: panic: %s' % e], 'cex': self.witness(it),
                'panic': {'kind': e.kind, 'msg': e.msg, 'stack': list(e.stack[-4:])}}

    def accumulate(self, extra, rec, it):
        v = rec.pop('_validate', None)
        if v is not None:
            vs = extra.setdefault('validate', [])
            extra['seen'] = extra.get('seen', 0) + 1
            if len(vs) < 60 or extra['seen'] % 11 == 0:
                vs.append(v)


class SemTokSpec:
    """C19: to_semantic_tokens over every document of n bytes and m highlight ranges with symbolic offsets, constrained
    to what `highlight` produces (identifier tokens: non-empty, on char boundaries, inside one line, increasing)"""

    def __init__(self, n, m):
        self.n = n; self.m = m

    def make_interp(self):
        it = vfsk.interp()
        n = self.n
        self.bs = [z3.BitVec('b%d' % i, 8) for i in range(n)]
        for c in vfsk.doc_constraints(self.bs):
            it.solver.add(c)
        self.ref = vfsk.RefDoc(self.bs)
        self.hs = []
        prev_e = None
        for j in range(self.m):
            s = z3.BitVec('s%d' % j, 32); e = z3.BitVec('e%d' % j, 32); t = z3.BitVec('t%d' % j, 16)
            it.solver.add(z3.ULT(s, e), z3.ULE(e, n), z3.ULE(t, 2))
            if prev_e is not None:
                it.solver.add(z3.ULE(prev_e, s))
            # boundaries, and no LF strictly inside [s, e)
            for p in range(n + 1):
                it.solver.add(z3.Implies(s == p, self.ref.boundary(p)))
                it.solver.add(z3.Implies(e == p, self.ref.boundary(p)))
            for i in range(n):
                it.solver.add(z3.Implies(z3.And(z3.ULE(s, i), z3.ULT(i, e)), self.bs[i] != 0x0A))
            self.hs.append((s, e, t)); prev_e = e
        return it

    def witness(self, it, m=None):
        m = m or it.get_model()
        return {'doc': vfsk.eval_bytes(m, self.bs).hex(),
                'hls': [[m.eval(x, model_completion=True).as_long() for x in h] for h in self.hs]}

    def run_path(self, it):
        n = self.n; ref = self.ref
        text, lm = vfsk.normalize(it, [IntV(b, 8, 0) for b in self.bs])
        hl_items = []
        for (s, e, t) in self.hs:
            hl_items.append(Agg('struct', 'HlRange', None, [models.mk_range(IntV(s, 32, 0), IntV(e, 32, 0)), IntV(t, 16, 0)]))
        out = it.run_body(vfsk.body('convert::to_semantic_tokens'), [RefV([lm], 0), SliceV(hl_items)])
        toks = out.items
        bad = []
        if len(toks) != self.m:
            bad.append('C19: %d highlights encode to %d tokens' % (self.m, len(toks)))
        else:
            # decode by the LSP rule and compare with the reference positions of the highlight ranges
            line = z3.BitVecVal(0, 32); start = z3.BitVecVal(0, 32)
            conds = []
            for (s, e, t), tk in zip(self.hs, toks):
                dl, ds, ln, ty, mods = [f.z() for f in tk.fields[:5]]
                nline = line + dl
                nstart = z3.If(dl == 0, start + ds, ds)
                exp_line = z3.BitVecVal(0, 32); exp_s = z3.BitVecVal(0, 32); exp_e = z3.BitVecVal(0, 32)
                for p in range(n + 1):
                    exp_line = z3.If(s == p, ref.line(p), exp_line)
                    exp_s = z3.If(s == p, ref.col(p), exp_s)
                    exp_e = z3.If(e == p, ref.col(p), exp_e)
                # HlTag {Function, Module, Constructor} -> token type index {Function:1, Module:0, Constructor:2}
                exp_ty = z3.If(t == 0, z3.BitVecVal(1, 32), z3.If(t == 1, z3.BitVecVal(0, 32), z3.BitVecVal(2, 32)))
                conds += [nline != exp_line, nstart != exp_s, ln != exp_e - exp_s, ty != exp_ty, mods != 0]
                line, start = nline, nstart
            r, m = it.check(z3.Or(conds))
            cexw = None
            if r == z3.sat:
                cexw = self.witness(it, m)
                bad.append('C19: the relative encoding does not decode to the highlighted ranges: %s' % cexw)
        rec = {'cls': 'ok:%d-tokens' % len(toks), 'ok': True}
        w = (cexw if len(toks) == self.m and cexw else None) or self.witness(it)
        if bad:
            rec.update({'cls': 'violation', 'ok': False, 'why': bad, 'cex': w})
        else:
            m = it.get_model()
            enc = [[m.eval(f.z(), model_completion=True).as_long() for f in tk.fields[:5]] for tk in toks]
            rec['sample'] = dict(w, encoded=enc)
            rec['_validate'] = dict(w, encoded=enc)
        return rec

    def on_panic(self, it, e):
        return {'cls': 'panic:' + e.kind, 'ok': False, 'why': ['C19: encoding fails: %s' % e], 'cex': self.witness(it),
                'panic': {'kind': e.kind, 'msg': e.msg, 'stack': list(e.stack[-4:])}}

    def accumulate(self, extra, rec, it):
        v = rec.pop('_validate', None)
        if v is not None:
            vs = extra.setdefault('validate', [])
            extra['seen'] = extra.get('seen', 0) + 1
            if len(vs) < 60 or extra['seen'] % 11 == 0:
                vs.append(v)
