import sys, os, argparse, importlib, json, traceback
ROOT = os.path.dirname(os.path.dirname(os.path.abspath(__file__)))
sys.path.insert(0, ROOT)
sys.setrecursionlimit(20000)
import threading
threading.stack_size(512 * 1024 * 1024)


def run():
    ap = argparse.ArgumentParser()
    ap.add_argument('prop', nargs='?')
    ap.add_argument('--tier', default=os.environ.get('VERIF_TIER', 'quick'))
    ap.add_argument('--replay')
    ap.add_argument('--setup', action='store_true')
    a = ap.parse_args()
    seed = int(os.environ.get('VERIF_SEED', '0') or 0)
    if a.setup:
        from specs import setup
        return setup.main()
    mod = importlib.import_module('specs.' + a.prop.lower())
    if a.replay:
        return mod.replay(a.replay)
    try:
        return mod.main(a.tier, seed)
    except Exception:
        traceback.print_exc()
        print('INCONCLUSIVE: property=%s internal error' % a.prop)
        return 2


if __name__ == '__main__':
    rc = [2]
    def body():
        rc[0] = run()
    t = threading.Thread(target=body)
    t.start(); t.join()
    sys.exit(rc[0] or 0)
