"""C20 native layer: every range in every answer of the public API lies inside the file it names, on character boundaries, and - for name-like
results - covers a whole identifier token.  Workspaces: z3-enumerated namings of the six-module template of C06 (specs/invk.py), every file
prefixed with a comment line of 2-, 3- and 4-byte characters so that byte offsets and character counts differ.  Executed code (oracle-ide
`answers`: go-to-definition with focus and full range, references, highlight, hover range, prepare-rename range at every identifier;
diagnostics and semantic highlighting per file - whole document and windows that start / end strictly inside a tagged identifier), not a solver verdict."""
import json, re
from . import invk

PREFIX = '// ü€\U0001F4A3 é\n'
IDENT = re.compile(r'[A-Za-z_][A-Za-z0-9_]*')


def workspace(naming):
    ws = invk.ws_render(naming)
    files = []
    for i, f in enumerate(ws['files']):
        files.append({'id': i, 'path': f['path'], 'text': PREFIX + f['text'], 'root': f['root']})
    roots = [dict(r, toml=100 + i) for i, r in enumerate(ws['roots'])]
    return {'files': files, 'roots': roots}


def check(ws, dump):
    """-> list of problems"""
    texts = {f['id']: f['text'].encode('utf-8') for f in ws['files']}
    toks = {}
    for fid, b in texts.items():
        t = b.decode('utf-8'); pos = {}
        # byte offsets of identifier tokens (outside the comment prefix everything is ASCII)
        for m in IDENT.finditer(t):
            s = len(t[:m.start()].encode('utf-8')); pos[s] = s + len(m.group(0))
        toks[fid] = pos
    probs = []

    def inb(fid, s, e, what, key):
        if fid not in texts:
            probs.append('%s: %s names file %s, which is not a file of the workspace' % (key, what, fid)); return False
        b = texts[fid]
        if not (0 <= s <= e <= len(b)):
            probs.append('%s: %s %d..%d lies outside file %d (%d bytes)' % (key, what, s, e, fid, len(b))); return False
        for o in (s, e):
            if o < len(b) and (b[o] & 0xC0) == 0x80:
                probs.append('%s: %s %d..%d of file %d is not on a character boundary' % (key, what, s, e, fid)); return False
        return True

    def whole(fid, s, e, what, key):
        if inb(fid, s, e, what, key) and toks[fid].get(s) != e:
            probs.append('%s: %s %d..%d of file %d does not cover a whole identifier token (%r)' % (key, what, s, e, fid, texts[fid][s:e].decode('utf-8', 'replace')))
    for key, a in dump.items():
        if a in (None, '<cancelled>') or a == []:
            continue
        if a == '<panic>':
            probs.append('%s panics' % key); continue
        m = re.match(r'^(\d+)(?:@(\d+))?:(\w+)$', key)
        fid = int(m.group(1)); kind = m.group(3)
        if kind == 'goto' and isinstance(a, list):
            for t in a:
                f2, fs, fe, us, ue = t
                if inb(f2, us, ue, 'the full range of a definition target', key) and inb(f2, fs, fe, 'the focus range of a definition target', key):
                    if not (us <= fs and fe <= ue):
                        probs.append('%s: the focus range %d..%d of a definition target is not inside its full range %d..%d' % (key, fs, fe, us, ue))
        elif kind == 'refs':
            for f2, s, e in a:
                whole(f2, s, e, 'a reference', key)
        elif kind == 'highlight':
            for s, e in a:
                whole(fid, s, e, 'a highlight', key)
        elif kind == 'hover':
            inb(fid, a[0], a[1], 'the hover range', key)
        elif kind == 'prepare_rename' and isinstance(a, list):
            whole(fid, a[0], a[1], 'the prepare-rename range', key)
        elif kind == 'diagnostics':
            for s, e, _ in a:
                inb(fid, s, e, 'a diagnostic', key)
        elif kind == 'semantic_windows':
            for ws_, we_, got in a:
                if got == '<panic>':
                    probs.append('%s: semantic highlighting of the window %d..%d panics' % (key, ws_, we_)); continue
                for s, e, _ in (got if isinstance(got, list) else []):
                    whole(fid, s, e, 'a semantic highlight of the window %d..%d' % (ws_, we_), key)
        elif kind == 'semantic':
            for s, e, _ in a:
                whole(fid, s, e, 'a semantic highlight', key)
    return probs


def part(chk, oracle, limit):
    asg, nq = invk.ws_all_assignments()
    total = len(asg)
    if limit:
        step = max(1, len(asg) // limit)
        asg = asg[(chk.seed % step)::step][:limit]
    nbad = nans = 0
    for a in asg:
        ws = workspace(a)
        r = oracle.ask('answers', json.dumps(ws))
        if not isinstance(r, dict) or 'dump' not in r:
            chk.inconclusive.append('answers oracle failed on workspace %s: %s' % (a, str(r)[:200])); continue
        nans += len(r['dump'])
        probs = check(ws, r['dump'])
        if probs:
            nbad += 1
            if nbad <= 3:
                chk.violation('ranges:workspace', 'enumerated', 'six-module workspace with the names %s (every file prefixed with a non-ASCII comment line): %s' % (a, probs[0][:500]), {'kind': 'workspace-ranges', 'names': a}, confirmed=True)
        else:
            chk.validated += 1
    chk.log('ranges: %d of %d z3-enumerated namings of the workspace template, %d answers checked (inside the file, character boundaries, whole tokens), %d workspaces with problems' % (len(asg), total, nans, nbad))
    chk.extra['ranges'] = {'workspaces': len(asg), 'answers': nans, 'with_problems': nbad}
