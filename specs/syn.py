"""Shared machinery of the syntax-crate checks (C01, C02, C03, C04, C20(i), C08a).

Everything symbolic runs the *real* MIR of `syntax::parser::parse_module` (trivia filter, Parser
construction incl. its fuel, `module`, every grammar function, `build_tree`) — only the lexer call
is replaced in the token-kind modes by a vector of tokens with symbolic kinds.
"""
import os, re, json, time
import z3
from mirsym.world import World
from mirsym.values import *
from mirsym import models, native, rustsrc

W = None            # World, loaded once per check process and inherited by forked workers
KINDS = None        # name -> discriminant
INV = None          # discriminant -> name
ORACLE_BIN = None


def load(profile='dev', log=print, need_oracle=True):
    global W, KINDS, INV, ORACLE_BIN
    W = World(['syntax'], profile, log=log)
    KINDS = W.kinds(); INV = {v: k for k, v in KINDS.items()}
    if need_oracle:
        t0 = time.time()
        ORACLE_BIN = native.build('oracle-syntax')
        log('native oracle built in %.1fs' % (time.time() - t0))
    return W


def kind_range(lo, hi):
    return KINDS[lo], KINDS[hi]


def utf8_valid(bs):
    """z3 predicate: the byte sequence bs (list of 8-bit terms) is well-formed UTF-8 (the precondition of &str)"""
    n = len(bs)
    memo = {}

    def cont(b):
        return z3.And(z3.UGE(b, 0x80), z3.ULE(b, 0xBF))

    def v(i):
        if i == n:
            return z3.BoolVal(True)
        if i in memo:
            return memo[i]
        b = bs[i]; alts = [z3.And(z3.ULT(b, 0x80), v(i + 1))]
        if i + 1 < n:
            alts.append(z3.And(z3.UGE(b, 0xC2), z3.ULE(b, 0xDF), cont(bs[i + 1]), v(i + 2)))
        if i + 2 < n:
            b1 = bs[i + 1]
            alts.append(z3.And(b == 0xE0, z3.UGE(b1, 0xA0), z3.ULE(b1, 0xBF), cont(bs[i + 2]), v(i + 3)))
            alts.append(z3.And(z3.Or(z3.And(z3.UGE(b, 0xE1), z3.ULE(b, 0xEC)), b == 0xEE, b == 0xEF), cont(b1), cont(bs[i + 2]), v(i + 3)))
            alts.append(z3.And(b == 0xED, z3.UGE(b1, 0x80), z3.ULE(b1, 0x9F), cont(bs[i + 2]), v(i + 3)))
        if i + 3 < n:
            b1 = bs[i + 1]
            alts.append(z3.And(b == 0xF0, z3.UGE(b1, 0x90), z3.ULE(b1, 0xBF), cont(bs[i + 2]), cont(bs[i + 3]), v(i + 4)))
            alts.append(z3.And(z3.UGE(b, 0xF1), z3.ULE(b, 0xF3), cont(b1), cont(bs[i + 2]), cont(bs[i + 3]), v(i + 4)))
            alts.append(z3.And(b == 0xF4, z3.UGE(b1, 0x80), z3.ULE(b1, 0x8F), cont(bs[i + 2]), cont(bs[i + 3]), v(i + 4)))
        memo[i] = z3.Or(alts)
        return memo[i]
    return v(0)


# --------------------------------------------------------------------------------------------
# running the parser

def mk_token(kind_iv, i, src):
    rng = models.mk_range(IntV(i, 32, 0), IntV(i + 1, 32, 0))
    return Agg('struct', 'LexToken', None, [kind_iv, StrSym(src.b[i:i + 1], off=i), rng])


def mk_token_at(kind_iv, s, e, src):
    rng = models.mk_range(IntV(s, 32, 0), IntV(e, 32, 0))
    return Agg('struct', 'LexToken', None, [kind_iv, StrSym(src.b[s:e], off=s), rng])


def parse_tokens(it, kinds_iv, ranges=None):
    """run the real parse_module MIR on a raw token vector (kinds: list of IntV, symbolic or concrete)"""
    n = len(kinds_iv)
    if ranges is None:
        src = StrSym([IntV(i % 128, 8, 0) for i in range(n)])
        raw = [mk_token(kinds_iv[i], i, src) for i in range(n)]
    else:
        total = ranges[-1][1] if ranges else 0
        src = StrSym([IntV(i % 128, 8, 0) for i in range(total)])
        raw = [mk_token_at(kinds_iv[i], ranges[i][0], ranges[i][1], src) for i in range(n)]
    it.models['<GleamLexer as Iterator>::collect'] = lambda it_, c, a: VecV(raw)
    it.models['GleamLexer::new'] = lambda it_, c, a: Opaque('lexer-replaced-by-token-vector')
    pm = W.find('syntax', 'parser::parse_module')
    return it.run_body(pm, [src]), src


def parse_bytes(it, bytes_iv):
    """run the real parse_module MIR incl. the real (logos-generated) lexer on a byte string"""
    it.models.pop('<GleamLexer as Iterator>::collect', None)
    it.models.pop('GleamLexer::new', None)
    src = StrSym(list(bytes_iv))
    pm = W.find('syntax', 'parser::parse_module')
    return it.run_body(pm, [src]), src


def kind_of(v):
    """rowan::SyntaxKind(u16) / SyntaxKind -> IntV"""
    if isinstance(v, Agg):
        return v.fields[0]
    return v


def parse_result(res):
    """Parse{green, errors} -> (builder log, [error Agg])"""
    green, errors = res.fields[0], res.fields[1]
    return green.fields[0].log, list(errors.items)


def root_problem(log):
    """C02: Parse::root() is `SourceFile::cast(..).unwrap()`: every consumer panics unless the returned tree is rooted at SOURCE_FILE"""
    first = next((e for e in log if e[0] == 'start'), None)
    if first is None:
        return 'C02: parse_module returns a tree without a root node'
    k = kind_of(first[1])
    if k.sym() or k.v != KINDS['SOURCE_FILE']:
        return 'C02: parse_module returns a tree rooted at %s, not SOURCE_FILE (a start_node was never finished): Parse::root() panics on its unwrap' % (INV.get(k.v, k.v) if not k.sym() else 'a symbolic kind')
    return None


def log_tokens(log):
    """[(kind IntV, off, len)] in emission order"""
    out = []
    for e in log:
        if e[0] == 'token':
            t = e[2]
            if isinstance(t, RefV):
                t = t.get()
            out.append((kind_of(e[1]), t.off, len(t.b)))
    return out


def tree_from_log(log, kindval):
    """nested lists [kind, child...]; tokens are ('T', kind, off, len); kindval maps IntV -> python int"""
    root = []; stack = [root]
    for e in log:
        if e[0] == 'start':
            n = [kindval(kind_of(e[1]))]
            stack[-1].append(n); stack.append(n)
        elif e[0] == 'finish':
            stack.pop()
        else:
            t = e[2]
            if isinstance(t, RefV):
                t = t.get()
            stack[-1].append(('T', kindval(kind_of(e[1])), t.off, len(t.b)))
    return root[0] if root else None


def error_info(e):
    """Error{range, kind} -> ((start, end), kindname)"""
    rng, kind = e.fields[0], e.fields[1]
    s = models.tsz(rng.fields[0]); t = models.tsz(rng.fields[1])
    if isinstance(kind, Agg):
        kn = kind.variant
        if kind.fields:
            f = kind.fields[0]
            kn += '(%s)' % (INV.get(f.v, f.v) if isinstance(f, IntV) and not f.sym() else '?')
    elif isinstance(kind, IntV) and not kind.sym():
        ek = W.enums.get('ErrorKind', [])
        kn = next((vn for vn, hf, d in ek if d == kind.v), str(kind.v))
    else:
        kn = str(kind)
    return ((s.v, t.v), kn)


def model_kinds(it, ks, extra=()):
    m = it.get_model()
    return [m.eval(k, model_completion=True).as_long() for k in ks]


# --------------------------------------------------------------------------------------------
# spellings: which source text lexes to exactly one token of each kind (computed with the real lexer)

CANDIDATES = {
    'WHITESPACE': [' ', '\n'], 'COMMENT': ['//c\n'], 'COMMENT_STATEMENT': ['///d\n'], 'COMMENT_MODULE': ['////m\n'],
    'IDENT': ['a', 'x1'], 'BAD_IDENT': ['aB'], 'DISCARD_IDENT': ['_', '_a'], 'U_IDENT': ['A', 'Ab'],
    'BAD_U_IDENT': ['A_b'], 'FLOAT': ['1.0'], 'INTEGER': ['1', '0x1'], 'STRING': ['"s"'], 'ERROR': ['$', '"', '~', 'é'],
}


class Spellings:
    def __init__(self, oracle):
        self.sp = {}
        src = open(os.path.join(W.dumps['syntax']['expanded'])).read() if False else ''
        kind_rs = open(os.path.join(os.environ.get('VERIF_REPO', '/repo'), 'crates/syntax/src/kind.rs'), encoding='utf-8').read()
        cands = dict((k, list(v)) for k, v in CANDIDATES.items())
        for m in re.finditer(r'#\[token\("((?:[^"\\]|\\.)*)"\)\]\s*\n\s*(\w+)', kind_rs):
            cands.setdefault(m.group(2), []).append(eval('"%s"' % m.group(1)))
        for name, cs in cands.items():
            if name not in KINDS:
                continue
            for c in cs:
                r = oracle.ask('lex', c)
                toks = r.get('tokens')
                if toks and toks[0][0] == KINDS[name] and (len(toks) == 1 or (len(toks) == 2 and c.endswith('\n') and toks[1][0] == KINDS['WHITESPACE'])):
                    self.sp[KINDS[name]] = c
                    break
        self.realisable = set(self.sp)

    def text_for(self, kinds, oracle, sep_trivia=True):
        """source text whose *non-trivia* token kinds are `kinds` (trivia inserted to keep tokens apart), or None"""
        parts = []
        for k in kinds:
            if k not in self.sp:
                return None
            parts.append(self.sp[k])
        txt = ' '.join(parts)
        toks = oracle.ask('lex', txt).get('tokens', [])
        got = [t[0] for t in toks if t[0] > KINDS['COMMENT_MODULE']]
        return txt if got == list(kinds) else None

    def text_for_raw(self, kinds, oracle):
        """source text whose *raw* token kinds (incl. trivia) are exactly `kinds`, or None (unrealisable adjacency)"""
        parts = []
        for k in kinds:
            if k not in self.sp:
                return None
            parts.append(self.sp[k])
        txt = ''.join(parts)
        toks = oracle.ask('lex', txt).get('tokens', [])
        got = [t[0] for t in toks]
        if got == list(kinds):
            return txt
        # comment spellings end in a newline that lexes as an extra WHITESPACE; try alternatives
        alt = []
        for i, k in enumerate(kinds):
            s = self.sp[k]
            if s.endswith('\n') and k != KINDS['WHITESPACE'] and i + 1 < len(kinds) and kinds[i + 1] == KINDS['WHITESPACE']:
                alt.append(s[:-1])        # the following WHITESPACE token supplies the newline
            elif s.endswith('\n') and k != KINDS['WHITESPACE'] and i + 1 == len(kinds):
                alt.append(s[:-1])
            else:
                alt.append(s)
        txt = ''
        for i, k in enumerate(kinds):
            s = alt[i]
            if k == KINDS['WHITESPACE'] and i > 0 and self.sp[kinds[i - 1]].endswith('\n') and kinds[i - 1] != KINDS['WHITESPACE']:
                s = '\n'
            txt += s
        toks = oracle.ask('lex', txt).get('tokens', [])
        if [t[0] for t in toks] == list(kinds):
            return txt
        return None


def native_tree_shape(t):
    """native JSON tree -> nested [kind, child...] with tokens as ('T', kind, start, len)"""
    if isinstance(t, dict):
        return ('T', t['k'], t['s'], t['e'] - t['s'])
    return [t[0]] + [native_tree_shape(c) for c in t[1:]]


def shape_only(t, tokmap=None):
    """forget offsets: tokens become ('T', kind, index-in-document-order)"""
    ctr = [0]

    def go(n):
        if isinstance(n, tuple):
            i = ctr[0]; ctr[0] += 1
            return ('T', n[1], i)
        return [n[0]] + [go(c) for c in n[1:]]
    return go(t)
