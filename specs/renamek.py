"""C07 kernels (under-constrained database).

(a) ide::rename::rename on its real MIR: the definition under the cursor is renameable and local, the new name is a valid identifier
    (the real lexer runs on it), the usage search is replaced by a result with symbolic ranges in two files.  Solver-decided obligation:
    the WorkspaceEdit holds, per file, exactly one edit per found range - delete = that range, insert = the new name - and nothing else.
(b) glas convert::to_workspace_edit / to_text_edit on their real MIR: every edit is converted with the line map and the URI of ITS OWN
    file, its range is to_range(delete), its text is the inserted name; no edit is dropped, duplicated or moved to another document.
(c) TextEdit::apply on its real MIR (full mode): the document becomes prefix + insert + suffix for every document of <= N bytes."""
import re, os, json
import z3
from mirsym.values import *
from mirsym import models
from mirsym.interp import PyFn
from . import searchk
from .searchk import fid, mk_def, usage_result, install_sets

W = None
NEW = 'zz'


def install_entry(it):
    def entry(it_, c, a):
        mp = models.deref(a[0]); key = a[1]
        j = models._map_find(it_, mp, key)
        return Agg('enum', 'Entry', 'Vacant' if j is None else 'Occupied', [tup(RefV([mp], 0), key if j is None else IntV(j, 64, 0))])

    def or_insert_with(it_, c, a):
        e = a[0]; mp = models.deref(e.fields[0].fields[0])
        if e.variant == 'Vacant':
            mp.kv.append((e.fields[0].fields[1], it_.call_closure(a[1], [])))
            j = len(mp.kv) - 1
        else:
            j = e.fields[0].fields[1].v
        return RefV(models._KVRef(mp, j), 1)

    def and_modify(it_, c, a):
        e = a[0]
        if e.variant == 'Occupied':
            mp = models.deref(e.fields[0].fields[0]); j = e.fields[0].fields[1].v
            it_.call_closure(a[1], [RefV(models._KVRef(mp, j), 1)])
        return e

    def or_default(it_, c, a):
        e = a[0]; mp = models.deref(e.fields[0].fields[0])
        if e.variant == 'Vacant':
            mp.kv.append((e.fields[0].fields[1], VecV([])))
            j = len(mp.kv) - 1
        else:
            j = e.fields[0].fields[1].v
        return RefV(models._KVRef(mp, j), 1)
    it.models['HashMap::entry'] = entry
    it.models['Entry::or_insert_with'] = or_insert_with
    it.models['Entry::and_modify'] = and_modify
    it.models['Entry::or_default'] = or_default


class RenameEditsSpec:
    def __init__(self, n_own, n_other):
        self.n_own = n_own; self.n_other = n_other

    def make_interp(self):
        from . import c08
        it = W.interp('ide', uc=True)
        it.allow = c08.ALLOW + [r'^ide::rename::rename::\{closure#\d+\}', r'^def::search::<impl at [^>]*>::into_iter$']
        mk = lambda tag, i: (z3.BitVec('%ss%d' % (tag, i), 32), z3.BitVec('%se%d' % (tag, i), 32))
        self.own = [mk('o', i) for i in range(self.n_own)]
        self.other = [mk('x', i) for i in range(self.n_other)]
        for grp in (self.own, self.other):
            for i, (s, e) in enumerate(grp):
                it.solver.add(z3.ULT(s, e), z3.ULE(e, 64))
                if i:
                    it.solver.add(z3.ULE(grp[i - 1][1], s))
        spec = self
        M = it.models
        M['FindUsages::all'] = lambda it_, c, a: usage_result(spec.own, spec.other)
        install_sets(it)
        install_entry(it)
        rng = models.mk_range(IntV(3, 32, 0), IntV(5, 32, 0))
        M['rename::find_def'] = lambda it_, c, a: some(Agg('enum', 'Either', 'Left', [tup(rng, mk_def('Function', IntV(5, 32, 0)))]))
        M['Definition::module'] = lambda it_, c, a: some(Opaque('module'))
        M['Module::package'] = lambda it_, c, a: Opaque('package')
        M['Package::is_local'] = lambda it_, c, a: BoolV(True)
        M['<Definition as Clone>::clone'] = lambda it_, c, a: dcopy(models.deref(a[0]))
        M['Definition::usages'] = lambda it_, c, a: Opaque('usages')
        M['FindUsages::in_scope'] = lambda it_, c, a: a[0]
        M['SearchScope::package_graph'] = lambda it_, c, a: Opaque('scope')
        M['SmolStr::new'] = lambda it_, c, a: Agg('struct', 'SmolStr', None, [models.deref(models.deref(a[0]))])
        M['<SmolStr as Clone>::clone'] = lambda it_, c, a: dcopy(models.deref(a[0]))
        M['<TextEdit as Clone>::clone'] = lambda it_, c, a: dcopy(models.deref(a[0]))

        def vec_from(it_, c, a):
            v = a[0]
            if isinstance(v, Agg) and v.kind == 'array':
                return VecV(list(v.fields))
            return NotImplemented
        M['<Vec as From>::from'] = vec_from
        return it

    def run_path(self, it):
        b = W.crates['ide']['ide::rename::rename']
        fpos = Agg('struct', 'FilePos', None, [fid(0), models.mk_tsz(IntV(3, 32, 0))])
        r = it.run_body(b, [LazyV('db'), fpos, StrV(NEW)])
        var, pay = models.shape(it, r, ['Ok', 'Err'])
        if var == 'Err':
            return {'cls': 'violation', 'ok': False, 'why': ['C07: rename of a local function to the fresh lowercase name %r is refused' % NEW], 'cex': {'kernel': 'rename-edits'}}
        mp = models.deref(models.deref(pay).fields[0])
        got = []
        bad = []
        for k, v in mp.kv:
            f = models.deref(k).fields[0]
            for ed in models.deref(v).items:
                ed = models.deref(ed)
                dl = models.deref(ed.fields[0]); ins = models.deref(ed.fields[1])
                txt = ins.fields[0] if isinstance(ins, Agg) else ins
                if not (isinstance(txt, StrV) and txt.s == NEW):
                    bad.append('C07: an edit inserts %r instead of the new name' % (txt,))
                got.append((f, models.tsz(dl.fields[0]).z(), models.tsz(dl.fields[1]).z()))
        want = [(0, s, e) for s, e in self.own] + [(1, s, e) for s, e in self.other]
        conds = []
        for (wf, ws, we) in want:
            cnt = z3.Sum([z3.If(z3.And(z3.BoolVal((not gf.sym()) and gf.v == wf), gs == ws, ge == we), 1, 0) for gf, gs, ge in got]) if got else z3.IntVal(0)
            conds.append(cnt != 1)
        for gf, gs, ge in got:
            conds.append(z3.Not(z3.Or([z3.And(z3.BoolVal((not gf.sym()) and gf.v == wf), gs == ws, ge == we) for wf, ws, we in want])) if want else z3.BoolVal(True))
        if len(got) != len(want):
            conds.append(z3.BoolVal(True))
        if conds and not bad:
            rr2, m = it.check(z3.Or(conds))
            if rr2 == z3.sat:
                ev = lambda t: m.eval(t, model_completion=True).as_long()
                bad.append('C07: the usage search finds %s but rename edits %s' % ([(f, ev(s), ev(e)) for f, s, e in want], [(gf.v if not gf.sym() else '?', ev(s), ev(e)) for gf, s, e in got]))
        rec = {'cls': 'edits:%d' % len(got), 'ok': True, 'sample': {'found_in_file_0': self.n_own, 'found_in_file_1': self.n_other, 'edits': len(got)}}
        if bad:
            rec.update({'cls': 'violation', 'ok': False, 'why': bad[:3], 'cex': {'kernel': 'rename-edits', 'own': self.n_own, 'other': self.n_other}})
        return rec

    def on_panic(self, it, e):
        return {'cls': 'panic:' + e.kind, 'ok': False, 'why': ['C07: rename panics while assembling the edits: %s' % e], 'cex': {'kernel': 'rename-edits', 'panic': str(e)}}


def edits_factory(a, b):
    return RenameEditsSpec(a, b)


# ------------------------------------------------------------------------------------------------ (b) to_workspace_edit

class WsEditSpec:
    """convert::to_workspace_edit(vfs, WorkspaceEdit) with edits in two files; Vfs accessors and to_range answered by tagged opaque values"""

    def __init__(self, n0, n1):
        self.n = (n0, n1)

    def make_interp(self):
        it = W.interp('glas', uc=True)
        it.allow = [r'^convert::to_workspace_edit$', r'^convert::to_workspace_edit::\{closure#\d+\}', r'^convert::to_text_edit$']
        install_sets(it)
        M = it.models
        M['Vfs::uri_for_file'] = lambda it_, c, a: Opaque(('uri', models.deref(a[1]).fields[0].v))
        M['Vfs::line_map_for_file'] = lambda it_, c, a: Opaque(('linemap', models.deref(a[1]).fields[0].v))
        M['<Arc as Deref>::deref'] = lambda it_, c, a: a[0]

        def to_range(it_, c, a):
            lm = models.deref(a[0]); r = models.deref(a[1])
            return Opaque(('lsprange', lm.tag[1], r.fields[0], r.fields[1]))
        M['convert::to_range'] = to_range
        M['<SmolStr as Into>::into'] = lambda it_, c, a: Opaque(('text', models.deref(a[0])))
        M['<SmolStr as Into<String>>::into'] = M['<SmolStr as Into>::into']
        M['<String as From>::from'] = lambda it_, c, a: Opaque(('text', models.deref(a[0])))
        self.rs = [[(z3.BitVec('s_%d_%d' % (f, i), 32), z3.BitVec('e_%d_%d' % (f, i), 32)) for i in range(self.n[f])] for f in range(2)]
        for f in range(2):
            for s, e in self.rs[f]:
                it.solver.add(z3.ULE(s, e))
        return it

    def run_path(self, it):
        b = W.crates['glas']['convert::to_workspace_edit']
        mp = MapV()
        for f in (1, 0):
            if self.n[f]:
                mp.kv.append((fid(f), VecV([Agg('struct', 'TextEdit', None, [models.mk_range(IntV(s, 32, 0), IntV(e, 32, 0)), Agg('struct', 'SmolStr', None, [StrV('n%d_%d' % (f, i))])])
                                            for i, (s, e) in enumerate(self.rs[f])])))
        we = Agg('struct', 'WorkspaceEdit', None, [mp])
        r = it.run_body(b, [RefV([Opaque('vfs')], 0), we])
        r = models.deref(r)
        changes = None
        for fld in r.fields:
            fld = models.deref(fld)
            if isinstance(fld, Agg) and fld.variant == 'Some' and isinstance(models.deref(fld.fields[0]), MapV):
                changes = models.deref(fld.fields[0])
        bad = []
        if changes is None:
            bad.append('C07: the LSP workspace edit carries no `changes` map')
        else:
            seen = {}
            for k, v in changes.kv:
                k = models.deref(k)
                if not (isinstance(k, Opaque) and k.tag[0] == 'uri'):
                    bad.append('C07: a document of the workspace edit is not addressed by Vfs::uri_for_file'); continue
                f = k.tag[1]
                if f in seen:
                    bad.append('C07: document %d appears twice in the workspace edit' % f)
                lst = []
                for ed in models.deref(v).items:
                    ed = models.deref(ed)
                    rg = models.deref(ed.fields[0]); tx = models.deref(ed.fields[1])
                    if not (isinstance(rg, Opaque) and rg.tag[0] == 'lsprange'):
                        bad.append('C07: an LSP edit range is not computed by to_range'); continue
                    if rg.tag[1] != f:
                        bad.append('C07: an edit of document %d is converted with the line map of document %d' % (f, rg.tag[1]))
                    name = None
                    if isinstance(tx, Opaque) and tx.tag[0] == 'text':
                        inner = tx.tag[1]
                        inner = inner.fields[0] if isinstance(inner, Agg) else inner
                        name = inner.s if isinstance(inner, StrV) else None
                    lst.append((rg.tag[2], rg.tag[3], name))
                seen[f] = lst
            for f in range(2):
                got = seen.get(f, [])
                if len(got) != self.n[f]:
                    bad.append('C07: document %d has %d edits in the rename result but %d in the LSP answer' % (f, self.n[f], len(got)))
                    continue
                for i, ((s, e), (gs, ge, name)) in enumerate(zip(self.rs[f], got)):
                    if name != 'n%d_%d' % (f, i):
                        bad.append('C07: edit %d of document %d carries the text of another edit (%r)' % (i, f, name))
                    rr, _ = it.check(z3.Or(models.tsz(gs).z() != s, models.tsz(ge).z() != e))
                    if rr == z3.sat:
                        bad.append('C07: edit %d of document %d is converted from a range other than its delete range' % (i, f))
        rec = {'cls': 'converted:%d+%d' % self.n, 'ok': True, 'sample': {'edits_per_document': list(self.n)}}
        if bad:
            rec.update({'cls': 'violation', 'ok': False, 'why': bad[:3], 'cex': {'kernel': 'to_workspace_edit', 'n': list(self.n)}})
        return rec

    def on_panic(self, it, e):
        return {'cls': 'panic:' + e.kind, 'ok': False, 'why': ['C07: to_workspace_edit panics: %s' % e], 'cex': {'kernel': 'to_workspace_edit', 'panic': str(e)}}


def wsedit_factory(a, b):
    return WsEditSpec(a, b)


# ------------------------------------------------------------------------------------------------ (c) TextEdit::apply (full mode)

class ApplySpec:
    """TextEdit::apply(&self, &mut String) for a document of n symbolic ASCII bytes, a delete range [s, e) with symbolic bounds, insert = NEW"""

    def __init__(self, n):
        self.n = n

    def make_interp(self):
        it = W.interp('ide')
        self.bs = [z3.BitVec('b%d' % i, 8) for i in range(self.n)]
        for b in self.bs:
            it.solver.add(z3.ULT(b, 0x80))
        self.s = z3.BitVec('s', 32); self.e = z3.BitVec('e', 32)
        it.solver.add(z3.ULE(self.s, self.e), z3.ULE(self.e, self.n))
        it.models['<SmolStr as Deref>::deref'] = lambda it_, c, a: RefV([models.deref(a[0]).fields[0]], 0)
        return it

    def run_path(self, it):
        b = next(bd for n, bd in W.crates['ide'].items() if re.match(r'^text_edit::<impl at [^>]*>::apply$', n))
        s = it.concretize(IntV(self.s, 32, 0)); e = it.concretize(IntV(self.e, 32, 0))
        doc = StringV([IntV(x, 8, 0) for x in self.bs])
        ed = Agg('struct', 'TextEdit', None, [models.mk_range(IntV(s, 32, 0), IntV(e, 32, 0)), Agg('struct', 'SmolStr', None, [StrV(NEW)])])
        cell = [doc]
        it.run_body(b, [RefV([ed], 0), RefV(cell, 0)])
        out = cell[0]
        got = list(out.b)
        want = [IntV(x, 8, 0) for x in self.bs[:s]] + [IntV(ord(ch), 8, 0) for ch in NEW] + [IntV(x, 8, 0) for x in self.bs[e:]]
        bad = []
        if len(got) != len(want):
            bad.append('C07: applying the edit %d..%d <- %r to a %d-byte document gives %d bytes, expected %d' % (s, e, NEW, self.n, len(got), len(want)))
        else:
            conds = [g.z() != w.z() for g, w in zip(got, want)]
            if conds:
                rr, m = it.check(z3.Or(conds))
                if rr == z3.sat:
                    bad.append('C07: applying the edit %d..%d <- %r changes bytes outside the deleted range or inserts something else' % (s, e, NEW))
        rec = {'cls': 'applied', 'ok': True, 'sample': {'doc_bytes': self.n, 'delete': [s, e]}}
        if bad:
            rec.update({'cls': 'violation', 'ok': False, 'why': bad, 'cex': {'kernel': 'apply', 'n': self.n, 'delete': [s, e]}})
        return rec


def apply_factory(n):
    return ApplySpec(n)
