"""Common frame of every check: logging, run aggregation, known findings, replay files, evidence, exit code."""
import os, sys, json, time, re, hashlib

ROOT = os.path.dirname(os.path.dirname(os.path.abspath(__file__)))
EVID = os.environ.get('VERIF_EVIDENCE_DIR') or os.path.join(ROOT, 'evidence')      # override only used by seeded/run_against.sh
REPLAYS = os.environ.get('VERIF_REPLAYS_DIR') or os.path.join(ROOT, 'replays')
KNOWN = os.path.join(ROOT, 'known_findings.txt')


def load_known():
    """known: property=<id> site=<site> family=<family> :: text      (suppresses exactly site+family)
       fixed: property=<id> <commit> <text>                           (suppresses nothing)"""
    out = []
    if os.path.exists(KNOWN):
        for line in open(KNOWN):
            line = line.strip()
            if not line.startswith('known:'):
                continue
            m = re.match(r'known:\s+property=(\S+)\s+site=(\S+)\s+family=(\S+)\s*(?:::\s*(.*))?$', line)
            if m:
                out.append({'property': m.group(1), 'site': m.group(2), 'family': m.group(3), 'text': m.group(4) or ''})
    return out


class Check:
    def __init__(self, pid, tier, seed, level='model_checking'):
        self.pid = pid; self.tier = tier; self.seed = seed; self.level = level
        self.t0 = time.time()
        self.runs = []               # per sub-run summaries
        self.viol = []               # dicts: site, family, desc, cex, replay(optional path)
        self.inconclusive = []       # reasons (-> exit 2)
        self.samples = []
        self.assumptions = []
        self.trusted = []
        self.validated = 0
        self.bodies = set()
        self.model_hits = {}
        self.extra = {}
        self.nontrivial = {}
        os.makedirs(EVID, exist_ok=True)
        ev = os.path.join(EVID, pid + '.json')
        if os.path.exists(ev):
            os.remove(ev)

    def log(self, msg):
        print('[%s %6.1fs] %s' % (self.pid, time.time() - self.t0, msg), flush=True)

    def add_run(self, name, res, complete, bounds, nontrivial_classes=None):
        """res: explore.Result"""
        r = {'name': name, 'bounds': bounds, 'paths': res.paths, 'solver_queries': res.queries, 'solver_s': round(res.solver_s, 2),
             'forks': res.forks, 'mir_steps': res.steps, 'wall_s': round(res.wall, 1), 'classes': dict(res.classes),
             'max_call_depth': res.maxdepth, 'complete': bool(complete)}
        self.runs.append(r)
        self.bodies |= res.executed
        for k, v in res.model_hits.items():
            self.model_hits[k] = self.model_hits.get(k, 0) + v
        for cls, n in res.classes.items():
            if nontrivial_classes is None or nontrivial_classes(cls):
                self.nontrivial[name + '/' + cls] = n
        for cls, ss in res.samples.items():
            for s in ss[:1]:
                if len(self.samples) < 40:
                    self.samples.append({'run': name, 'class': cls, 'case': s})
        if res.unsupported:
            for k, v in res.unsupported.most_common(5):
                self.inconclusive.append('%s: %d paths unsupported: %s' % (name, v, k))
        if not complete:
            self.inconclusive.append('%s: exploration did not finish within its time cap' % name)
        if res.paths == 0:
            self.inconclusive.append('%s: zero paths (vacuous)' % name)
        self.log('%s: %d paths, %d queries (%.1fs solver), wall %.1fs, classes %s' %
                 (name, res.paths, res.queries, res.solver_s, res.wall, dict(res.classes.most_common(6))))
        return r

    def violation(self, site, family, desc, cex, confirmed=True):
        self.viol.append({'site': site, 'family': family, 'desc': desc, 'cex': cex, 'confirmed': confirmed})

    def write_replay(self, name, payload):
        d = os.path.join(REPLAYS, self.pid)
        os.makedirs(d, exist_ok=True)
        p = os.path.join(d, name + '.json')
        json.dump(payload, open(p, 'w'), indent=1, sort_keys=True)
        return p

    def finish(self, coverage_extra=None, explanation=None):
        known = [k for k in load_known() if k['property'] == self.pid]
        new = []; kf_lines = []
        for v in self.viol:
            hit = [k for k in known if k['site'] == v['site'] and k['family'] == v['family']]
            if hit:
                kf_lines.append((hit[0], v))
            else:
                new.append(v)
        seenk = set()
        for k, v in kf_lines:
            key = (k['site'], k['family'])
            if key in seenk:
                continue
            seenk.add(key)
            print('KNOWN-FINDING: property=%s site=%s family=%s %s' % (self.pid, k['site'], k['family'], v['desc']), flush=True)
        code = 0
        new.sort(key=lambda v: (not v.get('confirmed', True), v['site']))
        if self.inconclusive:
            code = 2
            for r in self.inconclusive[:10]:
                print('INCONCLUSIVE: property=%s %s' % (self.pid, r), flush=True)
        vio_paths = []
        seen = set()
        for i, v in enumerate(new):
            key = (v['site'], v['family'], json.dumps(v['cex'], sort_keys=True, default=str)[:300])
            if key in seen:
                continue
            seen.add(key)
            if not v.get('confirmed', True):
                self._ndis = getattr(self, '_ndis', 0) + 1
                if self._ndis <= 5:
                    print('ENGINE-DISAGREEMENT: property=%s %s (solver counterexample did not reproduce natively)' % (self.pid, v['desc'][:400]), flush=True)
                code = max(code, 2)
                continue
            if len(vio_paths) < 12:
                h = hashlib.sha1(key[2].encode()).hexdigest()[:8]
                p = self.write_replay('%s-%s-%s' % (re.sub(r'[^A-Za-z0-9]+', '_', v['site'])[:40], v['family'], h),
                                      {'property': self.pid, 'site': v['site'], 'family': v['family'], 'desc': v['desc'], 'cex': v['cex']})
                vio_paths.append(p)
                print('VIOLATION property=%s replay=%s  # %s' % (self.pid, p, v['desc'][:300]), flush=True)
            code = 1
        if vio_paths:
            code = 1          # a natively reproduced violation is reported as such even if other parts were inconclusive
        paths = sum(r['paths'] for r in self.runs)
        cov = {
            'states': max(1, paths),
            'transitions': max(1, sum(r['forks'] for r in self.runs) + paths),
            'traces_validated_against_impl': self.validated,
            'samples': self.samples[:40] or [{'note': 'no sample recorded'}],
            'evaluations': max(1, paths),
            'distinct_nontrivial': sum(self.nontrivial.values()),
            'rule': 'one evaluation = one explored path = one solver-certified equivalence class of inputs; '
                    'non-trivial = classes listed in nontrivial_by_class (paths that reach error recovery, multi-byte handling, '
                    'rejections etc., see each run); distinct by construction (different branch decisions)',
            'nontrivial_by_class': self.nontrivial,
            'exhaustive': all(r['complete'] for r in self.runs) and not self.inconclusive,
            'runs': self.runs,
            'solver': {'name': 'z3 (python API, tooling venv)', 'queries': sum(r['solver_queries'] for r in self.runs),
                       'seconds': round(sum(r['solver_s'] for r in self.runs), 1),
                       'cross_check': {'second_solver': 'cvc5 1.0 (SMT-LIB2 export of sampled queries)', 'queries': self.model_hits.get('__xcheck_total__', 0),
                                       'agree': self.model_hits.get('__xcheck_agree__', 0), 'no_answer_in_5s': self.model_hits.get('__xcheck_noanswer__', 0),
                                       'note': 'a disagreement makes the run inconclusive (exit 2)'}},
            'mir_bodies_executed': len(self.bodies),
            'mir_bodies': sorted(self.bodies)[:400],
            'library_models_hit': {k: v for k, v in self.model_hits.items() if not k.startswith('__xcheck')},
            'trusted_base': self.trusted,
            'known_findings_matched': [dict(site=k['site'], family=k['family']) for k, v in kf_lines[:20]],
            'violations_reported': vio_paths,
        }
        if explanation:
            cov['explanation'] = explanation
        if coverage_extra:
            cov.update(coverage_extra)
        ev = {'property_id': self.pid, 'tier': self.tier, 'seed': self.seed, 'level': self.level, 'coverage': cov,
              'assumptions': self.assumptions, 'wall_s': round(time.time() - self.t0, 1), 'violations': len(new)}
        json.dump(ev, open(os.path.join(EVID, self.pid + '.json'), 'w'), indent=1, default=str)
        self.log('exit %d (%d violations, %d known findings, %d inconclusive)' % (code, len(new), len(seenk), len(self.inconclusive)))
        return code
