"""C20 — every reported range lies inside its document (kernel: syntax-error ranges; outgoing range conversion)."""
import os, json
from mirsym import native
from . import syn, synspecs, synrun
from .runner import Check

BOUNDS = {
    'quick':    {'tokens': 3, 'ctx': 1, 'raw': 2, 'lex': 5, 'pipeline': 2},
    'thorough': {'tokens': 4, 'ctx': 2, 'raw': 3, 'lex': 7, 'pipeline': 3},
}


def main(tier, seed):
    chk = Check('C20', tier, seed)
    B = BOUNDS[tier]
    jobs = int(os.environ.get('VERIF_JOBS', '16'))
    syn.load('dev', log=chk.log)
    oracle = native.Oracle(syn.ORACLE_BIN)
    sp = syn.Spellings(oracle)
    props = ['C20']
    # (i) syntax-error ranges: a token's range or the empty range at the end of the text; token ends are char boundaries
    synrun.token_suite(chk, oracle, sp, jobs, props, B['tokens'], B['ctx'])
    synrun.token_suite(chk, oracle, sp, jobs, props, B['raw'], 0, lo='WHITESPACE', hi='ERROR', raw=True)
    synrun.deep_suite(chk, oracle, sp, jobs, props, 1, 3)
    # trivia next to names: doc comments / comments / whitespace before labels, parameters, expressions (raw kinds incl. trivia)
    from mirsym import explore
    from . import c01
    for name, prefix in [c for c in c01.RAW_CONTEXTS if c[0] in ('in-variant-fields', 'in-block', 'in-type', 'in-case')] + [('in-params', ['FN_KW', 'IDENT', 'L_PAREN'])]:
        res, complete = explore.explore(c01.raw_ctx_factory, (2, tuple(prefix), ()), jobs=jobs)
        chk.add_run('raw ctx %s +2 (names are single tokens)' % name, res, complete, {'symbolic_raw_tokens': 2, 'alphabet': 'WHITESPACE..=ERROR (75 kinds)', 'prefix': prefix}, nontrivial_classes=lambda c: c != 'ok-clean')
        synrun.confirm_violations(chk, res, oracle, sp, 'raw context %s' % name, props, raw=True)
    synrun.lexer_suite(chk, oracle, sp, jobs, props + ['C01/C20', 'C01: token'], B['lex'], B['pipeline'])
    oracle.close()
    syn.W.cleanup()
    # (ii) outgoing range conversion (convert::to_range over the line map) — shares the C14 kernel
    try:
        from . import vfsrun
        vfsrun.c20_part(chk, tier, jobs)
    except ImportError:
        chk.assumptions.append('part (ii) (convert::to_range) is decided by the C14 check')
    # (iii) the diagnostics query hands the parser's error ranges through unchanged
    from . import diagk
    diagk.part(chk, tier, jobs)
    # (iv) document highlights are ranges of the queried file only
    from . import hlk
    hlk.part(chk, tier, jobs)
    chk.assumptions += synrun.SYN_ASSUMPTIONS + [
        'kernel claim: only ranges produced by the parser (syntax errors) and the offset->position conversion of outgoing ranges are decided; '
        'ranges computed by ide queries (navigation targets, references, rename edits, completion source ranges, highlights) need the salsa database and rowan cursors and are outside the claim']
    chk.trusted += synrun.SYN_TRUSTED
    return chk.finish({'unrealisable_counterexamples': chk.extra.get('unrealisable', 0)})


def replay(path):
    d = json.load(open(path))
    syn.load('dev', log=lambda m: None)
    oracle = native.Oracle(syn.ORACLE_BIN)
    nv = synrun.native_verdict(oracle, d['cex']['text'])
    print(json.dumps({'input': d['cex']['text'], 'native_verdict': nv}, indent=1))
    return 1 if nv else 0
