"""C20 — every reported range lies inside its document (kernel: syntax-error ranges; outgoing range conversion)."""
import os, json
from mirsym import native
from . import syn, synspecs, synrun
from .runner import Check

BOUNDS = {
    'quick':    {'tokens': 3, 'ctx': 1, 'raw': 2, 'lex': 5, 'pipeline': 2},
    'thorough': {'tokens': 4, 'ctx': 2, 'raw': 3, 'lex': 7, 'pipeline': 3},
}


def main(tier, seed):
    chk = Check('C20', tier, seed)
    B = BOUNDS[tier]
    jobs = int(os.environ.get('VERIF_JOBS', '16'))
    syn.load('dev', log=chk.log)
    oracle = native.Oracle(syn.ORACLE_BIN)
    sp = syn.Spellings(oracle)
    props = ['C20']
    # (i) syntax-error ranges: a token's range or the empty range at the end of the text; token ends are char boundaries
    synrun.token_suite(chk, oracle, sp, jobs, props, B['tokens'], B['ctx'])
    synrun.token_suite(chk, oracle, sp, jobs, props, B['raw'], 0, lo='WHITESPACE', hi='ERROR', raw=True)
    synrun.deep_suite(chk, oracle, sp, jobs, props, 1, 3)
    # trivia next to names: a doc comment / module comment / comment + line break in front of parameters, labels, expressions, patterns
    # (raw kinds incl. trivia; the comment and the whitespace after it are part of the concrete prefix so that the text is lexer-realisable)
    from mirsym import explore
    W_ = 'WHITESPACE'
    DOC_CTX = [('params', ['FN_KW', W_, 'IDENT', 'L_PAREN', W_]), ('variant-fields', ['TYPE_KW', W_, 'U_IDENT', W_, 'L_BRACE', W_, 'U_IDENT', 'L_PAREN', W_]),
               ('block', ['FN_KW', W_, 'IDENT', 'L_PAREN', 'R_PAREN', W_, 'L_BRACE', W_]), ('case-clauses', ['FN_KW', W_, 'IDENT', 'L_PAREN', 'R_PAREN', W_, 'L_BRACE', W_, 'CASE_KW', W_, 'IDENT', W_, 'L_BRACE', W_]),
               ('call-args', ['FN_KW', W_, 'IDENT', 'L_PAREN', 'R_PAREN', W_, 'L_BRACE', W_, 'IDENT', 'L_PAREN', W_])]
    for name, prefix in DOC_CTX:
        for com in ('COMMENT_STATEMENT', 'COMMENT_MODULE', 'COMMENT'):
            res, complete = explore.explore(doc_ctx_factory, (2, tuple(prefix + [com, W_])), jobs=jobs)
            chk.add_run('raw ctx %s after a %s + line break, +2 raw tokens (names are single tokens)' % (name, com), res, complete,
                        {'symbolic_raw_tokens': 2, 'alphabet': 'WHITESPACE..=ERROR (75 kinds)', 'prefix': prefix + [com, W_]}, nontrivial_classes=lambda c: c != 'ok-clean')
            synrun.confirm_violations(chk, res, oracle, sp, 'raw context %s after %s' % (name, com), props, raw=True)
    synrun.lexer_suite(chk, oracle, sp, jobs, props + ['C01/C20', 'C01: token'], B['lex'], B['pipeline'])
    oracle.close()
    syn.W.cleanup()
    # (ii) outgoing range conversion (convert::to_range over the line map) — shares the C14 kernel
    try:
        from . import vfsrun
        vfsrun.c20_part(chk, tier, jobs)
    except ImportError:
        chk.assumptions.append('part (ii) (convert::to_range) is decided by the C14 check')
    # (iii) the diagnostics query hands the parser's error ranges through unchanged
    from . import diagk
    diagk.part(chk, tier, jobs)
    # (iv) document highlights are ranges of the queried file only
    from . import hlk
    hlk.part(chk, tier, jobs)
    # (v) native layer: the ranges in every answer of the public API on enumerated workspaces
    from . import rangek
    orc = native.Oracle(native.build('oracle-ide'))
    try:
        rangek.part(chk, orc, 24 if tier == 'quick' else None)
    finally:
        orc.close()
    chk.assumptions += synrun.SYN_ASSUMPTIONS + [
        'native layer (executed, not a solver verdict): on 24 (quick) / all 128 z3-enumerated namings of the six-module workspace template of C06, every file prefixed with a comment line of 2-, 3- and 4-byte characters, every range of every answer '
        '(definition targets with focus inside full range, references, highlights, hover, prepare-rename, diagnostics, semantic highlights) names a file of the workspace, lies inside it, starts and ends on character boundaries, and name-like results cover a whole identifier token',
        'kernel claim: only ranges produced by the parser (syntax errors) and the offset->position conversion of outgoing ranges are decided; '
        'ranges computed by ide queries (navigation targets, references, rename edits, completion source ranges, highlights) need the salsa database and rowan cursors and are outside the claim']
    chk.trusted += synrun.SYN_TRUSTED
    return chk.finish({'unrealisable_counterexamples': chk.extra.get('unrealisable', 0), 'native_oracle': chk.extra.get('ranges', {})})


def doc_ctx_factory(k, prefix_raw):
    from . import synspecs as _s
    return _s.TokenSpec(k, lo='WHITESPACE', hi='ERROR', prefix=list(prefix_raw), suffix=[])


def replay(path):
    d = json.load(open(path))
    if d.get('cex', {}).get('kind') == 'workspace-ranges':
        from . import rangek
        orc = native.Oracle(native.build('oracle-ide'))
        ws = rangek.workspace(d['cex']['names'])
        r = orc.ask('answers', json.dumps(ws)); orc.close()
        probs = rangek.check(ws, r.get('dump', {})) if isinstance(r, dict) else [str(r)]
        print(json.dumps({'problems': probs[:5]}, indent=1))
        return 1 if probs else 0
    syn.load('dev', log=lambda m: None)
    oracle = native.Oracle(syn.ORACLE_BIN)
    nv = synrun.native_verdict(oracle, d['cex']['text'])
    print(json.dumps({'input': d['cex']['text'], 'native_verdict': nv}, indent=1))
    return 1 if nv else 0
