"""C20 part (iv): ide::highlight_related reports only ranges of the queried file (kernel, under-constrained database).
The usage search is replaced by a result that contains symbolic ranges for the queried file AND for another file."""
import re, json
import z3
from mirsym.world import World
from mirsym.values import *
from mirsym import models

W = None


class HlSpec:
    def __init__(self, n_own, n_other):
        self.n_own = n_own; self.n_other = n_other

    def make_interp(self):
        it = W.interp('ide', uc=True)
        it.allow = [r'^ide::highlight_related::highlight_related$', r'^ide::highlight_related::highlight_related::\{closure#\d+\}', r'^def::search::<impl at [^>]*>::into_iter$']
        mk = lambda tag, i: (z3.BitVec('%ss%d' % (tag, i), 32), z3.BitVec('%se%d' % (tag, i), 32))
        self.own = [mk('o', i) for i in range(self.n_own)]
        self.other = [mk('x', i) for i in range(self.n_other)]
        for s, e in self.own + self.other:
            it.solver.add(z3.ULE(s, e), z3.ULE(e, 64))
        fid = lambda k: Agg('struct', 'FileId', None, [IntV(k, 32, 0)])
        rng = lambda s, e: models.mk_range(IntV(s, 32, 0), IntV(e, 32, 0))

        def all_(it_, c, a):
            mp = MapV()
            # the dependent file first: a lookup that forgets the key would pick it up
            mp.kv.append((fid(1), VecV([rng(s, e) for s, e in self.other])))
            mp.kv.append((fid(0), VecV([rng(s, e) for s, e in self.own])))
            return Agg('struct', 'UsageSearchResult', None, [mp])
        it.models['FindUsages::all'] = all_
        for t in ('HashSet',):
            it.models['%s::new' % t] = lambda it_, c, a: MapV()
            it.models['<%s as Default>::default' % t] = lambda it_, c, a: MapV()
            it.models['%s::insert' % t] = lambda it_, c, a: BoolV(models._map_insert(it_, models.deref(a[0]), a[1], UNIT).variant == 'None')
        base_into = it.trait_models.get(('IntoIterator', 'into_iter'))

        def into_iter(it_, c, a):
            v = a[0]
            if isinstance(v, MapV):
                if 'HashSet' in c:
                    return PyIter((k for k, _ in list(v.kv)))
                return PyIter((tup(k, x) for k, x in list(v.kv)))        # by-value map iteration yields owned pairs
            if isinstance(v, Agg) and v.kind == 'struct' and v.name == 'UsageSearchResult':
                return NotImplemented          # the crate's own IntoIterator impl (real MIR)
            return base_into(it_, c, a)
        it.trait_models[('IntoIterator', 'into_iter')] = into_iter
        it.models['IntMap::remove'] = it.models['HashMap::remove']
        return it

    def run_path(self, it):
        b = W.crates['ide']['ide::highlight_related::highlight_related']
        fpos = Agg('struct', 'FilePos', None, [Agg('struct', 'FileId', None, [IntV(0, 32, 0)]), models.mk_tsz(IntV(3, 32, 0))])
        r = it.run_body(b, [LazyV('db'), fpos])
        var, pay = models.shape(it, r, ['None', 'Some'])
        if var == 'None':
            return {'cls': 'no-answer', 'ok': True}
        out = [models.deref(x) for x in pay.items]
        bad = []
        conds = []
        got = []
        for h in out:
            rr = models.deref(h.fields[0])
            s, e = models.tsz(rr.fields[0]).z(), models.tsz(rr.fields[1]).z()
            got.append((s, e))
            conds.append(z3.Not(z3.Or([z3.And(s == a, e == b2) for a, b2 in self.own]))) if self.own else conds.append(z3.BoolVal(True))
        if conds:
            rr2, m = it.check(z3.Or(conds))
            if rr2 == z3.sat:
                ev = lambda t: m.eval(t, model_completion=True).as_long()
                bad.append('C20: document highlight reports a range that is not a reference in the queried file: highlights %s, references in the file %s, in another file %s' %
                           ([(ev(s), ev(e)) for s, e in got], [(ev(s), ev(e)) for s, e in self.own], [(ev(s), ev(e)) for s, e in self.other]))
        rec = {'cls': 'answer:%d-highlights' % len(out), 'ok': True, 'sample': {'own_refs': self.n_own, 'other_file_refs': self.n_other, 'highlights': len(out)}}
        if bad:
            rec.update({'cls': 'violation', 'ok': False, 'why': bad, 'cex': {'own': self.n_own, 'other': self.n_other}})
        return rec

    def on_panic(self, it, e):
        return {'cls': 'panic-under-havoc', 'ok': True}


def factory(a, b):
    return HlSpec(a, b)


FIXTURE = {'files': [{'path': '/app/src/test.gleam', 'text': 'pub fn print() {}\n', 'root': 0},
                     {'path': '/app/src/test2.gleam', 'text': 'import test\n\nfn main() {\n  let aaaaaaaaaaaaaaaaaaaaaaaaaaaaaaaaaaaaaaaa = 1\n  test.print()\n  test.print()\n}\n', 'root': 0}],
           'roots': [{'path': '/app', 'local': True, 'deps': []}], 'file': 0, 'offset': 8}


def part(chk, tier, jobs):
    global W
    from mirsym import explore, native
    W = World(['ide'], 'dev', log=chk.log)
    oracle = native.Oracle(native.build('oracle-ide'))
    try:
        found = []
        for (a, b) in ((1, 1), (2, 1), (0, 2)):
            res, complete = explore.explore(factory, (a, b), jobs=1)
            chk.add_run('highlight_related: %d symbolic references in the queried file, %d in another file (under-constrained database)' % (a, b), res, complete, {'own': a, 'other': b},
                        nontrivial_classes=lambda c: c.startswith('answer'))
            found += res.violations
        r = oracle.ask('highlight', json.dumps(FIXTURE))
        n0 = len(FIXTURE['files'][0]['text'])
        outside = [h for h in (r.get('highlight') or []) if h[1] > n0] if isinstance(r, dict) else None
        if found:
            if outside:
                chk.violation('highlight-file', 'bounded', '%s; public API: highlights %s for a %d-byte file' % (found[0]['why'][0][:300], r.get('highlight'), n0), {'fixture': 'two modules'}, confirmed=True)
            else:
                chk.inconclusive.append('highlight kernel: %s - but the two-module fixture shows only in-file ranges (%s)' % (found[0]['why'][0][:200], r))
        elif outside is None or outside:
            chk.inconclusive.append('public-API highlight fixture: %s' % r)
        else:
            chk.validated += 1
    finally:
        oracle.close(); W.cleanup()
