"""C10 kernel: rendering a documentation comment never panics - syntax::ast::HasDocParts::doc_text, the per-token closure (real MIR, full mode).

hover and completion render the doc comments of a definition through doc_text; it slices the text of every comment token after its slashes.
The token is a model: kind symbolic over the three comment kinds and one other kind, text = the slashes of that kind followed by n symbolic
bytes constrained to valid UTF-8 without a line break (what the lexer can produce for a comment).  On every path the closure must return
without panic (a `str` slice off a character boundary, an index past the end), and the text it keeps must be the bytes after the slashes."""
import re
import z3
from mirsym.values import *
from mirsym import models
from . import syn

SLASHES = {'COMMENT': 2, 'COMMENT_STATEMENT': 3, 'COMMENT_MODULE': 4}


class DocSpec:
    def __init__(self, n):
        self.n = n

    def make_interp(self):
        it = syn.W.interp('syntax')
        self.kind = z3.BitVec('kind', 16)
        self.bytes = [z3.BitVec('d%d' % i, 8) for i in range(self.n)]
        ks = [syn.KINDS[k] for k in SLASHES] + [syn.KINDS['WHITESPACE']]
        it.solver.add(z3.Or([self.kind == k for k in ks]))
        it.solver.add(syn.utf8_valid(self.bytes))
        for b in self.bytes:
            it.solver.add(b != 0x0A, b != 0x0D)
        spec = self
        it.models['SyntaxToken::kind'] = lambda it_, c, a: IntV(spec.kind, 16, 0)
        it.models['SyntaxToken::text'] = lambda it_, c, a: StrSym(spec.text)
        return it

    def run_path(self, it):
        kname = it.choose([(self.kind == syn.KINDS[k], k) for k in list(SLASHES) + ['WHITESPACE']])
        ns = SLASHES.get(kname, 0)
        # the first byte after the slashes of a 2- / 3-slash comment is not another slash (that would be the next kind)
        if kname in ('COMMENT', 'COMMENT_STATEMENT') and self.n:
            it.solver.add(self.bytes[0] != 0x2F)
        self.text = [IntV(0x2F, 8, 0)] * ns + [IntV(b, 8, 0) for b in self.bytes]
        clo = next(b for n, b in syn.W.crates['syntax'].items() if re.match(r'^ast::HasDocParts::doc_text::\{closure#0\}$', n))
        env = Agg('closure', clo.args[0][1].lstrip('&mut ').strip(), None, [])
        r = it.run_body(clo, [RefV([env], 0), Opaque('token')])
        r = models.deref(r)
        rec = {'cls': 'kept:' + kname, 'ok': True, 'sample': {'kind': kname, 'bytes_after_slashes': self.n}}
        if kname == 'WHITESPACE':
            if r.variant != 'None':
                rec = {'cls': 'violation', 'ok': False, 'why': ['C10/docs: a token that is not a comment contributes to the documentation text'], 'cex': {'kind': kname}}
            return rec
        if r.variant != 'Some':
            return {'cls': 'violation', 'ok': False, 'why': ['C10/docs: the %s token is dropped from the documentation text' % kname], 'cex': {'kind': kname}}
        got = models.str_bytes(r.fields[0])
        want = self.text[ns:]
        if len(got) > len(want):
            return {'cls': 'violation', 'ok': False, 'why': ['C10/docs: the documentation text of a %s token keeps %d bytes, the comment has %d after its slashes' % (kname, len(got), len(want))], 'cex': {'kind': kname}}
        return rec

    def on_panic(self, it, e):
        m = it.solver.model() if it.solver.check() == z3.sat else None
        bs = bytes([m.eval(b, model_completion=True).as_long() for b in self.bytes]) if m is not None else b''
        kname = None
        if m is not None:
            kv = m.eval(self.kind, model_completion=True).as_long()
            kname = next((k for k in SLASHES if syn.KINDS[k] == kv), None)
        text = '/' * SLASHES.get(kname, 3) + bs.decode('utf-8', 'replace')
        return {'cls': 'violation', 'ok': False, 'why': ['C10: rendering the doc comment %r panics: %s' % (text, str(e)[:160])], 'cex': {'comment': text, 'kind': kname, 'panic': str(e)[:200]}}


def factory(n):
    return DocSpec(n)
