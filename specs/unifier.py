"""Kernel of C09 / C10: the real MIR of InferCtx::{unify, unify_var_ty, unify_var, try_unify_var}, UnionFind and
Collector::{collect, collect_uncached} (crates/ide/src/ty) over small type tables whose shapes are chosen by the solver."""
import re
import z3
from mirsym.world import World
from mirsym.values import *
from mirsym import models

W = None
TY = 'ty::infer::Ty'


def load(profile='dev', log=print):
    global W
    W = World(['ide'], profile, log=log)
    return W


def body(suffix_re):
    c = [b for n, b in W.crates['ide'].items() if re.search(suffix_re, n)]
    if len(c) != 1:
        raise KeyError('%d bodies match %s: %s' % (len(c), suffix_re, [b.name for b in c][:4]))
    return c[0]


def install(it):
    M = it.models; TM = it.trait_models

    def find_position(it_, c, a):
        src = models.persist(it_, a[0]); clo = a[1]
        i = 0
        while True:
            x = models._it_next(it_, src)
            if x is None:
                return none()
            if it_.choose_bool(it_.call_closure(clo, [RefV([x], 0)])):
                return some(tup(IntV(i, 64, 0), x))
            i += 1
    TM[('Itertools', 'find_position')] = find_position

    def vec_remove(it_, c, a):
        xs = models.deref(a[0]).items; i = models.cint(it_, a[1], fork=True)
        if i >= len(xs):
            raise Panic('vec-remove-oob', 'removal index (is %d) should be < len (is %d)' % (i, len(xs)), it_.stack)
        return xs.pop(i)
    M['Vec::remove'] = vec_remove
    M['vec::from_elem'] = lambda it_, c, a: VecV([dcopy(a[0]) for _ in range(models.cint(it_, a[1]))])
    M['next_letter'] = M['display::next_letter'] = lambda it_, c, a: StrV('t%d' % models.cint(it_, a[0]))
    M['Arc::new'] = lambda it_, c, a: a[0]
    M['<Level as PartialOrd>::le'] = lambda it_, c, a: BoolV(False)
    M['<Level as PartialOrd>::lt'] = lambda it_, c, a: BoolV(False)
    M['dispatcher::has_been_set'] = lambda it_, c, a: BoolV(True)
    M['log::max_level'] = lambda it_, c, a: IntV(0, 16, 0)

    base_peq = TM.get(('PartialEq', 'eq'))

    def peq(it_, c, a):
        r = base_peq(it_, c, a) if base_peq else NotImplemented
        if r is not NotImplemented:
            return r
        x, y = models.deref(a[0]), models.deref(a[1])
        if isinstance(x, Agg) and isinstance(y, Agg) and x.name in ('Option', 'TyVar', 'SmolStr', '(,)'):
            eq = models._key_eq(it_, x, y)
            return BoolV(eq if c.endswith('eq') else not eq)
        if c.endswith('::ne'):
            # PartialEq::ne is the provided method: !eq (the derived eq is real MIR)
            fb = it_.resolve(c[:-4] + '::eq', 2)
            if fb is not None:
                r = it_.run_body(fb, list(a))
                return BoolV(not r.v) if not r.sym() else BoolV(z3.Not(r.v))
        return NotImplemented
    TM[('PartialEq', 'eq')] = peq; TM[('PartialEq', 'ne')] = peq


# ------------------------------------------------------------------------------------------------ values of ty::infer

def tyvar(i):
    return Agg('struct', 'TyVar', None, [IntV(i, 32, 0)])


def label(s):
    return none() if s is None else some(StrV(s))


def mk(kind, *a):
    if kind in ('Nil', 'Bool', 'Int', 'Float', 'String', 'BitArray'):
        return Agg('enum', TY, kind, [])
    if kind == 'Unknown':
        return Agg('enum', TY, 'Unknown', [IntV(a[0], 32, 0)])
    if kind == 'List':
        return Agg('enum', TY, 'List', [tyvar(a[0])])
    if kind == 'Result':
        return Agg('enum', TY, 'Result', [tyvar(a[0]), tyvar(a[1])])
    if kind == 'Tuple':
        return Agg('enum', TY, 'Tuple', [VecV([tyvar(x) for x in a[0]])])
    if kind == 'Function':
        return Agg('enum', TY, 'Function', [VecV([tup(label(l), tyvar(v)) for l, v in a[0]]), tyvar(a[1])])
    raise ValueError(kind)


def mk_table(entries):
    """UnionFind<Ty>: Vec<(Option<Ty>, parent u32, rank u8)>"""
    return Agg('struct', 'UnionFind', None, [VecV([tup(some(e), IntV(i, 32, 0), IntV(0, 8, 0)) for i, e in enumerate(entries)])])


def struct_fields(name, relpath='crates/ide/src/ty/infer.rs'):
    """field names (declaration order) and types of `struct <name>` in the current source"""
    import os
    src = open(os.path.join(os.environ.get('VERIF_REPO', '/repo'), relpath), encoding='utf-8').read()
    m = re.search(r'struct %s(?:<[^>]*>)?\s*\{(.*?)\n\}' % name, src, flags=re.S)
    body_ = re.sub(r'//[^\n]*', '', m.group(1))
    return re.findall(r'^\s*(?:pub(?:\([^)]*\))?\s+)?(\w+)\s*:\s*([^\n]+?),?\s*$', body_, flags=re.M)


def infer_ctx(given, opaque=Opaque):
    """InferCtx value with the fields in declaration order; fields not given: Vec -> empty, HashMap -> empty, else opaque"""
    vals = []
    for fname, fty in struct_fields('InferCtx'):
        if fname in given:
            vals.append(given[fname])
        elif fty.startswith('Vec<'):
            vals.append(VecV([]))
        elif fty.startswith('HashMap<'):
            vals.append(MapV())
        else:
            vals.append(opaque(fname))
    return Agg('struct', 'InferCtx', None, vals)


def body_ctx():
    from . import scopes
    vals = []
    for fname, fty in struct_fields('BodyCtx'):
        vals.append(scopes.ArenaMapV() if fty.startswith('ArenaMap<') else MapV())
    names = [f for f, _ in struct_fields('BodyCtx')]
    return Agg('struct', 'BodyCtx', None, vals), names.index('pattern_to_ty'), names.index('expr_to_ty')


def mk_ctx(table):
    cell = [table]
    # InferCtx { db, body_ctx, idx, fn_id, resolver, group, body, table }: only idx and table are touched by the unifier
    ctx = infer_ctx({'idx': IntV(100, 32, 0), 'table': RefV(cell, 0)})
    return ctx, cell


def uf_find(it, cell, i):
    return it.run_body(body(r'^ty::union_find::<impl at [^>]*>::find$'), [RefV(cell, 0), IntV(i, 32, 0)]).v


def entry_of(it, cell, i):
    r = uf_find(it, cell, i)
    e = cell[0].fields[0].items[r].fields[0]
    return r, (e.fields[0] if e.variant == 'Some' else None)


def shape_str(it, cell, i, depth=0, seen=()):
    """structural rendering of the type a variable stands for (cycle-safe)"""
    r, e = entry_of(it, cell, i)
    if r in seen or depth > 6:
        return '@%d' % r
    if e is None:
        return '<taken>'
    k = e.variant
    if k == 'Unknown':
        return '?%d' % r
    if k in ('Nil', 'Bool', 'Int', 'Float', 'String', 'BitArray'):
        return k
    sub = lambda v: shape_str(it, cell, v.fields[0].v, depth + 1, seen + (r,))
    if k == 'List':
        return 'List(%s)' % sub(e.fields[0])
    if k == 'Result':
        return 'Result(%s,%s)' % (sub(e.fields[0]), sub(e.fields[1]))
    if k == 'Tuple':
        return '#(%s)' % ','.join(sub(v) for v in e.fields[0].items)
    if k == 'Function':
        ps = []
        for p in e.fields[0].items:
            l = p.fields[0]
            lv = l.fields[0] if l.variant == 'Some' else None
            if isinstance(lv, Agg):
                lv = lv.fields[0]
            ps.append(('%s:' % lv.s if lv is not None else '') + sub(p.fields[1]))
        return 'fn(%s)->%s' % (','.join(ps), sub(e.fields[1]))
    return k


BASES = ['Unknown', 'Int', 'String']
LABELS = [None, 'a', 'b']


class LabelSpec:
    """unify  fn(l1 p1, l2 p2) -> r   with   fn(m1 q1, m2 q2) -> s   where the labels are chosen by the solver from {none,a,b}
    and every parameter / return variable holds a base type chosen from {Unknown, Int, String}"""

    def __init__(self, arity=2):
        self.arity = arity

    def make_interp(self):
        it = W.interp('ide')
        install(it)
        n = self.arity
        self.sel = {}
        for side in 'LR':
            for i in range(n):
                self.sel[side + 'l%d' % i] = z3.BitVec('%sl%d' % (side, i), 8)
                self.sel[side + 'b%d' % i] = z3.BitVec('%sb%d' % (side, i), 8)
            self.sel[side + 'r'] = z3.BitVec('%sr' % side, 8)
        for k, v in self.sel.items():
            it.solver.add(z3.ULT(v, 3))
        for side in 'LR':
            # labelled parameters of one function have distinct labels
            for i in range(n):
                for j in range(i + 1, n):
                    li, lj = self.sel[side + 'l%d' % i], self.sel[side + 'l%d' % j]
                    it.solver.add(z3.Or(li == 0, lj == 0, li != lj))
        return it

    def pick(self, it, key, options):
        v = self.sel[key]
        return it.choose([(v == i, o) for i, o in enumerate(options)])

    def run_path(self, it):
        n = self.arity
        entries = []; layout = {}
        idx = 1

        def base(kind):
            nonlocal idx
            idx += 1
            return mk('Unknown', idx) if kind == 'Unknown' else mk(kind)
        sides = {}
        for side in 'LR':
            labels = [self.pick(it, side + 'l%d' % i, LABELS) for i in range(n)]
            bases = [self.pick(it, side + 'b%d' % i, BASES) for i in range(n)]
            rb = self.pick(it, side + 'r', BASES)
            pvars = []
            for b in bases:
                pvars.append(len(entries)); entries.append(base(b))
            rvar = len(entries); entries.append(base(rb))
            fvar = len(entries); entries.append(mk('Function', list(zip(labels, pvars)), rvar))
            sides[side] = (labels, bases, rb, pvars, rvar, fvar)
        ctx, cell = mk_ctx(mk_table(entries))
        cctx = [ctx]
        L = sides['L']; R = sides['R']
        r = it.run_body(body(r'^ty::infer::<impl at [^>]*>::try_unify_var$'), [RefV(cctx, 0), tyvar(L[5]), tyvar(R[5])])
        okv = (r.variant == 'Ok')
        bad = []
        # reference pairing: labelled parameters by label (any order), the remaining ones by position
        pairs = []
        rest_r = list(range(n))
        rest_l = []
        for i in range(n):
            # find_position(|(label2,_)| label1 == label2): equal labels, where None == None counts (unlabelled vs unlabelled)
            hit = None
            for j in rest_r:
                if R[0][j] == L[0][i]:
                    hit = j; break
            if hit is not None:
                rest_r.remove(hit); pairs.append((i, hit))
            else:
                rest_l.append(i)
        for k, i in enumerate(rest_l):
            if k < len(rest_r):
                pairs.append((i, rest_r[k]))
        compatible = lambda a, b: a == 'Unknown' or b == 'Unknown' or a == b
        expect_ok = compatible(L[2], R[2])         # parameters never fail the unification (`let _ =`); the return type does
        if okv != expect_ok:
            bad.append('C09: unify(%s, %s) returned %s, the reference says %s' % (self.describe(L), self.describe(R), 'Ok' if okv else 'Err', 'Ok' if expect_ok else 'Err'))
        if okv:
            fl = uf_find(it, cell, L[5]); fr = uf_find(it, cell, R[5])
            if fl != fr:
                bad.append('C09: try_unify_var returned Ok but the two function variables are in different classes')
            for (i, j) in pairs:
                a, b = L[1][i], R[1][j]
                same = uf_find(it, cell, L[3][i]) == uf_find(it, cell, R[3][j])
                if compatible(a, b) and not same:
                    bad.append('C09: parameter %d (label %s) of the left function and parameter %d (label %s) of the right one must be unified (matched by label / position) but are not: %s vs %s'
                               % (i, L[0][i], j, R[0][j], self.describe(L), self.describe(R)))
                if same and not compatible(a, b):
                    bad.append('C09: incompatible parameter types %s and %s were put in one class' % (a, b))
            for i in range(n):
                for j in range(n):
                    if (i, j) not in pairs and uf_find(it, cell, L[3][i]) == uf_find(it, cell, R[3][j]):
                        bad.append('C09: parameter %d (label %s) was unified with parameter %d (label %s) although labels / positions do not pair them: %s vs %s'
                                   % (i, L[0][i], j, R[0][j], self.describe(L), self.describe(R)))
            if uf_find(it, cell, L[4]) != uf_find(it, cell, R[4]):
                bad.append('C09: the return types are not unified')
        rec = {'cls': 'unified' if okv else 'mismatch', 'ok': True, 'sample': {'lhs': self.describe(L), 'rhs': self.describe(R), 'result': 'Ok' if okv else 'Err', 'pairs': pairs}}
        if bad:
            rec.update({'cls': 'violation', 'ok': False, 'why': bad[:3], 'cex': {'lhs': self.describe(L), 'rhs': self.describe(R)}})
        return rec

    def describe(self, s):
        return 'fn(%s) -> %s' % (', '.join(('%s ' % l if l else '') + b for l, b in zip(s[0], s[1])), s[2])

    def on_panic(self, it, e):
        return {'cls': 'panic:' + e.kind, 'ok': False, 'why': ['C10: the unifier panics: %s' % e], 'cex': {'panic': str(e), 'stack': list(e.stack[-3:])}}


def label_factory(arity):
    return LabelSpec(arity)


SHAPES = ['Unknown', 'Int', 'List', 'Tuple', 'Function', 'Result']


class TableSpec:
    """an arbitrary table of n type variables (cycles allowed): every entry is a shape chosen by the solver whose children
    are variables chosen by the solver; unify two chosen variables, then freeze every variable with the Collector.
    Asserts (C10): everything returns, nothing panics; (C09) Ok => both variables in one class and structurally equal when
    frozen; unifying a variable with itself changes nothing."""

    def __init__(self, n):
        self.n = n

    def make_interp(self):
        it = W.interp('ide')
        install(it)
        n = self.n
        self.shape = [z3.BitVec('s%d' % i, 8) for i in range(n)]
        self.c1 = [z3.BitVec('c1_%d' % i, 8) for i in range(n)]
        self.c2 = [z3.BitVec('c2_%d' % i, 8) for i in range(n)]
        self.a = z3.BitVec('a', 8); self.b = z3.BitVec('b', 8)
        for v in self.shape:
            it.solver.add(z3.ULT(v, len(SHAPES)))
        for v in self.c1 + self.c2 + [self.a, self.b]:
            it.solver.add(z3.ULT(v, n))
        it.solver.add(z3.ULE(self.a, self.b))           # unify is exercised in both argument orders by the symmetric tables
        return it

    def run_path(self, it):
        n = self.n
        entries = []; desc = []
        for i in range(n):
            sh = it.choose([(self.shape[i] == k, s) for k, s in enumerate(SHAPES)])
            if sh in ('Unknown', 'Int'):
                entries.append(mk('Unknown', i + 1) if sh == 'Unknown' else mk('Int')); desc.append(sh)
                continue
            x = it.choose([(self.c1[i] == k, k) for k in range(n)])
            if sh == 'List':
                entries.append(mk('List', x)); desc.append('List(%d)' % x); continue
            y = it.choose([(self.c2[i] == k, k) for k in range(n)])
            if sh == 'Tuple':
                entries.append(mk('Tuple', [x, y])); desc.append('#(%d,%d)' % (x, y))
            elif sh == 'Result':
                entries.append(mk('Result', x, y)); desc.append('Result(%d,%d)' % (x, y))
            else:
                entries.append(mk('Function', [(None, x)], y)); desc.append('fn(%d)->%d' % (x, y))
        a = it.choose([(self.a == k, k) for k in range(n)])
        b = it.choose([(self.b == k, k) for k in range(n)])
        ctx, cell = mk_ctx(mk_table(entries))
        cctx = [ctx]
        before = [shape_str(it, cell, i) for i in range(n)]
        r = it.run_body(body(r'^ty::infer::<impl at [^>]*>::try_unify_var$'), [RefV(cctx, 0), tyvar(a), tyvar(b)])
        okv = (r.variant == 'Ok')
        bad = []
        if okv and uf_find(it, cell, a) != uf_find(it, cell, b):
            bad.append('C09: try_unify_var(%d,%d) returned Ok but the variables are in different classes; table %s' % (a, b, desc))
        for i in range(n):
            e = entry_of(it, cell, i)[1]
            if e is None:
                bad.append('C10: the table entry of variable %d was left empty (a later lookup would unwrap None); table %s unify(%d,%d)' % (i, desc, a, b))
        if a == b:
            after = [shape_str(it, cell, i) for i in range(n)]
            if after != before or not okv:
                bad.append('C09: unifying variable %d with itself changed the table or failed: %s -> %s' % (a, before, after))
        # freeze everything (Collector): must terminate without panic, also on cyclic tables
        col = it.run_body(body(r'^ty::infer::<impl at [^>]*>::new$'), [RefV(cell, 0)]) if False else None
        collector = Agg('struct', 'Collector', None, [VecV([none() for _ in range(len(cell[0].fields[0].items))]), RefV(cell, 0), MapV(), IntV(0, 32, 0)])
        ccell = [collector]
        frozen = []
        for i in range(n):
            t = it.run_body(body(r'^ty::infer::<impl at [^>]*>::collect$'), [RefV(ccell, 0), tyvar(i)])
            frozen.append(t)
        if okv and not bad:
            fa, fb = render(frozen[a]), render(frozen[b])
            if fa != fb:
                bad.append('C09: after a successful unification the frozen types of the two variables differ: %s vs %s; table %s unify(%d,%d)' % (fa, fb, desc, a, b))
        cyc = any('@' in s for s in before)
        rec = {'cls': ('cyclic-' if cyc else '') + ('unified' if okv else 'mismatch'), 'ok': True, 'sample': {'table': desc, 'unify': [a, b], 'result': 'Ok' if okv else 'Err', 'frozen': [render(f) for f in frozen]}}
        if bad:
            rec.update({'cls': 'violation', 'ok': False, 'why': bad[:3], 'cex': {'table': desc, 'unify': [a, b]}})
        return rec

    def on_panic(self, it, e):
        return {'cls': 'panic:' + e.kind, 'ok': False, 'why': ['C10: unify / collect panics or recurses without bound: %s' % e], 'cex': {'panic': str(e), 'stack': list(e.stack[-3:])}}


def render(t, depth=0):
    t = models.deref(t)
    if depth > 8:
        return '...'
    if isinstance(t, Agg) and t.kind == 'enum':
        fs = []
        for f in t.fields:
            f = models.deref(f)
            if isinstance(f, VecV):
                fs.append('[' + ','.join(render(x, depth + 1) for x in f.items) + ']')
            elif isinstance(f, Agg) and f.kind == 'tuple':
                fs.append('(' + ','.join(render(x, depth + 1) for x in f.fields) + ')')
            else:
                fs.append(render(f, depth + 1))
        return t.variant + ('(' + ','.join(fs) + ')' if fs else '')
    if isinstance(t, StrV):
        return t.s
    if isinstance(t, Agg):
        return '(' + ','.join(render(x, depth + 1) for x in t.fields) + ')'
    return repr(t)


def table_factory(n):
    return TableSpec(n)


class CallSpec:
    """InferCtx::infer_expr on a call  _(l1 a1, .., lk ak)  built directly as arena data: every label is chosen by the solver from
    {none, a, b} (distinct when present) and every argument is a capture hole `_` or an Int literal.  The callee is a hole too, so the
    type the call imposes on it is read back from the table: it must be fn(l1 t1, .., lk tk) -> r with the labels written at the call,
    Int for literals, and - with a capture hole - the call's own type must be fn(hole) -> r."""

    def __init__(self, k):
        self.k = k

    def make_interp(self):
        from . import scopes
        it = W.interp('ide')
        install(it); scopes.install(it)
        self.lab = [z3.BitVec('l%d' % i, 8) for i in range(self.k)]
        self.hole = [z3.Bool('h%d' % i) for i in range(self.k)]
        for l in self.lab:
            it.solver.add(z3.ULT(l, 3))
        for i in range(self.k):
            for j in range(i + 1, self.k):
                it.solver.add(z3.Or(self.lab[i] == 0, self.lab[j] == 0, self.lab[i] != self.lab[j]))
        # at most one capture hole per call (Gleam allows exactly one)
        for i in range(self.k):
            for j in range(i + 1, self.k):
                it.solver.add(z3.Not(z3.And(self.hole[i], self.hole[j])))
        return it

    def run_path(self, it):
        from . import scopes
        k = self.k
        labels = [it.choose([(self.lab[i] == j, o) for j, o in enumerate(LABELS)]) for i in range(k)]
        holes = [it.choose([(self.hole[i], True), (z3.Not(self.hole[i]), False)]) for i in range(k)]
        E = lambda variant, fields: Agg('enum', 'def::module::Expr', variant, fields)
        exprs = [E('Hole', [])]
        for h in holes:
            exprs.append(E('Hole', []) if h else E('Literal', [IntV(0, 16, 0)]))
        lab = lambda l: none() if l is None else some(scopes.smol(StrV(l)))
        exprs.append(E('Call', [scopes.idx(0), VecV([tup(lab(labels[i]), scopes.idx(1 + i)) for i in range(k)])]))
        bodyv = Agg('struct', 'Body', None, [scopes.ArenaV([]), scopes.ArenaV(exprs), VecV([]), none(), scopes.idx(k + 1)])
        cell = [mk_table([])]
        bctx, pi, ei = body_ctx()
        ctx = infer_ctx({'body_ctx': bctx, 'idx': IntV(100, 32, 0), 'body': RefV([bodyv], 0), 'table': RefV(cell, 0)})
        r = it.run_body(body(r'^ty::infer::<impl at [^>]*>::infer_expr$'), [RefV([ctx], 0), scopes.idx(k + 1)])
        e2t = bctx.fields[ei].m
        bad = []
        what = '_(%s)' % ', '.join(('%s: ' % l if l else '') + ('_' if h else '1') for l, h in zip(labels, holes))
        fr, fe = entry_of(it, cell, e2t[0].fields[0].v)
        if fe is None or fe.variant != 'Function':
            bad.append('C09: the callee of %s is not given a function type (%s)' % (what, shape_str(it, cell, e2t[0].fields[0].v)))
        else:
            ps = fe.fields[0].items
            got = []
            for p in ps:
                l = p.fields[0]
                ls = None
                if l.variant == 'Some':
                    x = l.fields[0]
                    x = x.fields[0] if isinstance(x, Agg) else x
                    ls = x.s
                got.append(ls)
            if got != labels:
                bad.append('C09: the call %s requires a callee with parameter labels %s, the labels written at the call are %s' % (what, got, labels))
            else:
                for i, p in enumerate(ps):
                    sh = shape_str(it, cell, p.fields[1].fields[0].v)
                    if not holes[i] and sh != 'Int':
                        bad.append('C09: argument %d of %s (an Int literal) gives the parameter type %s' % (i, what, sh))
                    # the parameter must be the type of that argument expression
                    if uf_find(it, cell, p.fields[1].fields[0].v) != uf_find(it, cell, e2t[1 + i].fields[0].v):
                        bad.append('C09: parameter %d of the callee type of %s is not the type of argument %d' % (i, what, i))
            ret = fe.fields[1].fields[0].v
            res = shape_str(it, cell, r.fields[0].v)
            if any(holes):
                hi = holes.index(True)
                _, ce = entry_of(it, cell, r.fields[0].v)
                if ce is None or ce.variant != 'Function' or len(ce.fields[0].items) != 1:
                    bad.append('C09: the capture %s must have a one-parameter function type, it has %s' % (what, res))
                else:
                    if uf_find(it, cell, ce.fields[0].items[0].fields[1].fields[0].v) != uf_find(it, cell, e2t[1 + hi].fields[0].v):
                        bad.append('C09: the parameter of the capture %s is not the type of its hole' % what)
                    if uf_find(it, cell, ce.fields[1].fields[0].v) != uf_find(it, cell, ret):
                        bad.append('C09: the capture %s does not return the callee\'s return type' % what)
            elif uf_find(it, cell, r.fields[0].v) != uf_find(it, cell, ret):
                bad.append('C09: the call %s does not have the callee\'s return type' % what)
        rec = {'cls': 'capture' if any(holes) else 'call', 'ok': True, 'sample': {'call': what, 'callee': shape_str(it, cell, e2t[0].fields[0].v)}}
        if bad:
            rec.update({'cls': 'violation', 'ok': False, 'why': bad[:3], 'cex': {'call': what}})
        return rec

    def on_panic(self, it, e):
        return {'cls': 'panic:' + e.kind, 'ok': False, 'why': ['C10: inference of a call panics: %s' % e], 'cex': {'panic': str(e), 'stack': list(e.stack[-3:])}}


def call_factory(k):
    return CallSpec(k)


class CaseTotalSpec:
    """C10, "side tables indexed by expression/pattern id": InferCtx::infer_expr (real MIR, real table) on  case s1..sm { p1,..,pn -> e }
    built as arena data, m and n chosen by the solver (also n != m, which the parser accepts).  Afterwards every expression and every
    pattern of the body must have an entry in expr_to_ty / pattern_to_ty: InferenceResult::{ty_for_expr, ty_for_pattern} INDEX these
    maps (hover, highlighting, completion), so a missing entry is a panic of the next query."""

    def make_interp(self):
        from . import scopes
        it = W.interp('ide')
        install(it); scopes.install(it)
        self.m = z3.BitVec('subjects', 8); self.n = z3.BitVec('patterns', 8); self.k = z3.BitVec('kind', 8)
        it.solver.add(z3.UGE(self.m, 1), z3.ULE(self.m, 2), z3.UGE(self.n, 1), z3.ULE(self.n, 3), z3.ULE(self.k, 1))
        return it

    def run_path(self, it):
        from . import scopes
        m = it.choose([(self.m == i, i) for i in (1, 2)]); n = it.choose([(self.n == i, i) for i in (1, 2, 3)])
        kind = it.choose([(self.k == 0, 'Variable'), (self.k == 1, 'Hole')])
        E = lambda variant, fields: Agg('enum', 'def::module::Expr', variant, fields)
        P = lambda variant, fields: Agg('enum', 'def::module::Pattern', variant, fields)
        exprs = [E('Literal', [IntV(0, 16, 0)]) for _ in range(m)] + [E('Literal', [IntV(0, 16, 0)])]
        pats = [P('Variable', [scopes.smol(StrV('v%d' % i))]) if kind == 'Variable' else P('Hole', []) for i in range(n)]
        clause = Agg('struct', 'Clause', None, [VecV([scopes.idx(i) for i in range(n)]), scopes.idx(m)])
        exprs.append(E('Case', [VecV([scopes.idx(i) for i in range(m)]), VecV([clause])]))
        bodyv = Agg('struct', 'Body', None, [scopes.ArenaV(pats), scopes.ArenaV(exprs), VecV([]), none(), scopes.idx(m + 1)])
        cell = [mk_table([])]
        bctx, pi, ei = body_ctx()
        ctx = infer_ctx({'body_ctx': bctx, 'idx': IntV(100, 32, 0), 'body': RefV([bodyv], 0), 'table': RefV(cell, 0)})
        it.run_body(body(r'^ty::infer::<impl at [^>]*>::infer_expr$'), [RefV([ctx], 0), scopes.idx(m + 1)])
        p2t, e2t = bctx.fields[pi].m, bctx.fields[ei].m
        what = 'case %s { %s -> 1 }' % (', '.join(['1'] * m), ', '.join(('v%d' % i if kind == 'Variable' else '_') for i in range(n)))
        bad = []
        miss_p = [i for i in range(n) if i not in p2t]; miss_e = [i for i in range(len(exprs)) if i not in e2t]
        if miss_p:
            bad.append('C10: after inferring `%s` pattern(s) %s have no type entry: InferenceResult::ty_for_pattern indexes the map and panics on the next hover / highlight of that binder' % (what, miss_p))
        if miss_e:
            bad.append('C10: after inferring `%s` expression(s) %s have no type entry (ty_for_expr indexes the map)' % (what, miss_e))
        rec = {'cls': 'total' if not bad else 'violation', 'ok': not bad, 'sample': {'program': what}}
        if bad:
            rec.update({'why': bad, 'cex': {'subjects': m, 'patterns': n, 'pattern_kind': kind, 'program': 'fn f() { %s }' % what.replace('v0', 'a').replace('v1', 'b').replace('v2', 'c')}})
        return rec

    def on_panic(self, it, e):
        return {'cls': 'panic:' + e.kind, 'ok': False, 'why': ['C10: inference of a case expression panics: %s' % e], 'cex': {'panic': str(e), 'stack': list(e.stack[-3:])}}


def case_factory():
    return CaseTotalSpec()


class AliasCycleSpec:
    """C10, "self-referential" workspaces: InferCtx::make_ty_from_typeref (real MIR) on a type name that resolves to a type alias, over every
    alias graph of n aliases whose bodies name another alias or Int (targets chosen by the solver).  The expansion must return:
    no unbounded recursion (call depth > 400 is reported as stack overflow), no panic."""

    def __init__(self, n):
        self.n = n

    def make_interp(self):
        from . import scopes
        it = W.interp('ide', uc=True)
        it.allow = [r'^ty::infer::<impl at [^>]*>::(make_ty_from_typeref|new_ty_var|unify_var|unify_var_ty|unify|try_unify_var)$', r'^ty::infer::<impl at [^>]*>::make_ty_from_typeref::\{closure#\d+\}$',
                    r'^ty::infer::<impl at [^>]*>::intern$', r'^ty::union_find::']
        install(it); scopes.install(it)
        n = self.n
        self.t = [z3.BitVec('target%d' % i, 8) for i in range(n)]
        for t in self.t:
            it.solver.add(z3.ULE(t, n))            # n = Int
        spec = self
        tref = lambda name: Agg('enum', 'def::module::TypeRef', 'Adt', [none(), scopes.smol(StrV(name)), VecV([])])
        alias = lambda i: Agg('struct', 'TypeAlias', None, [Agg('struct', 'TypeAliasId', None, [IntV(i, 32, 0)])])

        def resolve_type(it_, c, a):
            nm = models.deref(a[1]); nm = nm.fields[0].s if isinstance(nm, Agg) else nm.s
            if nm.startswith('A'):
                return some(Agg('enum', 'ResolveResult', 'TypeAlias', [alias(int(nm[1:]))]))
            return none()

        def alias_data(it_, c, a):
            v = models.deref(a[0]); i = v.fields[0].fields[0].v
            if i not in spec.chosen:
                spec.chosen[i] = it_.choose([(spec.t[i] == j, j) for j in range(n + 1)])
            j = spec.chosen[i]
            return Agg('struct', 'TypeAliasData', None, [scopes.smol(StrV('A%d' % i)), some(tref('A%d' % j if j < n else 'Int')), VecV([]), LazyV('vis'), LazyV('ptr')])
        it.models['Resolver::resolve_type'] = resolve_type
        it.models['TypeAlias::data'] = alias_data
        it.models['<Arc as Deref>::deref'] = lambda it_, c, a: a[0]
        self.tref = tref
        return it

    def run_path(self, it):
        from . import scopes
        self.chosen = {}
        cell = [mk_table([])]
        bctx, pi, ei = body_ctx()
        ctx = infer_ctx({'body_ctx': bctx, 'idx': IntV(100, 32, 0), 'table': RefV(cell, 0)}, opaque=LazyV)
        env = MapV()
        ri = [f for f, _ in struct_fields('InferCtx')].index('resolver')
        before = ctx.fields[ri]
        r = it.run_body(body(r'^ty::infer::<impl at [^>]*>::make_ty_from_typeref$'), [RefV([ctx], 0), self.tref('A0'), RefV([env], 0)])
        g = {('A%d' % i): ('A%d' % j if j < self.n else 'Int') for i, j in self.chosen.items()}
        rec = {'cls': 'expanded:%s' % sorted(self.chosen.items()), 'ok': True, 'sample': {'aliases': g}}
        if ctx.fields[ri] is not before:
            rec = {'cls': 'violation', 'ok': False, 'cex': {'aliases': g},
                   'why': ['C09: after expanding the alias graph %s the inference context is left with the resolver of the module that declares the alias, not the one of the function being inferred: the types that follow in the signature are resolved in the wrong module' % g]}
        return rec

    def on_panic(self, it, e):
        g = {('A%d' % i): ('A%d' % j if j < self.n else 'Int') for i, j in self.chosen.items()}
        prog = ''.join('type %s = %s\n' % (a, b) for a, b in sorted(g.items())) + 'fn f(u: A0) { u }\n'
        if e.kind in ('stack-overflow', 'depth'):
            return {'cls': 'violation', 'ok': False, 'why': ['C10: expanding the type alias graph %s never returns (unbounded recursion in make_ty_from_typeref): %s' % (g, str(e)[:120])], 'cex': {'aliases': g, 'program': prog}}
        return {'cls': 'panic-under-havoc', 'ok': True}


def alias_factory(n):
    return AliasCycleSpec(n)


PRELUDE = ['Int', 'Float', 'String', 'BitArray', 'Bool', 'Nil', 'List', 'Result']


class ShadowSpec:
    """type names in annotations: InferCtx::make_ty_from_typeref (real MIR) on the unqualified name N for every prelude type name N and one
    other name.  Whether the current module's type scope knows a type called N (declared there, or imported with `import m.{type N}`) is
    chosen by the solver - Resolver::resolve_type answers Some(Adt #7) or None accordingly.  A type the module knows under that name IS the
    annotation (Gleam: module-level names shadow the prelude); the prelude meaning applies only when the scope has no such type."""

    def make_interp(self):
        from . import scopes
        it = W.interp('ide', uc=True)
        it.allow = [r'^ty::infer::<impl at [^>]*>::(new_ty_var|unify_var|unify_var_ty|unify|try_unify_var|intern)$', r'^ty::infer::<impl at [^>]*>::\w+::\{closure#\d+\}$',
                    r'^ty::infer::<impl at [^>]*>::(?!infer_|finish|type_from_variant|make_type$|resolve_)\w+$', r'^ty::union_find::', r'^ty::<impl at [^>]*>::intern$']
        install(it); scopes.install(it)
        self.declared = z3.Bool('module_scope_has_a_type_of_that_name')
        self.which = z3.BitVec('name', 8)
        it.solver.add(z3.ULE(self.which, len(PRELUDE)))
        spec = self

        def resolve_type(it_, c, a):
            spec.asked = True
            if spec.dec is None:
                spec.dec = it_.choose([(spec.declared, True), (z3.Not(spec.declared), False)])
            if spec.dec:
                return some(Agg('enum', 'ResolveResult', 'Adt', [Agg('struct', 'Adt', None, [Agg('struct', 'AdtId', None, [Agg('struct', 'InternId', None, [IntV(7, 32, 0)])])])]))
            return none()
        it.models['Resolver::resolve_type'] = resolve_type
        it.models['<Arc as Deref>::deref'] = lambda it_, c, a: a[0]
        it.models['SmolStr::as_str'] = lambda it_, c, a: models.deref(a[0]).fields[0]
        return it

    def run_path(self, it):
        from . import scopes
        self.dec = None; self.asked = False
        k = it.choose([(self.which == i, i) for i in range(len(PRELUDE) + 1)])
        name = (PRELUDE + ['Thing'])[k]
        cell = [mk_table([])]
        bctx, pi, ei = body_ctx()
        ctx = infer_ctx({'body_ctx': bctx, 'idx': IntV(100, 32, 0), 'table': RefV(cell, 0)}, opaque=LazyV)
        env = MapV()
        tref = Agg('enum', 'def::module::TypeRef', 'Adt', [none(), scopes.smol(StrV(name)), VecV([])])
        r = it.run_body(body(r'^ty::infer::<impl at [^>]*>::make_ty_from_typeref$'), [RefV([ctx], 0), tref, RefV([env], 0)])
        v = r.fields[0].v
        root, e = entry_of(it, cell, v)
        kind = e.variant if e is not None else None
        if not self.asked:
            # the module scope was never consulted: is a declaration of that name possible?  (it is: the solver is free)
            rr, _ = it.check(self.declared)
            dec = None if rr == z3.sat else False
        else:
            dec = self.dec
        bad = []
        if dec is None:
            bad.append('C09: the annotation `%s` is typed as the prelude type %s without asking the module scope: a type the module declares (or imports) under that name is ignored' % (name, kind))
        elif dec and kind != 'Adt':
            bad.append('C09: the module scope has a type called `%s`, but the annotation is typed as %s' % (name, kind))
        elif not dec and name in PRELUDE and kind != name:
            bad.append('C09: the annotation `%s` (no such type in the module scope) is typed as %s instead of the prelude type' % (name, kind))
        rec = {'cls': 'module-type' if dec else ('prelude' if name in PRELUDE else 'unknown-name'), 'ok': True, 'sample': {'name': name, 'module_scope_has_it': bool(dec), 'typed_as': kind}}
        if bad:
            prog = ('pub type %s { Mine }\nfn f(v: %s) { let w = v  w }\n' % (name, name)) if name not in ('List', 'Result') else \
                   ('pub type %s { Mine }\nfn f(v: %s) { let w = v  w }\n' % (name, name))
            rec.update({'cls': 'violation', 'ok': False, 'why': bad, 'cex': {'name': name, 'module_scope_has_it': dec, 'program': prog, 'needle': 'w =', 'want': name, 'want_not': None}})
        return rec

    def on_panic(self, it, e):
        return {'cls': 'panic-under-havoc', 'ok': True}


def shadow_factory():
    return ShadowSpec()


class MoveSpec:
    """ide::signature_help::move_element(vec, from, to) for every vector length n and ARBITRARY usize indices: never panics,
    and the result is the input with the element at `from` moved to position `to` (or unchanged when an index is out of range)"""

    def __init__(self, n):
        self.n = n

    def make_interp(self):
        it = W.interp('ide')
        install(it)
        self.f = z3.BitVec('from', 64); self.t = z3.BitVec('to', 64)
        return it

    def run_path(self, it):
        n = self.n
        v = VecV([IntV(i, 32, 0) for i in range(n)])
        it.run_body(body(r'^ide::signature_help::move_element$'), [RefV([v], 0), IntV(self.f, 64, 0), IntV(self.t, 64, 0)])
        got = [x.v for x in v.items]
        bad = []
        if sorted(got) != list(range(n)):
            bad.append('C10: move_element lost or duplicated an element: %s' % got)
        m = it.get_model()
        fv = m.eval(self.f, model_completion=True).as_long(); tv = m.eval(self.t, model_completion=True).as_long()
        rec = {'cls': 'moved' if got != list(range(n)) else 'unchanged', 'ok': True, 'sample': {'len': n, 'from': fv, 'to': tv, 'result': got}}
        if bad:
            rec.update({'cls': 'violation', 'ok': False, 'why': bad, 'cex': {'len': n, 'from': fv, 'to': tv}})
        return rec

    def on_panic(self, it, e):
        m = it.get_model()
        fv = m.eval(self.f, model_completion=True).as_long(); tv = m.eval(self.t, model_completion=True).as_long()
        return {'cls': 'panic:' + e.kind, 'ok': False, 'why': ['C10: signature help helper move_element(len %d, from %d, to %d) panics: %s' % (self.n, fv, tv, e)], 'cex': {'len': self.n, 'from': fv, 'to': tv}}


def move_factory(n):
    return MoveSpec(n)


class CtorPatSpec:
    """C09, constructor patterns: InferCtx::infer_pattern (real MIR, real table) on  C(p1, .., l: pk, ..)  built as arena data, for a
    constructor whose m fields carry labels chosen by the solver from {none, a, b} (distinct when present, unlabelled fields first) and a pattern whose k
    sub-patterns are positional first and then labelled with labels of the constructor (chosen by the solver, distinct).  Gleam binds the
    i-th positional sub-pattern to field i and a labelled one to the field of that label (which must not be one of the first fields taken
    positionally); afterwards the type variable of each sub-pattern must be unified with the type variable of exactly that field."""

    def __init__(self, m, k):
        self.m = m; self.k = k

    def make_interp(self):
        from . import scopes
        it = W.interp('ide')
        install(it); scopes.install(it)
        m, k = self.m, self.k
        self.fl = [z3.BitVec('fl%d' % j, 8) for j in range(m)]          # field labels: 0 none, 1 a, 2 b
        self.npos = z3.BitVec('npos', 8)                                # number of positional sub-patterns
        self.pl = [z3.BitVec('pl%d' % i, 8) for i in range(k)]          # label of sub-pattern i (used when i >= npos): 1 a, 2 b
        s = it.solver
        for f in self.fl:
            s.add(z3.ULT(f, 3))
        for i in range(m):
            for j in range(i + 1, m):
                s.add(z3.Or(self.fl[i] == 0, self.fl[j] == 0, self.fl[i] != self.fl[j]))
        # Gleam: unlabelled fields come before labelled ones
        for j in range(m - 1):
            s.add(z3.Implies(self.fl[j] != 0, self.fl[j + 1] != 0))
        s.add(z3.ULE(self.npos, k))
        for p in self.pl:
            s.add(z3.UGE(p, 1), z3.ULE(p, 3))          # 3 = a label no field has (a typo): the pattern is an error, every sub-pattern must still be typed
        for i in range(k):
            for j in range(i + 1, k):
                s.add(z3.Implies(z3.ULE(self.npos, i), self.pl[i] != self.pl[j]))
        spec = self

        def resolve_variant(it_, c, a):
            return tup(tyvar(spec.ctor_var), VecV([tup(label(LABELS[l]) if l == 0 else some(scopes.smol(StrV(LABELS[l]))), tyvar(spec.field_var[j])) for j, l in enumerate(spec.flabels)]))
        for key in ('InferCtx::resolve_variant', 'ty::infer::InferCtx::resolve_variant'):
            it.models[key] = resolve_variant
        return it

    def run_path(self, it):
        from . import scopes
        m, k = self.m, self.k
        self.flabels = [it.choose([(self.fl[j] == x, x) for x in range(3)]) for j in range(m)]
        npos = it.choose([(self.npos == x, x) for x in range(k + 1)])
        plabels = [None] * npos + [it.choose([(self.pl[i] == x, x) for x in (1, 2, 3)]) for i in range(npos, k)]
        # validity (Gleam): a labelled sub-pattern names a field that exists and is not among the first npos fields; not more positionals than fields
        PL = LABELS + ['c']
        valid = npos <= m
        target = list(range(npos))
        for i in range(npos, k):
            js = [j for j, l in enumerate(self.flabels) if l == plabels[i]]
            if not js or js[0] < npos:
                valid = False; target.append(None)
            else:
                target.append(js[0])
        P = lambda variant, fields: Agg('enum', 'def::module::Pattern', variant, fields)
        pats = [P('Variable', [scopes.smol(StrV('v%d' % i))]) for i in range(k)]
        lab = lambda l: none() if l is None else some(scopes.smol(StrV(PL[l])))
        pats.append(P('VariantRef', [scopes.smol(StrV('C')), none(), VecV([tup(lab(plabels[i]), scopes.idx(i)) for i in range(k)])]))
        bodyv = Agg('struct', 'Body', None, [scopes.ArenaV(pats), scopes.ArenaV([]), VecV([]), none(), scopes.idx(0)])
        # table: variable j < m is field j (each its own unknown), m is the constructed type, m + 1 the expected type
        cell = [mk_table([mk('Unknown', j + 1) for j in range(m + 2)])]
        self.field_var = list(range(m)); self.ctor_var = m
        bctx, pi, ei = body_ctx()
        ctx = infer_ctx({'body_ctx': bctx, 'idx': IntV(100, 32, 0), 'body': RefV([bodyv], 0), 'table': RefV(cell, 0)})
        it.run_body(body(r'^ty::infer::<impl at [^>]*>::infer_pattern$'), [RefV([ctx], 0), scopes.idx(k), tyvar(m + 1)])
        p2t = bctx.fields[pi].m
        shown = 'type T { C(%s) }  ..  C(%s)' % (', '.join(('%s: ' % LABELS[l] if l else '') + 'F%d' % j for j, l in enumerate(self.flabels)),
                                                  ', '.join(('%s: ' % PL[l] if l else '') + 'v%d' % i for i, l in enumerate(plabels)))
        bad = []
        for i in range(k):
            if i not in p2t:
                bad.append('C10: after inferring the pattern `%s` the sub-pattern v%d has no type entry' % (shown, i)); continue
            if not valid:
                continue
            r = uf_find(it, cell, p2t[i].fields[0].v)
            same = [j for j in range(m) if uf_find(it, cell, j) == r]
            if same != [target[i]]:
                bad.append('C09: in `%s` the sub-pattern v%d must get the type of field F%d; it is unified with the field(s) %s' % (shown, i, target[i], ['F%d' % j for j in same]))
        rec = {'cls': ('bound:%dpos+%dlab' if valid else 'ill-formed:%dpos+%dlab') % (npos, k - npos), 'ok': True, 'sample': {'pattern': shown}}
        if bad:
            tys = ['Int', 'String', 'Float']
            decl = 'type T { C(%s) }' % ', '.join(('%s: ' % LABELS[l] if l else '') + tys[j] for j, l in enumerate(self.flabels))
            pat = 'C(%s)' % ', '.join(('%s: ' % PL[l] if l else '') + 'v%d' % i for i, l in enumerate(plabels))
            prog = '%s\nfn f(t: T) { case t { %s -> #(%s) } }\n' % (decl, pat, ', '.join('v%d' % i for i in range(k)))
            rec.update({'cls': 'violation', 'ok': False, 'why': bad[:3], 'cex': {'pattern': shown, 'program': prog, 'expect': {('v%d' % i): (tys[target[i]] if valid and target[i] is not None else None) for i in range(k)}}})
        return rec

    def on_panic(self, it, e):
        return {'cls': 'panic:' + e.kind, 'ok': False, 'why': ['C10: inference of a constructor pattern panics: %s' % e], 'cex': {'panic': str(e), 'stack': list(e.stack[-3:])}}


def ctorpat_factory(m, k):
    return CtorPatSpec(m, k)
