"""C12 — snapshots are isolated from later changes; changes cancel, never block (necessary-condition obligations only).

AnalysisHost::{apply_change, request_cancellation, snapshot} and Analysis::{with_db + every public query method} are
executed under-constrained.  Obligations on every path:  O1 apply_change requests cancellation (a synthetic write on the
salsa runtime) BEFORE it applies the inputs;  O2 snapshot() goes through salsa's ParallelDatabase::snapshot;  O3 every
public query runs its database code inside Cancelled::catch (via with_db) and nowhere else;  O5 when Cancelled::catch answers
Err(Cancelled) - the solver chooses per call - the public method returns Err(Cancelled), never a regular answer;  O4 no other function of the
crate intercepts unwinding (MIR scan).
Interleavings are NOT explored."""
import os, re, json
from mirsym import explore, native
from mirsym.world import World
from mirsym.values import *
from mirsym import models
from .runner import Check

W = None
ALLOW = [r'^ide::<impl at [^>]*>::(apply_change|request_cancellation|snapshot|with_db)$', r'^ide::<impl at [^>]*>::\w+$', r'^ide::<impl at [^>]*>::\w+::\{closure#\d+\}$',
         r'^ide::<impl at [^>]*>::with_db::\{closure#\d+\}$']


class ObligationSpec:
    def __init__(self, fn):
        self.fn = fn

    def make_interp(self):
        it = W.interp('ide', uc=True)
        it.allow = ALLOW
        self.inside = [0]; self.ncatch = [0]; self.cancelled = [0]

        def catch(it_, c, a):
            # Cancelled::catch(f): run f; record that we are inside the guard.  O5: a pending change may cancel the closure at any
            # point - the solver chooses per call whether this one is answered Err(Cancelled) instead
            import z3
            self.ncatch[0] += 1
            cv = z3.Bool('cancelled%d' % self.ncatch[0])
            if self.fn not in ('apply_change', 'request_cancellation', 'snapshot') and it_.choose([(z3.Not(cv), False), (cv, True)]):
                self.cancelled[0] += 1
                it_.trace.append(('Cancelled::catch', [], None, tuple(it_.stack)))
                return err(Agg('struct', 'Cancelled', None, []))
            self.inside[0] += 1
            try:
                r = it_.call_closure(a[0], [])
            finally:
                self.inside[0] -= 1
            it_.trace.append(('Cancelled::catch', [], None, tuple(it_.stack)))
            return ok(r)
        it.models['Cancelled::catch'] = catch

        def hook(it_, callee, args):
            self.calls.append((callee.split('(')[0], self.inside[0], tuple(it_.stack)))
        it.call_hooks.append(hook)
        return it

    def run_path(self, it):
        self.calls = []; self.inside[0] = 0; self.ncatch[0] = 0; self.cancelled[0] = 0
        body = [b for n, b in W.crates['ide'].items() if re.search(r'^ide::<impl at [^>]*>::%s$' % self.fn, n)]
        if len(body) > 1:
            # same method name on AnalysisHost and on another type of the module: take the one whose self type fits
            want = 'AnalysisHost' if self.fn in ('apply_change', 'request_cancellation', 'snapshot') else 'Analysis'
            body = [b for b in body if b.args and re.search(r'\b%s\b' % want, b.args[0][1]) and (want != 'Analysis' or 'AnalysisHost' not in b.args[0][1])]
        if len(body) != 1:
            raise Unsupported('function %s not found (%d)' % (self.fn, len(body)))
        body = body[0]
        args = [RefV([LazyV('self')], 0)] + [LazyV('arg%d' % i) for i in range(len(body.args) - 1)]
        ret = it.run_body(body, args)
        names = [c[0] for c in self.calls]
        bad = []
        if self.cancelled[0]:
            # O5: the query was cancelled: the method must answer Err(Cancelled), not wrap the cancellation into a regular answer
            rv = models.deref(ret)
            if not (isinstance(rv, Agg) and rv.kind == 'enum' and rv.variant == 'Err'):
                shown = ('%s(%s..)' % (rv.variant, getattr(models.deref(rv.fields[0]), 'variant', '')) if isinstance(rv, Agg) and rv.kind == 'enum' and rv.fields else repr(rv)[:60])
                bad.append('O5: Analysis::%s answers %s when its query is cancelled (Cancelled::catch returned Err(Cancelled)): the cancellation is delivered as a regular answer instead of Err(Cancelled)' % (self.fn, shown))
            rec = {'cls': 'cancelled', 'ok': True, 'sample': {'function': self.fn, 'cancelled_catches': self.cancelled[0]}}
            if bad:
                rec.update({'cls': 'violation', 'ok': False, 'why': ['C12: ' + b for b in bad], 'cex': {'function': self.fn, 'calls': names[:12]}})
            return rec
        if self.fn == 'apply_change':
            sw = [i for i, n in enumerate(names) if n.endswith('synthetic_write')]
            ap = [i for i, n in enumerate(names) if n.endswith('Change::apply')]
            if not ap:
                bad.append('O1: apply_change does not apply the change')
            elif not sw or min(sw) > min(ap):
                bad.append('O1: apply_change applies the inputs without first requesting cancellation (synthetic write) - running queries are not cancelled, the writer blocks behind them')
            # O6: what reaches Change::apply is the Change the caller handed in - nothing else looks at it or edits it on the way (a filter between the
            # two makes the snapshots taken afterwards answer for other inputs than the workspace has)
            the_change = args[1] if len(args) > 1 else None
            tr = [t for t in it.trace if isinstance(t[0], str)]
            api = [i for i, t in enumerate(tr) if t[0].split('(')[0].endswith('Change::apply')]
            if api and the_change is not None:
                def same(v):
                    # the Change itself or one of its parts (field projections of the under-constrained argument)
                    x = models.deref(v); n_ = 0
                    while x is not None and n_ < 8:
                        if x is the_change:
                            return True
                        x = getattr(x, 'parent', None); n_ += 1
                    return False
                if not any(same(v) for v in tr[api[0]][1]):
                    bad.append('O6: apply_change applies another Change than the one it was given')
                touched = [t[0].split('(')[0] for t in tr[:api[0]] if any(same(v) for v in t[1]) and not re.search(r'drop|fmt|Debug|trace|tracing', t[0])]
                if touched:
                    bad.append('O6: before the change is applied it is handed to %s: a Change that is filtered or edited on the way makes later snapshots answer for other inputs than the workspace has' % '::'.join(re.sub(r'<[^<>]*>', '', re.sub(r'<[^<>]*>', '', touched[0])).replace('::::', '::').strip(':').split('::')[-2:]))
        elif self.fn == 'request_cancellation':
            if not any(n.endswith('synthetic_write') for n in names):
                bad.append('O1: request_cancellation performs no synthetic write')
        elif self.fn == 'snapshot':
            if not any(re.search(r'ParallelDatabase>::snapshot$|ParallelDatabase::snapshot$', n) for n in names):
                bad.append('O2: AnalysisHost::snapshot does not obtain its database through salsa ParallelDatabase::snapshot')
        else:
            # a public query: every call into the crate's query code must happen inside Cancelled::catch
            # (another public query method is itself subject to O3 / O5: calling it is not "database code outside the guard")
            pub = '|'.join(public_queries())
            outside = [c for c in self.calls if c[1] == 0 and re.match(r'^(ide::|def::|ty::|diagnostic)', c[0]) and not re.search(r'(Analysis|<impl at [^>]*>)::(with_db|%s)\b' % self.fn, c[0])
                       and not re.match(r'^ide::Analysis::(%s)$' % pub, c[0])]
            inside = [c for c in self.calls if c[1] > 0]
            if outside:
                bad.append('O3: Analysis::%s calls %s outside Cancelled::catch - a cancelled query unwinds into the caller (panic) instead of Err(Cancelled)' % (self.fn, outside[0][0]))
            if not inside:
                bad.append('O3: Analysis::%s runs no database code inside Cancelled::catch' % self.fn)
        rec = {'cls': 'ok', 'ok': True, 'sample': {'function': self.fn, 'calls': [('catch:' if c[1] else '') + c[0][-60:] for c in self.calls][:8]}}
        if bad:
            rec.update({'cls': 'violation', 'ok': False, 'why': ['C12: ' + b for b in bad], 'cex': {'function': self.fn, 'calls': names[:12]}})
        return rec

    def on_panic(self, it, e):
        return {'cls': 'panic-under-havoc', 'ok': True}


def factory(fn):
    return ObligationSpec(fn)


def public_queries():
    src = open(os.path.join(os.environ.get('VERIF_REPO', '/repo'), 'crates/ide/src/ide/mod.rs')).read()
    i = src.index('impl Analysis {')
    return re.findall(r'\n    pub fn (\w+)\(', src[i:])


def main(tier, seed):
    global W
    chk = Check('C12', tier, seed, level='other')
    jobs = int(os.environ.get('VERIF_JOBS', '16'))
    W = World(['ide'], 'dev', log=chk.log)
    fns = ['apply_change', 'request_cancellation', 'snapshot'] + public_queries()
    nviol = 0
    try:
        for fn in fns:
            res, complete = explore.explore(factory, (fn,), jobs=1)
            chk.add_run('%s (under-constrained)' % fn, res, complete, {'function': fn}, nontrivial_classes=lambda c: c in ('ok', 'cancelled'))
            for v in res.violations:
                nviol += 1
                chk.violation('obligation:' + fn, 'obligation', '%s; calls on the path: %s' % (v['why'][0], v['cex']['calls'][:6]), v['cex'], confirmed=True)
        # O4: nothing else in the crate intercepts unwinding (salsa signals cancellation by unwinding with `Cancelled`;
        # a catch_unwind in query code would turn a cancelled query into a truncated Ok answer)
        offenders = []
        for n, b in W.crates['ide'].items():
            if re.search(r'::with_db(::|$)', n):
                continue
            for bbn, (st, term) in b.blocks.items():
                if re.search(r'= (std::panic::catch_unwind|salsa::Cancelled::catch|std::panicking::r#?try)\b', term):
                    offenders.append((n, term.split(' = ', 1)[-1][:80]))
        chk.runs.append({'name': 'O4 scan: unwinding is intercepted only in Analysis::with_db', 'bounds': {'bodies_scanned': len(W.crates['ide'])}, 'paths': len(W.crates['ide']), 'solver_queries': 0,
                         'solver_s': 0.0, 'forks': 0, 'mir_steps': 0, 'wall_s': 0.0, 'classes': {'offenders': len(offenders)}, 'max_call_depth': 0, 'complete': True})
        for n, t in offenders[:5]:
            nviol += 1
            chk.violation('obligation:catch-outside-with_db', 'obligation', 'C12: O4: %s intercepts unwinding (%s): a query cancelled by a pending change would return a partial Ok answer instead of Err(Cancelled)' % (n, t),
                          {'function': n, 'calls': [t]}, confirmed=True)
        # native layer: real threads on snapshots while a change lands (executed, real timing)
        import threading
        from concurrent.futures import ThreadPoolExecutor
        from . import isok
        binary = native.build('oracle-ide')
        ps, nq = isok.pairs()
        tl = threading.local(); oracles = []

        def run(p):
            if not hasattr(tl, 'o'):
                tl.o = native.Oracle(binary); oracles.append(tl.o)
            return isok.run_pair(tl.o, p[0], p[1], threads=3 if tier == 'quick' else 6)
        nbad = ans = canc = 0; mx = 0
        rounds = 1 if tier == 'quick' else 4
        try:
            for rnd in range(rounds):
                with ThreadPoolExecutor(max_workers=4) as ex:
                    for p, (probs, a_, c_, m_) in zip(ps, ex.map(run, ps)):
                        ans += a_; canc += c_; mx = max(mx, m_)
                        if probs:
                            nbad += 1
                            if nbad <= 3:
                                chk.violation('isolation:threads', 'enumerated', probs[0][:800], {'kind': 'isolation', 'before': p[0], 'after': p[1]}, confirmed=True)
                        else:
                            chk.validated += 1
        finally:
            for o in oracles:
                o.close()
        chk.log('isolation: %d (before, after) pairs x %d delays x %d threads: %d answers equal to the pre-change answer, %d cancellations, %d pairs with another answer; slowest apply_change %d ms'
                % (len(ps) * rounds, len(isok.DELAYS), 3 if tier == 'quick' else 6, ans, canc, nbad, mx))
        if canc == 0 or ans == 0:
            chk.inconclusive.append('isolation layer: %d pre-change answers and %d cancellations observed - the change never landed while queries were running (vacuous)' % (ans, canc))
        chk.extra['isolation'] = {'pairs': len(ps) * rounds, 'delays_us': isok.DELAYS, 'pre_change_answers': ans, 'cancellations': canc, 'pairs_with_other_answers': nbad, 'max_apply_ms': mx}
    finally:
        W.cleanup()
    chk.assumptions += ['native layer (executed with real threads and real timing, not a solver verdict): for the 64 one-coordinate changes of the C11 workspace template and 8 delays between 0 and 15 ms, three (thorough: six, four rounds) snapshot threads ask every public query while the change is applied: '
                        'every observed answer is the pre-change answer or a cancellation, apply_change returns within %d ms, a snapshot taken afterwards answers like a fresh analysis' % isok.APPLY_BOUND_MS,
                        'obligation check: necessary conditions of the property, not the schedule-quantified statement; salsa\'s runtime and thread interleavings are not modelled',
                        'under-constrained execution: callees outside crates/ide/src/ide/mod.rs return unconstrained values; Cancelled::catch runs its closure or, chosen by the solver per call, returns Err(Cancelled) (O5: then the public method must return Err)',
                        'a violated obligation is a deterministic fact about the code path (reported without a native race reproduction)']
    chk.trusted += ['rustc MIR', 'mirsym interpreter (under-constrained mode)']
    expl = ('Under-constrained symbolic execution of the real MIR of AnalysisHost::{apply_change, request_cancellation, snapshot} and of all %d public Analysis queries; obligations O1-O3 asserted on every path. '
            'Necessary conditions only; interleavings are not explored.' % len(public_queries()))
    return chk.finish({'obligations': len(fns), 'discharged': len(fns) - nviol, 'native_oracle': chk.extra.get('isolation', {})}, explanation=expl)


def replay(path):
    import json
    d = json.load(open(path))
    if d.get('cex', {}).get('kind') == 'isolation':
        from . import isok
        o = native.Oracle(native.build('oracle-ide'))
        allp = []
        for _ in range(5):
            probs, a_, c_, m_ = isok.run_pair(o, d['cex']['before'], d['cex']['after'])
            allp += probs
        o.close()
        print(json.dumps({'runs': 5, 'problems': allp[:5]}, indent=1))
        return 1 if allp else 0
    print(open(path).read())
    return 0
