"""C10 — every IDE query answers on every workspace (kernel: unify + freeze terminate without panic on arbitrary, incl. cyclic, type tables)."""
import os, json
from mirsym import explore, native
from . import unifier, c09
from .runner import Check

SIGHELP = ['fn labelled(label1 arg1: Int, label2 arg2: String) { arg2 }\nfn main() { 1 |> labelled(label2: "a", label1: 2) }\n',
           'fn labelled(label1 arg1: Int, label2 arg2: String) { arg2 }\nfn main() { labelled(1, "a", label1: 2) }\n',
           'fn f(a a: Int, b b: Int, c c: Int) { a }\nfn main() { f(c: 1, b: 2, a: 3) }\n']
CYCLIC = ['fn main() { let f = fn(x) { x(x) } f(f) }\n', 'fn twice(x) { x(x) x(x) }\n', 'fn main() { let l = [l] l }\n', 'fn f(x) { [x, [x]] }\n',
          'fn g(x) { #(x, g) }\nfn h() { g(g) }\n']


def main(tier, seed):
    chk = Check('C10', tier, seed)
    jobs = int(os.environ.get('VERIF_JOBS', '16'))
    unifier.load('dev', log=chk.log)
    oracle = native.Oracle(native.build('oracle-ide'))
    try:
        found = c09.run_kernel(chk, tier, jobs, ['C10'])
        # signature help's argument reordering helper on arbitrary indices
        mfound = []
        for n in range(0, 4 if tier == 'quick' else 6):
            res, complete = explore.explore(unifier.move_factory, (n,), jobs=1)
            chk.add_run('signature_help::move_element on a %d-element vector, arbitrary usize indices' % n, res, complete, {'len': n}, nontrivial_classes=lambda c: c == 'moved')
            mfound += res.violations
        if mfound:
            crashes_sh = []
            for src in SIGHELP:
                offs = list(range(0, len(src)))
                r = oracle.ask('sighelp', json.dumps({'text': src, 'offsets': offs}))
                if 'sighelp' not in r:
                    crashes_sh.append('signature help at every offset of %r: %s' % (src, r))
            v = mfound[0]
            if crashes_sh:
                chk.violation('signature-help:move_element', 'bounded', '%s; public API: %s' % (v['why'][0][:300], crashes_sh[0][:300]), v['cex'], confirmed=True)
            else:
                chk.inconclusive.append('move_element kernel: %s - but signature help on the labelled-call corpus answers; not reported as a violation' % v['why'][0][:300])
        crashes = []
        for src in CYCLIC:
            offs = [i for i in range(0, len(src), 2)]
            r = oracle.ask('hover', json.dumps({'text': src, 'offsets': offs}))
            if 'hover' not in r:
                crashes.append('hover at every other offset of %r: %s' % (src, r))
            else:
                chk.validated += 1
        seen = set()
        for v in found:
            key = v['why'][0][:70]
            if key in seen:
                continue
            seen.add(key)
            if crashes:
                chk.violation('unifier-termination', 'bounded', '%s; public API: %s' % (v['why'][0][:400], crashes[0][:300]), v['cex'], confirmed=True)
            else:
                chk.inconclusive.append('unifier kernel: %s - but hover on the self-application corpus answers; not reported as a violation' % v['why'][0][:300])
    finally:
        oracle.close(); unifier.W.cleanup()
    chk.assumptions += [
        'kernel claim: the fourth anchored mechanism only (the placeholder that keeps occurs-free unification finite): unify / try_unify_var / Collector::collect return without panic, unbounded recursion (call depth > 400) or an emptied table slot on every table of up to %d variables whose entries (Unknown, Int, List, Tuple, Function, Result with arbitrary, also self-referential, children) are chosen by the solver' % c09.BOUNDS[tier]['tables'],
        'every other part of the property (all queries x all offsets x broken workspaces, side tables indexed by expression/pattern id, cross-module queries) needs the salsa database and is outside the claim',
        'kernel findings are reported only if hover on a corpus of self-application programs crashes as well']
    chk.trusted += ['rustc MIR', 'mirsym interpreter + models', 'z3']
    return chk.finish()


def replay(path):
    print(open(path).read())
    return 0
