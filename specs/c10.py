"""C10 — every IDE query answers on every workspace (kernel: unify + freeze terminate without panic on arbitrary, incl. cyclic, type tables)."""
import os, json
from mirsym import explore, native
from . import unifier, c09, impk
from .runner import Check

SIGHELP = ['fn labelled(label1 arg1: Int, label2 arg2: String) { arg2 }\nfn main() { 1 |> labelled(label2: "a", label1: 2) }\n',
           'fn labelled(label1 arg1: Int, label2 arg2: String) { arg2 }\nfn main() { labelled(1, "a", label1: 2) }\n',
           'fn f(a a: Int, b b: Int, c c: Int) { a }\nfn main() { f(c: 1, b: 2, a: 3) }\n']
# lowering corner cases: a sub-expression that is lowered but left outside the body tree is never typed (hover on it indexes the side table)
ODD = ['type T { T(b: Int) }\nfn main(a: T) { a.b.99999999999999999999999 }\n', 'fn main(a) { a.0.99999999999999999999999.1 }\n', 'fn main(a) { #(a, 1).18446744073709551616 }\n',
       'fn main(a) { a.b.18446744073709551615 }\n']
CYCLIC = ['fn main() { let f = fn(x) { x(x) } f(f) }\n', 'fn twice(x) { x(x) x(x) }\n', 'fn main() { let l = [l] l }\n', 'fn f(x) { [x, [x]] }\n',
          'fn g(x) { #(x, g) }\nfn h() { g(g) }\n', 'pub fn a(x) { x + 1 }\nconst a = 2\n', 'fn a(x) { x }\nfn a(y) { y }\nfn b() { a(1) }\n']


def main(tier, seed):
    chk = Check('C10', tier, seed)
    jobs = int(os.environ.get('VERIF_JOBS', '16'))
    unifier.load('dev', log=chk.log)
    oracle = native.Oracle(native.build('oracle-ide'))
    try:
        found = c09.run_kernel(chk, tier, jobs, ['C10'])
        # signature help's argument reordering helper on arbitrary indices
        mfound = []
        for n in range(0, 4 if tier == 'quick' else 6):
            res, complete = explore.explore(unifier.move_factory, (n,), jobs=1)
            chk.add_run('signature_help::move_element on a %d-element vector, arbitrary usize indices' % n, res, complete, {'len': n}, nontrivial_classes=lambda c: c == 'moved')
            mfound += res.violations
        if mfound:
            crashes_sh = []
            for src in SIGHELP:
                offs = list(range(0, len(src)))
                r = oracle.ask('sighelp', json.dumps({'text': src, 'offsets': offs}))
                if 'sighelp' not in r:
                    crashes_sh.append('signature help at every offset of %r: %s' % (src, r))
            v = mfound[0]
            if crashes_sh:
                chk.violation('signature-help:move_element', 'bounded', '%s; public API: %s' % (v['why'][0][:300], crashes_sh[0][:300]), v['cex'], confirmed=True)
            else:
                chk.inconclusive.append('move_element kernel: %s - but signature help on the labelled-call corpus answers; not reported as a violation' % v['why'][0][:300])
        # inference side tables are total; alias expansion terminates (both replayed through hover at every offset of the rendered program)
        kfound = []
        res, complete = explore.explore(unifier.case_factory, (), jobs=1)
        chk.add_run('infer_expr on `case` with 1-2 subjects and 1-3 clause patterns (counts symbolic): every pattern / expression gets a type entry', res, complete, {'subjects': '1..2', 'patterns': '1..3'},
                    nontrivial_classes=lambda c: c == 'total')
        kfound += [('inference-side-tables', v) for v in res.violations]
        for n in ((1, 2) if tier == 'quick' else (1, 2, 3)):
            res, complete = explore.explore(unifier.alias_factory, (n,), jobs=jobs if n > 2 else 1)
            chk.add_run('make_ty_from_typeref over every alias graph of %d aliases (targets symbolic)' % n, res, complete, {'aliases': n}, nontrivial_classes=lambda c: c.startswith('expanded'))
            kfound += [('alias-expansion', v) for v in res.violations]
        seen_k = set()
        for site, v in kfound:
            prog = v['cex'].get('program')
            key = (site, prog)
            if prog is None or key in seen_k:
                continue
            seen_k.add(key)
            r = oracle.ask('hover', json.dumps({'text': prog, 'offsets': list(range(len(prog)))}))
            crashed = not isinstance(r, dict) or 'hover' not in r
            if crashed:
                chk.violation(site, 'bounded', '%s; public API: hover at every offset of %r -> %s' % (v['why'][0][:400], prog, str(r)[:200]), {'program': prog}, confirmed=True)
                if 'died' in str(r):
                    oracle.close(); oracle = native.Oracle(native.build('oracle-ide'))
            else:
                chk.inconclusive.append('%s kernel: %s -- but hover answers at every offset of %r' % (site, v['why'][0][:300], prog))
        if not kfound:
            for prog in ('fn f(x) { case x { a, b -> b } }\n', 'type U = U\nfn f(u: U) { u }\n', 'type A = B\ntype B = A\nfn f(u: A) { u }\n'):
                r = oracle.ask('hover', json.dumps({'text': prog, 'offsets': list(range(len(prog)))}))
                if isinstance(r, dict) and 'hover' in r:
                    chk.validated += 1
                else:
                    chk.inconclusive.append('translator validation FAILED: the inference kernels find no problem, but hover on %r -> %s' % (prog, str(r)[:200]))
                    if 'died' in str(r):
                        oracle.close(); oracle = native.Oracle(native.build('oracle-ide'))
        crashes = []
        for src in CYCLIC:
            offs = [i for i in range(0, len(src), 2)]
            r = oracle.ask('hover', json.dumps({'text': src, 'offsets': offs}))
            if 'hover' not in r:
                crashes.append('hover at every other offset of %r: %s' % (src, r))
            else:
                chk.validated += 1
        # rendering documentation: doc_text slices every comment token after its slashes (hover, completion)
        from . import dock, syn
        syn.load('dev', log=chk.log, need_oracle=False)
        try:
            dfound = []
            for n in ((0, 1, 2, 3) if tier == 'quick' else (0, 1, 2, 3, 4, 5)):
                res, complete = explore.explore(dock.factory, (n,), jobs=1)
                chk.add_run('HasDocParts::doc_text on one comment token: kind symbolic, the slashes + %d symbolic bytes (valid UTF-8, no line break)' % n, res, complete, {'bytes_after_slashes': n},
                            nontrivial_classes=lambda c: c.startswith('kept:COMMENT'))
                dfound += res.violations
        finally:
            syn.W.cleanup()
        seen_d = set()
        for v in dfound:
            com = v['cex'].get('comment')
            if com is None or com in seen_d or len(seen_d) >= 3:
                continue
            seen_d.add(com)
            doc = '///' + com.lstrip('/')
            prog = '%s\nconst big = 42\nfn main() { big }\n' % doc
            boff = lambda i: len(prog[:i].encode('utf-8'))          # byte offsets
            r = oracle.ask('hover', json.dumps({'text': prog, 'offsets': [boff(prog.index('big')), boff(prog.rindex('big'))]}))
            if not isinstance(r, dict) or 'hover' not in r:
                chk.violation('doc-text', 'bounded', '%s; public API: hover on a constant documented with %r -> %s' % (v['why'][0][:300], doc, str(r)[:200]), {'program': prog}, confirmed=True)
                if 'died' in str(r):
                    oracle.close(); oracle = native.Oracle(native.build('oracle-ide'))
            else:
                chk.inconclusive.append('doc_text kernel: %s -- but hover on a constant documented with %r answers' % (v['why'][0][:300], doc))
        if not dfound:
            prog = '/// \u00a0doc \u3000é\nconst big = 42\nfn main() { big }\n'
            boff = lambda i: len(prog[:i].encode('utf-8'))
            r = oracle.ask('hover', json.dumps({'text': prog, 'offsets': [boff(prog.index('big')), boff(prog.rindex('big'))]}))
            if isinstance(r, dict) and 'hover' in r and all(h for h in r['hover']):
                chk.validated += 1
            else:
                chk.inconclusive.append('translator validation FAILED: the doc_text kernel finds no problem, but hover on %r -> %s' % (prog, str(r)[:200]))
        for src in ODD:
            r = oracle.ask('hover', json.dumps({'text': src, 'offsets': list(range(len(src) + 1))}))
            if not isinstance(r, dict) or 'hover' not in r:
                chk.violation('lowering:tuple-index', 'corpus', 'hover at every offset of %r: %s' % (src, str(r)[:300]), {'program': src}, confirmed=True)
                if 'died' in str(r):
                    oracle.close(); oracle = native.Oracle(native.build('oracle-ide'))
            else:
                chk.validated += 1
        # import structures (self-referential / cyclic imports are named by the property): z3 enumerates them, the public API must answer everywhere
        import threading
        from concurrent.futures import ThreadPoolExecutor
        binary = native.build('oracle-ide')
        tl = threading.local(); pool_oracles = []

        def probe(ws):
            if not hasattr(tl, 'o'):
                tl.o = native.Oracle(binary); pool_oracles.append(tl.o)
            return impk.probe(tl.o, ws)
        plan = [(2, None, False)] + ([(3, 2500, True)] if tier == 'quick' else [(3, None, False)])
        nst = nans = nbadws = 0
        try:
            for n, limit, need_cycle in plan:
                st, nq = impk.all_structures(n, limit=limit, seed=seed + 1 if limit else 0, need_cycle=need_cycle)
                with ThreadPoolExecutor(max_workers=jobs) as ex:
                    for mode, (bad, na) in zip(st, ex.map(probe, [impk.render(n, m) for m in st])):
                        nst += 1; nans += na
                        if bad:
                            nbadws += 1
                            if nbadws <= 3:
                                chk.violation('imports:panic', 'enumerated', 'import structure %s over %d modules (0 none, 1 qualified, 2 unqualified function, 3 unqualified type + constructor; [i][i] = a module importing itself): %d answers panic, e.g. %s'
                                              % (mode, n, len(bad), bad[:4]), {'kind': 'imports', 'n': n, 'mode': mode}, confirmed=True)
                        else:
                            chk.validated += 1
                chk.log('%d import structures over %d modules (%s): %d answers, %d structures with a panicking answer so far' % (len(st), n, 'all' if limit is None else 'z3 models with a cycle, seeded', nans, nbadws))
            # single-token damage of well-formed template programs (syntactically broken / ill-typed workspaces)
            from . import brokk
            djobs = []
            for label, ws, idx in brokk.workspaces():
                for key, text in brokk.variants(ws['files'][idx]['text']):
                    djobs.append((label, ws, idx, key, text))
            ndam = ndbad = 0

            def dprobe(job):
                if not hasattr(tl, 'o'):
                    tl.o = native.Oracle(binary); pool_oracles.append(tl.o)
                return brokk.probe(tl.o, job[1], job[2], job[4])
            with ThreadPoolExecutor(max_workers=jobs) as ex:
                for job, (bad, na) in zip(djobs, ex.map(dprobe, djobs)):
                    ndam += 1; nans += na
                    if bad:
                        ndbad += 1
                        if ndbad <= 3:
                            s_, e_, rep = job[3]
                            chk.violation('broken-program:panic', 'enumerated', '%s with the token at %d..%d replaced by %r: the answers %s panic; text %r' % (job[0], s_, e_, rep, bad[:4], job[4][:300]),
                                          {'kind': 'damage', 'label': job[0], 'file_index': job[2], 'text': job[4]}, confirmed=True)
                    else:
                        chk.validated += 1
            chk.log('%d single-token damages of the template programs: %d with a panicking answer' % (ndam, ndbad))
        finally:
            for o in pool_oracles:
                o.close()
        chk.extra['imports'] = {'structures': nst, 'answers': nans, 'structures_with_panic': nbadws, 'damaged_programs': ndam, 'damaged_programs_with_panic': ndbad}
        seen = set()
        for v in found:
            key = v['why'][0][:70]
            if key in seen:
                continue
            seen.add(key)
            prog = (v.get('cex') or {}).get('program')
            if prog:
                r = oracle.ask('hover', json.dumps({'text': prog, 'offsets': list(range(len(prog)))}))
                if not isinstance(r, dict) or 'hover' not in r:
                    chk.violation('inference-side-tables', 'bounded', '%s; public API: hover at every offset of %r -> %s' % (v['why'][0][:400], prog, str(r)[:200]), {'program': prog}, confirmed=True)
                    if 'died' in str(r):
                        oracle.close(); oracle = native.Oracle(native.build('oracle-ide'))
                else:
                    chk.inconclusive.append('inference kernel: %s -- but hover answers at every offset of %r' % (v['why'][0][:300], prog))
                continue
            if crashes:
                chk.violation('unifier-termination', 'bounded', '%s; public API: %s' % (v['why'][0][:400], crashes[0][:300]), v['cex'], confirmed=True)
            else:
                chk.inconclusive.append('unifier kernel: %s - but hover on the self-application corpus answers; not reported as a violation' % v['why'][0][:300])
    finally:
        oracle.close(); unifier.W.cleanup()
    chk.assumptions += [
        'kernel claim: the fourth anchored mechanism only (the placeholder that keeps occurs-free unification finite): unify / try_unify_var / Collector::collect return without panic, unbounded recursion (call depth > 400) or an emptied table slot on every table of up to %d variables whose entries (Unknown, Int, List, Tuple, Function, Result with arbitrary, also self-referential, children) are chosen by the solver' % c09.BOUNDS[tier]['tables'],
        'side tables: InferCtx::infer_expr on case expressions with 1-2 subjects and 1-3 clause patterns built as arena data must leave a type entry for every pattern and expression (InferenceResult indexes these maps); alias expansion: make_ty_from_typeref over every alias graph of <= 2 (thorough 3) aliases must return (call depth <= 400)',
        'documentation kernel: syntax::ast::HasDocParts::doc_text (the per-token closure, real MIR) on a comment token whose kind is symbolic and whose text is its slashes + <= 3 (thorough 5) symbolic bytes of valid UTF-8 without a line break: no panic, nothing but the bytes after the slashes is kept; findings replayed by hover on a documented constant',
        'native layer (executed): every single-token damage (token deleted, doubled, or replaced by one of 7 hostile spellings) of 15 module texts of the template workspaces, analysed inside its workspace: every public query at every identifier answers without panic',
        'native layer (executed, not a solver verdict): every import structure over 2 modules (4 modes per ordered pair, a module importing itself included: 256) and z3-chosen (quick: 2500 with a cycle) / all 262144 (thorough) structures over 3 modules; '
        'go-to-definition, references, highlight, hover, completion, prepare-rename at every identifier, diagnostics and semantic highlighting per file must answer without panic; plus hover at every offset of a corpus of lowering corner cases (tuple indices that do not fit usize)',
        'every other part of the property (all queries x all offsets x arbitrary broken workspaces) needs the salsa database and is outside the solver-decided claim',
        'kernel findings are reported only if hover on a corpus of self-application programs crashes as well']
    chk.trusted += ['rustc MIR', 'mirsym interpreter + models', 'z3']
    return chk.finish({'native_oracle': chk.extra.get('imports', {})})


def replay(path):
    d = json.load(open(path))
    if d.get('cex', {}).get('kind') == 'damage':
        from . import brokk
        c = d['cex']
        ws = next(w for l, w, i in brokk.workspaces() if l == c['label'])
        oracle = native.Oracle(native.build('oracle-ide'))
        bad, na = brokk.probe(oracle, ws, c['file_index'], c['text'])
        oracle.close()
        print(json.dumps({'panicking_answers': bad[:20], 'answers': na}))
        return 1 if bad else 0
    if d.get('cex', {}).get('kind') == 'imports':
        oracle = native.Oracle(native.build('oracle-ide'))
        bad, na = impk.probe(oracle, impk.render(d['cex']['n'], d['cex']['mode']))
        oracle.close()
        print(json.dumps({'panicking_answers': bad[:20], 'answers': na}))
        return 1 if bad else 0
    prog = d.get('cex', {}).get('program')
    if prog:
        oracle = native.Oracle(native.build('oracle-ide'))
        print(json.dumps(oracle.ask('hover', json.dumps({'text': prog, 'offsets': list(range(len(prog)))})))[:2000])
        return 0
    print(open(path).read())
    return 0
