"""C10 — every IDE query answers on every workspace (kernel: unify + freeze terminate without panic on arbitrary, incl. cyclic, type tables)."""
import os, json
from mirsym import explore, native
from . import unifier, c09
from .runner import Check

SIGHELP = ['fn labelled(label1 arg1: Int, label2 arg2: String) { arg2 }\nfn main() { 1 |> labelled(label2: "a", label1: 2) }\n',
           'fn labelled(label1 arg1: Int, label2 arg2: String) { arg2 }\nfn main() { labelled(1, "a", label1: 2) }\n',
           'fn f(a a: Int, b b: Int, c c: Int) { a }\nfn main() { f(c: 1, b: 2, a: 3) }\n']
CYCLIC = ['fn main() { let f = fn(x) { x(x) } f(f) }\n', 'fn twice(x) { x(x) x(x) }\n', 'fn main() { let l = [l] l }\n', 'fn f(x) { [x, [x]] }\n',
          'fn g(x) { #(x, g) }\nfn h() { g(g) }\n', 'pub fn a(x) { x + 1 }\nconst a = 2\n', 'fn a(x) { x }\nfn a(y) { y }\nfn b() { a(1) }\n']


def main(tier, seed):
    chk = Check('C10', tier, seed)
    jobs = int(os.environ.get('VERIF_JOBS', '16'))
    unifier.load('dev', log=chk.log)
    oracle = native.Oracle(native.build('oracle-ide'))
    try:
        found = c09.run_kernel(chk, tier, jobs, ['C10'])
        # signature help's argument reordering helper on arbitrary indices
        mfound = []
        for n in range(0, 4 if tier == 'quick' else 6):
            res, complete = explore.explore(unifier.move_factory, (n,), jobs=1)
            chk.add_run('signature_help::move_element on a %d-element vector, arbitrary usize indices' % n, res, complete, {'len': n}, nontrivial_classes=lambda c: c == 'moved')
            mfound += res.violations
        if mfound:
            crashes_sh = []
            for src in SIGHELP:
                offs = list(range(0, len(src)))
                r = oracle.ask('sighelp', json.dumps({'text': src, 'offsets': offs}))
                if 'sighelp' not in r:
                    crashes_sh.append('signature help at every offset of %r: %s' % (src, r))
            v = mfound[0]
            if crashes_sh:
                chk.violation('signature-help:move_element', 'bounded', '%s; public API: %s' % (v['why'][0][:300], crashes_sh[0][:300]), v['cex'], confirmed=True)
            else:
                chk.inconclusive.append('move_element kernel: %s - but signature help on the labelled-call corpus answers; not reported as a violation' % v['why'][0][:300])
        # inference side tables are total; alias expansion terminates (both replayed through hover at every offset of the rendered program)
        kfound = []
        res, complete = explore.explore(unifier.case_factory, (), jobs=1)
        chk.add_run('infer_expr on `case` with 1-2 subjects and 1-3 clause patterns (counts symbolic): every pattern / expression gets a type entry', res, complete, {'subjects': '1..2', 'patterns': '1..3'},
                    nontrivial_classes=lambda c: c == 'total')
        kfound += [('inference-side-tables', v) for v in res.violations]
        for n in ((1, 2) if tier == 'quick' else (1, 2, 3)):
            res, complete = explore.explore(unifier.alias_factory, (n,), jobs=jobs if n > 2 else 1)
            chk.add_run('make_ty_from_typeref over every alias graph of %d aliases (targets symbolic)' % n, res, complete, {'aliases': n}, nontrivial_classes=lambda c: c.startswith('expanded'))
            kfound += [('alias-expansion', v) for v in res.violations]
        seen_k = set()
        for site, v in kfound:
            prog = v['cex'].get('program')
            key = (site, prog)
            if prog is None or key in seen_k:
                continue
            seen_k.add(key)
            r = oracle.ask('hover', json.dumps({'text': prog, 'offsets': list(range(len(prog)))}))
            crashed = not isinstance(r, dict) or 'hover' not in r
            if crashed:
                chk.violation(site, 'bounded', '%s; public API: hover at every offset of %r -> %s' % (v['why'][0][:400], prog, str(r)[:200]), {'program': prog}, confirmed=True)
                if 'died' in str(r):
                    oracle.close(); oracle = native.Oracle(native.build('oracle-ide'))
            else:
                chk.inconclusive.append('%s kernel: %s -- but hover answers at every offset of %r' % (site, v['why'][0][:300], prog))
        if not kfound:
            for prog in ('fn f(x) { case x { a, b -> b } }\n', 'type U = U\nfn f(u: U) { u }\n', 'type A = B\ntype B = A\nfn f(u: A) { u }\n'):
                r = oracle.ask('hover', json.dumps({'text': prog, 'offsets': list(range(len(prog)))}))
                if isinstance(r, dict) and 'hover' in r:
                    chk.validated += 1
                else:
                    chk.inconclusive.append('translator validation FAILED: the inference kernels find no problem, but hover on %r -> %s' % (prog, str(r)[:200]))
                    if 'died' in str(r):
                        oracle.close(); oracle = native.Oracle(native.build('oracle-ide'))
        crashes = []
        for src in CYCLIC:
            offs = [i for i in range(0, len(src), 2)]
            r = oracle.ask('hover', json.dumps({'text': src, 'offsets': offs}))
            if 'hover' not in r:
                crashes.append('hover at every other offset of %r: %s' % (src, r))
            else:
                chk.validated += 1
        seen = set()
        for v in found:
            key = v['why'][0][:70]
            if key in seen:
                continue
            seen.add(key)
            if crashes:
                chk.violation('unifier-termination', 'bounded', '%s; public API: %s' % (v['why'][0][:400], crashes[0][:300]), v['cex'], confirmed=True)
            else:
                chk.inconclusive.append('unifier kernel: %s - but hover on the self-application corpus answers; not reported as a violation' % v['why'][0][:300])
    finally:
        oracle.close(); unifier.W.cleanup()
    chk.assumptions += [
        'kernel claim: the fourth anchored mechanism only (the placeholder that keeps occurs-free unification finite): unify / try_unify_var / Collector::collect return without panic, unbounded recursion (call depth > 400) or an emptied table slot on every table of up to %d variables whose entries (Unknown, Int, List, Tuple, Function, Result with arbitrary, also self-referential, children) are chosen by the solver' % c09.BOUNDS[tier]['tables'],
        'side tables: InferCtx::infer_expr on case expressions with 1-2 subjects and 1-3 clause patterns built as arena data must leave a type entry for every pattern and expression (InferenceResult indexes these maps); alias expansion: make_ty_from_typeref over every alias graph of <= 2 (thorough 3) aliases must return (call depth <= 400)',
        'every other part of the property (all queries x all offsets x broken workspaces, cyclic imports (salsa cycle handling), cross-module queries) needs the salsa database and is outside the claim',
        'kernel findings are reported only if hover on a corpus of self-application programs crashes as well']
    chk.trusted += ['rustc MIR', 'mirsym interpreter + models', 'z3']
    return chk.finish()


def replay(path):
    d = json.load(open(path))
    prog = d.get('cex', {}).get('program')
    if prog:
        oracle = native.Oracle(native.build('oracle-ide'))
        print(json.dumps(oracle.ask('hover', json.dumps({'text': prog, 'offsets': list(range(len(prog)))})))[:2000])
        return 0
    print(open(path).read())
    return 0
