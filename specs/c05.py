"""C05 — go-to-definition follows Gleam's scoping rules (kernel: expression-scope construction + lookup)."""
import os, json
import z3
from mirsym import explore, native
from . import scopes
from .runner import Check

BOUNDS = {'quick': {'pool': [2, 3]}, 'thorough': {'pool': [2, 3, 4]}}


def native_resolution(oracle, template, assign):
    """public API: goto_definition from every identifier use of the rendered program -> binder pattern id or None"""
    text, binders, uses = scopes.render_program(template, assign)
    r = oracle.ask('goto', json.dumps({'text': text, 'offsets': uses}))
    if 'goto' not in r:
        return text, None, r
    inv = {off: pid for pid, off in binders.items()}
    res = []
    for t in r['goto']:
        if not t:
            res.append(None)
        else:
            hit = inv.get(t[0][1])
            if hit is None and len(t[0]) > 2:
                # the navigation target of a spread binder `..rest` is the whole spread pattern: it CONTAINS the binder's name
                inside = [pid for off, pid in inv.items() if t[0][1] <= off < t[0][2]]
                hit = inside[0] if len(inside) == 1 else None
            res.append(hit if hit is not None else ('other', t[0][1]))
    return text, res, r


def main(tier, seed):
    chk = Check('C05', tier, seed)
    jobs = int(os.environ.get('VERIF_JOBS', '16'))
    scopes.load('dev', log=chk.log)
    oracle = native.Oracle(native.build('oracle-ide'))
    try:
        for pool in BOUNDS[tier]['pool']:
            for t in scopes.TEMPLATES:
                # skip templates whose distinct-name constraints cannot be met by this pool
                it0 = scopes.W.interp('ide'); b0 = scopes.build(it0, t, pool)[0]
                s = z3.Solver(); s.add(b0.constraints())
                if s.check() != z3.sat:
                    continue
                res, complete = explore.explore(scopes.scope_factory, (t, pool), jobs=jobs)
                name = 'template %s, names from a pool of %d' % (t, pool)
                chk.add_run(name, res, complete, {'template': t, 'name_pool': pool, 'identifiers': len(b0.names)}, nontrivial_classes=lambda c: c.startswith('resolved') and not c.startswith('resolved:0'))
                seen = set()
                for v in res.violations:
                    key = v['why'][0][:60]
                    if key in seen:
                        continue
                    seen.add(key)
                    assign = v['cex']['names']
                    text, nres, raw = native_resolution(oracle, t, assign)
                    # what do Gleam's rules say?  evaluate the reference concretely
                    exp = reference(t, pool, assign)
                    if nres is None:
                        chk.violation('scopes:' + t, 'bounded', '%s: %s; program %r: native %s' % (name, v['why'][0][:300], text, raw), {'template': t, 'names': assign, 'text': text}, confirmed=True)
                    elif nres != exp:
                        chk.violation('scopes:' + t, 'bounded', '%s: %s; program %r: go-to-definition from the identifiers lands on binders %s, Gleam binds them to %s' % (name, v['why'][0][:300], text, nres, exp),
                                      {'template': t, 'names': assign, 'text': text}, confirmed=True)
                    else:
                        chk.violation('engine', 'bounded', '%s: %s; program %r resolves correctly through the public API' % (name, v['why'][0][:300], text), {'template': t, 'names': assign}, confirmed=False)
                # translator validation: sampled paths through the public API (goto_definition)
                okc = 0; tot = 0
                for cls, ss in list(res.samples.items())[:(40 if t in ('let-discard',) else 6)]:
                    for smp in ss[:1]:
                        text, nres, raw = native_resolution(oracle, t, smp['names'])
                        eng = [a for _, a in smp['resolution(expr,pattern)']]
                        tot += 1
                        exp = reference(t, pool, smp['names'])
                        if nres == eng:
                            okc += 1
                        elif eng == exp and nres != exp:
                            # the kernel agrees with Gleam's rules, the public API does not: a defect outside the kernel (lowering, classification),
                            # shown natively on a program rendered from a solver model of an explored path
                            chk.violation('goto:' + t, 'sampled', '%s: program %r (a solver model of an explored path): go-to-definition from the identifiers lands on binders %s, Gleam binds them to %s '
                                          '(the scope kernel itself resolves them correctly: the defect is in lowering / classification)' % (name, text, nres, exp), {'template': t, 'names': smp['names'], 'text': text}, confirmed=True)
                        else:
                            chk.inconclusive.append('translator validation FAILED: %r engine %s public API %s' % (text, eng, nres))
                chk.validated += okc
                chk.log('%s: %d/%d sampled paths agree with goto_definition on the rendered program' % (name, okc, tot))
        # module-level name spaces (imports, aliases, value vs type namespace)
        from . import modscope
        modscope.W = scopes.W
        modscope.part_c05(chk, tier, jobs, oracle)
        modscope.part_c05_types(chk, tier, jobs, oracle)
        # `q.l`: record access on a local wins over the import qualifier q, and the side tables go-to-definition reads say so
        from . import fieldk, unifier
        unifier.W = scopes.W
        res, complete = explore.explore(fieldk.factory, (), jobs=1)
        chk.add_run('infer_function on fn(q) { q.l }: annotation of q, presence of the field, of an import qualifier q and of a module member l symbolic; field_resolution / module_resolution vs record-first rule',
                    res, complete, {'configurations': 24}, nontrivial_classes=lambda c: c in ('record', 'module', 'neither'))
        probes = fieldk.native_probes(oracle)
        failing = [p for p in probes if not p[1]]
        mine = [v for v in res.violations if any(w.startswith('C05') for w in v['why'])]
        if mine:
            why = '; '.join(sorted({w for v in mine for w in v['why'] if w.startswith('C05')}))[:600]
            if failing:
                chk.violation('field-access:shadowing', 'bounded', '%s; public API: %s: %s' % (why, failing[0][0], failing[0][2]), {'probe': failing[0][0], 'configuration': mine[0]['cex']}, confirmed=True)
            else:
                chk.inconclusive.append('field-access kernel: %s -- but go-to-definition on the %d probes lands where it should' % (why, len(probes)))
        elif failing:
            chk.violation('field-access:shadowing', 'probe', 'go-to-definition, %s: %s' % (failing[0][0], failing[0][2]), {'probe': failing[0][0]}, confirmed=True)
        else:
            chk.validated += len(probes)
        # frame condition on InferCtx::resolver: a method that swaps in the resolver of another module puts the caller's back on every path
        from . import resframe
        methods = resframe.swapping_methods()
        if not methods:
            chk.inconclusive.append('resolver frame kernel: no InferCtx method that swaps the resolver was found in the MIR (the scan is out of date)')
        fviol = []
        for m in methods:
            res, complete = explore.explore(resframe.factory, (m,), jobs=1)
            chk.add_run('InferCtx::%s under-constrained: self.resolver on return is the value on entry (every path)' % m.rsplit('::', 1)[1], res, complete, {'callees': 'havoc (closures real)'},
                        nontrivial_classes=lambda c: c == 'swapped-and-restored')
            fviol += res.violations
        probes = resframe.native_probes(oracle)
        failing = [p for p in probes if not p[1]]
        if fviol:
            why = '; '.join(sorted({w for v in fviol for w in v['why']}))[:700]
            if failing:
                chk.violation('resolver-frame', 'bounded', '%s; public API: %s: %s' % (why, failing[0][0], failing[0][2]), {'probe': failing[0][0], 'method': fviol[0]['cex']}, confirmed=True)
            else:
                chk.inconclusive.append('resolver frame kernel: %s -- but go-to-definition on the %d probes lands where it should' % (why, len(probes)))
        elif failing:
            chk.violation('resolver-frame', 'probe', 'go-to-definition, %s: %s' % (failing[0][0], failing[0][2]), {'probe': failing[0][0]}, confirmed=True)
        else:
            chk.validated += len(probes)
    finally:
        oracle.close(); scopes.W.cleanup()
    chk.assumptions += [
        'resolver frame kernel: every InferCtx method whose MIR writes the resolver field (found by scanning the MIR of the current tree) is executed with every callee havoc\'d (its closures real, a recursive call havoc\'d); '
        'on every returning path the resolver field must hold the value it held on entry. Replay: go-to-definition on `m.g()` after 9 constructs that make inference visit another module which binds the qualifier m to a different module',
        'field-access kernel: InferCtx::infer_function (real MIR) on fn(q [: Rec | : Int]) { q.l } built as arena data; the solver chooses the annotation, whether Rec has the field l, whether an import qualifier q exists and whether that module exports l; '
        'resolver / Adt / Field accessors are stubs answering from that configuration. Rule asserted (the one the repository\'s tests encode): record access first - then no module_resolution entry for the base, which go-to-definition consults before the scope resolver -, module access as the fallback',
        'qualified type names: def::semantics::classify_type_name under-constrained: an answer taken from the current module\'s own type scope requires that a step of the qualified lookup returned None on that path; probed through goto_definition on `shapes.Wobble` next to a local `type Wobble`',
        'module-scope kernel: def::scope::module_scope_with_map_query on its real MIR with the database havoc\'d, one module import (alias symbolic) and one unqualified import whose resolution yields a symbolic (type-import flag, definition kind) pair; that resolve_import finds the exporting module\'s public declarations is assumed (probed through goto_definition on a three-module workspace)',
        'kernel claim: the first two anchored mechanisms (expression-scope construction and innermost-first lookup) on function bodies built directly as arena data from %d templates '
        '(let chains, nested blocks, case clauses with tuple/list/spread/as/alternative/constructor/concat patterns, lambdas, use, calls, pipes, functions without parameters); every identifier is symbolic over a small pool' % len(scopes.TEMPLATES),
        'Gleam rejects duplicate names inside one pattern / parameter list: such assignments are excluded',
        'syntax -> Body lowering, the declarations a module exports, classification and navigation targets need rowan trees and the salsa database and are outside the claim '
        '(they are exercised only by the native replay / translator validation through ide::Analysis::goto_definition)']
    chk.trusted += ['rustc MIR', 'mirsym interpreter + la_arena / SmolStr / Arc models', 'z3', 'reference scoping rules in specs/scopes.py Builder (visible binders, innermost first)']
    return chk.finish()


def reference(template, pool, assign):
    """binder pattern id Gleam binds each use to, for concrete names"""
    it0 = scopes.W.interp('ide'); b = scopes.build(it0, template, pool)[0]
    val = {id(n): assign[i] for i, n in enumerate(b.names)}
    out = []
    for (eid, nm, visible) in b.uses:
        hit = None
        for p in visible:
            if val[id(b.binders[p])] == val[id(nm)]:
                hit = p; break
        out.append(hit)
    return out


def replay(path):
    d = json.load(open(path))
    oracle = native.Oracle(native.build('oracle-ide'))
    scopes.load('dev', log=lambda m: None)
    print(native_resolution(oracle, d['cex']['template'], d['cex']['names']))
    return 0
