"""Kernels of C17 (project layout): pure path / graph computations the layout rules rest on, on their real MIR.

(a) glas Server::lower_vfs  - "each file belongs to the innermost package root containing it": two package roots and one or two file paths
    whose components are symbolic; z3 decides, per path, that the file sits in the file set of the longest root that is a component-wise
    prefix of it, in no other, and in none if no root is a prefix.
(b) ide::module_name        - "<pkg>/src/a/b.gleam or <pkg>/test/a/b.gleam is importable as a/b": root, directory names and the file
    name are symbolic bytes; for Gleam module file names the result is the '/'-joined path below the first directory without the
    extension, for other extensions None; never a panic on UTF-8 names.
(c) ide Package::visible_modules / dependencies - "own package + packages it directly depends on and nothing else": three packages with
    symbolic dependency edges, database accessors answered from that small graph.
std::path is modelled over component lists (mirsym/models.py); the model is validated on every run against the native ide::module_name
and (for a, c) against the real server on an on-disk workspace."""
import re, json, os
import z3
from mirsym.world import World
from mirsym.values import *
from mirsym import models
from . import scopes

W = None          # World(['glas', 'ide'])


def sym_name(tag, n, lo=0x61, hi=0x63):
    bs = [z3.BitVec('%s_%d' % (tag, i), 8) for i in range(n)]
    return bs, [z3.And(z3.UGE(b, lo), z3.ULE(b, hi)) for b in bs]


def iv(bs):
    return [IntV(b, 8, 0) for b in bs]


def cbytes(s):
    return [IntV(x, 8, 0) for x in s.encode()]


def fid(i):
    return Agg('struct', 'FileId', None, [IntV(i, 32, 0)])


# ------------------------------------------------------------------------------------------------ (a) lower_vfs

class LowerVfsSpec:
    def __init__(self, l1, l2, lf, nfiles=1):
        self.l = (l1, l2); self.lf = lf; self.nfiles = nfiles

    def make_interp(self):
        it = W.interp('glas')
        scopes.install(it)
        self.roots = []; self.files = []
        for r, n in enumerate(self.l):
            comps = []
            for j in range(n):
                bs, cs = sym_name('r%d_%d' % (r, j), 1); it.solver.add(cs); comps.append(bs)
            self.roots.append(comps)
        for f in range(self.nfiles):
            comps = []
            for j in range(self.lf):
                bs, cs = sym_name('f%d_%d' % (f, j), 1); it.solver.add(cs); comps.append(bs)
            self.files.append(comps)
        # the package roots are distinct (IndexSet)
        if self.l[0] == self.l[1]:
            it.solver.add(z3.Or([a[0] != b[0] for a, b in zip(self.roots[0], self.roots[1])]))
        spec = self
        base_into = it.trait_models.get(('IntoIterator', 'into_iter'))

        def into_iter(it_, c, a):
            v = models.deref(a[0])
            if isinstance(v, MapV) and re.match(r'^<&?(mut )?[\w:]*(IndexSet|HashSet|BTreeSet)<', c):
                return PyIter(iter([RefV([k], 0) for k, _ in list(v.kv)]))
            return base_into(it_, c, a)
        it.trait_models[('IntoIterator', 'into_iter')] = into_iter

        def vfs_iter(it_, c, a):
            return PyIter(iter([tup(fid(10 + i), RefV([Agg('enum', 'VfsPath', 'Path', [PathV(['ROOT'] + [iv(x) for x in comps])])], 0)) for i, comps in enumerate(spec.files)]))
        it.models['Vfs::iter'] = vfs_iter

        def entry(it_, c, a):
            mp = models.deref(a[0]); key = a[1]
            j = models._map_find(it_, mp, key)
            return Agg('enum', 'Entry', 'Vacant' if j is None else 'Occupied', [tup(RefV([mp], 0), key if j is None else IntV(j, 64, 0))])

        def or_insert_with(it_, c, a):
            e = a[0]; mp = models.deref(e.fields[0].fields[0])
            if e.variant == 'Vacant':
                mp.kv.append((e.fields[0].fields[1], it_.call_closure(a[1], [])))
                j = len(mp.kv) - 1
            else:
                j = e.fields[0].fields[1].v
            return RefV(models._KVRef(mp, j), 1)
        it.models['HashMap::entry'] = entry
        it.models['<VfsPath as ToOwned>::to_owned'] = it.models['<VfsPath as Clone>::clone'] = lambda it_, c, a: dcopy(models.deref(a[0]))
        it.models['Entry::or_insert_with'] = or_insert_with
        return it

    def is_prefix(self, root, file):
        if len(root) > len(file):
            return z3.BoolVal(False)
        return z3.And([a[0] == b[0] for a, b in zip(root, file)]) if root else z3.BoolVal(True)

    def run_path(self, it):
        b = next(bd for n, bd in W.crates['glas'].items() if re.match(r'^server::<impl at [^>]*>::lower_vfs$', n))
        cfg = MapV()
        for comps in self.roots:
            cfg.kv.append((Agg('struct', 'PackageRoot', None, [PathV(['ROOT'] + [iv(x) for x in comps])]), UNIT))
        r = it.run_body(b, [RefV([Opaque('vfs')], 0), RefV([cfg], 0)])
        out = models.deref(r)
        # SourceRoot { file_set: FileSet { files, paths }, root_path }
        assigned = {}          # file index -> [root comps (python lists of z3 terms)]
        for sr in out.items:
            sr = models.deref(sr)
            fs, rp = models.deref(sr.fields[0]), models.deref(sr.fields[1])
            paths = models.deref(fs.fields[1])
            for k, _ in paths.kv:
                k = models.deref(k)
                assigned.setdefault(k.fields[0].v - 10, []).append(rp)
        bad = []
        must = lambda cond: it.check(z3.Not(cond))[0] != z3.sat
        m = it.get_model()
        ev = lambda comps: '/' + '/'.join(chr(m.eval(c[0], model_completion=True).as_long()) for c in comps)
        show = lambda: 'roots %s, files %s' % ([ev(r_) for r_ in self.roots], [ev(f) for f in self.files])
        for i, fcomps in enumerate(self.files):
            got = assigned.get(i, [])
            if len(got) > 1:
                bad.append('C17: a file is put into %d source roots (%s)' % (len(got), show())); continue
            pref = [self.is_prefix(r_, fcomps) for r_ in self.roots]
            if not got:
                if not must(z3.Not(z3.Or(pref))):
                    bad.append('C17: a file below a package root is assigned to no source root (%s)' % show())
                continue
            rp = got[0]
            rc = [x for x in rp.comps if x != 'ROOT']
            # which configured root is it?
            same = lambda r_: z3.And([a[0] == b.z() for a, b in zip(r_, [x[0] for x in rc])]) if len(r_) == len(rc) else z3.BoolVal(False)
            is_r = [same(r_) for r_ in self.roots]
            if not must(z3.Or(is_r)):
                bad.append('C17: a file is assigned to a root that is not a configured package root (%s)' % show()); continue
            for j, r_ in enumerate(self.roots):
                # assigned to root j  =>  j is a prefix, and no longer configured root is a prefix
                longer = [pref[k] for k, r2 in enumerate(self.roots) if len(r2) > len(r_)]
                cond = z3.Implies(is_r[j], z3.And([pref[j]] + [z3.Not(x) for x in longer]))
                if not must(cond):
                    mm = it.check(z3.Not(cond))[1]
                    e2 = lambda comps: '/' + '/'.join(chr(mm.eval(c[0], model_completion=True).as_long()) for c in comps)
                    bad.append('C17: file %s is assigned to the root %s although %s (roots %s)' % (e2(fcomps), e2(r_), 'a longer root contains it' if longer else 'that root does not contain it', [e2(x) for x in self.roots]))
                    break
        rec = {'cls': 'assigned:%s' % sorted((k, len(v)) for k, v in assigned.items()), 'ok': True, 'sample': {'roots': [ev(r_) for r_ in self.roots], 'files': [ev(f) for f in self.files], 'assigned': {str(k): len(v) for k, v in assigned.items()}}}
        if bad:
            rec.update({'cls': 'violation', 'ok': False, 'why': bad[:2], 'cex': {'roots': [ev(r_) for r_ in self.roots], 'files': [ev(f) for f in self.files]}})
        return rec

    def on_panic(self, it, e):
        return {'cls': 'panic:' + e.kind, 'ok': False, 'why': ['C17: lower_vfs panics: %s' % e], 'cex': {'panic': str(e)}}


def lower_factory(l1, l2, lf, nfiles):
    return LowerVfsSpec(l1, l2, lf, nfiles)


# ------------------------------------------------------------------------------------------------ (b) module_name

GLEAM = cbytes('.gleam')


class ModuleNameSpec:
    """root = /r ; path = /r/<top>/<d1>/../<file>   top symbolic (1 byte), dirs symbolic 1-byte names, file name = n symbolic bytes"""

    def __init__(self, ndirs, nfile, module_file):
        self.ndirs = ndirs; self.nfile = nfile; self.module_file = module_file

    def make_interp(self):
        it = W.interp('ide')
        scopes.install(it)
        self.top, cs = sym_name('top', 1); it.solver.add(cs)
        self.dirs = []
        for j in range(self.ndirs):
            bs, cs = sym_name('d%d' % j, 1); it.solver.add(cs); self.dirs.append(bs)
        self.fname = [z3.BitVec('n%d' % i, 8) for i in range(self.nfile)]
        for b in self.fname:
            if self.module_file == 'odd':
                # robustness: dots and backslashes in the stem of a .gleam file
                it.solver.add(z3.Or(b == 0x61, b == 0x2E, b == 0x5C))
            elif self.module_file:
                # a Gleam module file: stem over [a-z0-9_], then ".gleam" (appended concretely)
                it.solver.add(z3.Or(z3.And(z3.UGE(b, 0x61), z3.ULE(b, 0x63)), b == 0x5F, b == 0x31))
            else:
                # any single-byte character that can occur in a unix file name, biased to the interesting ones
                it.solver.add(z3.Or(z3.And(z3.UGE(b, 0x61), z3.ULE(b, 0x62)), b == 0x2E, b == 0x5C, b == 0x67))
        return it

    def run_path(self, it):
        b = W.crates['ide']['base::module_name']
        root = PathV(['ROOT', cbytes('r')])
        name = iv(self.fname) + (list(GLEAM) if self.module_file else [])
        path = PathV(['ROOT', cbytes('r'), iv(self.top)] + [iv(d) for d in self.dirs] + [name])
        r = it.run_body(b, [RefV([root], 0), RefV([path], 0)])
        m = it.get_model()
        evs = lambda bs: bytes(m.eval(x, model_completion=True).as_long() for x in bs)
        shown = '/r/%s/%s' % (evs(self.top).decode(), '/'.join([evs(d).decode() for d in self.dirs] + [evs(self.fname).decode('latin1') + ('.gleam' if self.module_file else '')]))
        bad = []
        if self.module_file == 'odd':
            cls = 'odd:some' if r.variant == 'Some' else 'odd:none'
        elif self.module_file:
            if r.variant != 'Some':
                bad.append('C17: the module file %s gets no module name' % shown)
            else:
                sm = models.deref(r.fields[0])
                got = sm.fields[0] if isinstance(sm, Agg) else sm
                gb = got.b if isinstance(got, (StrSym, StringV)) else None
                want = []
                for d in self.dirs:
                    want += [d[0], z3.BitVecVal(0x2F, 8)]
                want += list(self.fname)
                if gb is None or len(gb) != len(want):
                    bad.append('C17: the module file %s is named with %s bytes, "%s" has %d' % (shown, None if gb is None else len(gb), 'a/b', len(want)))
                else:
                    rr, mm = it.check(z3.Or([g.z() != w for g, w in zip(gb, want)]))
                    if rr == z3.sat:
                        bad.append('C17: the module file %s is not importable under the path below its source directory' % shown)
            cls = 'module'
        else:
            cls = 'some' if r.variant == 'Some' else 'none'
        rec = {'cls': cls, 'ok': True, 'sample': {'path': shown, 'root': '/r', 'result': None if r.variant != 'Some' else 'some'}}
        if r.variant == 'Some':
            sm = models.deref(r.fields[0]); got = sm.fields[0] if isinstance(sm, Agg) else sm
            if isinstance(got, (StrSym, StringV)):
                rec['sample']['result'] = bytes(m.eval(x.z(), model_completion=True).as_long() for x in got.b).decode('latin1')
        if bad:
            rec.update({'cls': 'violation', 'ok': False, 'why': bad, 'cex': {'path': shown}})
        return rec

    def on_panic(self, it, e):
        m = it.get_model()
        evs = lambda bs: bytes(m.eval(x, model_completion=True).as_long() for x in bs)
        return {'cls': 'panic:' + e.kind, 'ok': False, 'why': ['C17: module_name panics on a UTF-8 path: %s' % e],
                'cex': {'path': '/r/%s/%s' % (evs(self.top).decode(), '/'.join([evs(d).decode() for d in self.dirs] + [evs(self.fname).decode('latin1') + ('.gleam' if self.module_file else '')]))}}


def name_factory(ndirs, nfile, module_file):
    return ModuleNameSpec(ndirs, nfile, module_file)


# ------------------------------------------------------------------------------------------------ (d) project root discovery

ROOT_SHAPES = {
    'module-in-src': ['p', 'src', 'a.gleam'],
    'module-in-subdir': ['p', 'src', 'sub', 'a.gleam'],
    'module-in-test': ['p', 'test', 'a.gleam'],
    'module-elsewhere': ['p', 'other', 'a.gleam'],
    'manifest': ['p', 'gleam.toml'],
    'nested-project': ['q', 'p', 'src', 'a.gleam'],
    'dependency-module': ['p', 'build', 'packages', 'd', 'src', 'a.gleam'],
    'dependency-manifest': ['p', 'build', 'packages', 'd', 'gleam.toml'],
    'dependency-in-nested': ['q', 'p', 'build', 'packages', 'd', 'src', 'm', 'a.gleam'],
}


def reference_root(comps, toml):
    """the layout rules, two-stage: innermost package root that contains the file (a module must sit below its src/ or test/), then - for a
    package under build/packages - the innermost enclosing project that is not itself under build/packages.  comps without the root marker;
    toml = set of directory depths (number of components) that hold a gleam.toml"""
    is_module = comps[-1].endswith('.gleam')
    under_packages = lambda d: d >= 3 and comps[d - 2] == 'packages' and comps[d - 3] == 'build'
    pkg = None
    for d in range(len(comps) - 1, 0, -1):            # directory = comps[:d]
        if d in toml and (not is_module or comps[d] in ('src', 'test')):
            pkg = d; break
    if pkg is None:
        return None
    if not under_packages(pkg):
        return pkg
    for d in range(pkg - 1, 0, -1):
        if d in toml and not under_packages(d):
            return d
    return None


class FindRootSpec:
    """server::find_gleam_project_parent (real MIR) on a fixed path shape; WHICH ancestor directories hold a gleam.toml is symbolic
    (Path::is_file is answered from those bits)."""

    def __init__(self, shape):
        self.shape = shape; self.comps = ROOT_SHAPES[shape]

    def make_interp(self):
        it = W.interp('glas')
        scopes.install(it)
        n = len(self.comps)
        self.bits = {d: z3.Bool('toml_at_depth_%d' % d) for d in range(1, n)}
        spec = self

        def is_file(it_, c, a):
            p_ = models._pv(a[0])
            names = []
            for x in p_.comps:
                names.append('/' if x == 'ROOT' else bytes(b.v for b in x).decode())
            if names[-1] != 'gleam.toml' or names[0] != '/':
                return BoolV(False)
            d = len(names) - 2
            if names[1:-1] != spec.comps[:d] or d not in spec.bits:
                return BoolV(d == 0 and False)
            return BoolV(it_.choose([(spec.bits[d], True), (z3.Not(spec.bits[d]), False)]))
        it.models['Path::is_file'] = is_file
        return it

    def run_path(self, it):
        b = W.crates['glas']['server::find_gleam_project_parent']
        path = PathV(['ROOT'] + [cbytes(x) for x in self.comps])
        r = it.run_body(b, [RefV([path], 0)])
        m = it.get_model()
        toml = {d for d, bit in self.bits.items() if z3.is_true(m.eval(bit, model_completion=True))}
        # bits the path never asked about are free: the reference must agree for every completion -> check both values of the free ones
        asked = set()
        got = None
        if r.variant == 'Some':
            pv = models._pv(r.fields[0])
            got = len(pv.comps) - 1
        bad = []
        free = [d for d in self.bits if it.check(self.bits[d])[0] == z3.sat and it.check(z3.Not(self.bits[d]))[0] == z3.sat]
        fixed = {d for d in self.bits if d not in free and it.check(self.bits[d])[0] == z3.sat}
        import itertools
        for combo in itertools.product([False, True], repeat=len(free)):
            ts = set(fixed) | {d for d, v in zip(free, combo) if v}
            want = reference_root(self.comps, ts)
            if want != got:
                show = lambda d: None if d is None else '/' + '/'.join(self.comps[:d])
                bad.append('C17: file /%s with gleam.toml in %s: the project root found is %s, the layout rules give %s' % ('/'.join(self.comps), [show(d) for d in sorted(ts)], show(got), show(want)))
                break
        rec = {'cls': 'root:%s' % got, 'ok': True, 'sample': {'path': '/' + '/'.join(self.comps), 'manifests_at_depths': sorted(fixed), 'root_depth': got}}
        if bad:
            rec.update({'cls': 'violation', 'ok': False, 'why': bad, 'cex': {'path': '/' + '/'.join(self.comps), 'manifest_depths': sorted(fixed)}})
        return rec

    def on_panic(self, it, e):
        return {'cls': 'panic:' + e.kind, 'ok': False, 'why': ['C17: find_gleam_project_parent panics: %s' % e], 'cex': {'path': '/' + '/'.join(self.comps)}}


def root_factory(shape):
    return FindRootSpec(shape)


# ------------------------------------------------------------------------------------------------ (c) visible modules

class VisibleSpec:
    """packages P0 (own), P1, P2 with source roots 0,1,2 and one module each (files 10,11,12); dependency edges are symbolic"""

    def make_interp(self):
        it = W.interp('ide', uc=True)
        it.allow = [r'^def::hir::<impl at [^>]*>::(visible_modules|dependencies|module_map)$', r'^def::hir::<impl at [^>]*>::(visible_modules|dependencies)::\{closure#\d+\}$',
                    r'^base::<impl at [^>]*>::\w+$', r'^base::<impl at [^>]*>::\w+::\{closure#\d+\}$']       # every ModuleMap / FileSet helper is executed, not guessed
        scopes.install(it)
        self.e = {(a, b): z3.Bool('dep_%d_%d' % (a, b)) for a in range(3) for b in range(3) if a != b}
        spec = self
        sid = lambda i: Agg('struct', 'SourceRootId', None, [IntV(i, 32, 0)])
        mmap = lambda i: Agg('struct', 'ModuleMap', None, [MapV(), MapV()])

        def source_root_package(it_, c, a):
            i = models.deref(a[1]).fields[0].v
            return some(scopes.idx(i))

        def package_graph(it_, c, a):
            infos = []
            for p in range(3):
                deps = []
                for q in range(3):
                    if p != q and it_.choose([(spec.e[(p, q)], True), (z3.Not(spec.e[(p, q)]), False)]):
                        deps.append(Agg('struct', 'Dependency', None, [scopes.idx(q)]))
                # PackageInfo { gleam_toml: FileId, dependencies, ... } -- positions read from the source below
                infos.append(spec.mk_info(p, deps))
            spec.deps = {p: [d.fields[0].v for d in infos[p].fields[spec.dep_idx].items] for p in range(3)}
            return Agg('struct', 'PackageGraph', None, [Opaque('target'), scopes.ArenaV(infos)])

        def file_source_root(it_, c, a):
            return sid(models.deref(a[1]).fields[0].v - 100)

        def module_map(it_, c, a):
            i = models.deref(a[1]).fields[0].v
            mm = Agg('struct', 'ModuleMap', None, [MapV(), MapV()])
            mm.fields[spec.mm_names].kv.append((fid(10 + i), scopes.smol(StrV('m%d' % i))))
            mm.fields[spec.mm_files].kv.append((scopes.smol(StrV('m%d' % i)), fid(10 + i)))
            return mm
        for pre in ('<DefDatabase as SourceDatabase>::', '<SourceDatabase as SourceDatabase>::', '<DefDatabase as DefDatabase>::', '<TyDatabase as SourceDatabase>::'):
            it.models[pre + 'source_root_package'] = source_root_package
            it.models[pre + 'package_graph'] = package_graph
            it.models[pre + 'file_source_root'] = file_source_root
            it.models[pre + 'module_map'] = module_map
        it.models['<PackageGraph as Index>::index'] = lambda it_, c, a: RefV(models.deref(a[0]).fields[1].items, a[1].v)
        it.models['Arc::new'] = lambda it_, c, a: a[0]
        return it

    def layout(self):
        src = open(os.path.join(os.environ.get('VERIF_REPO', '/repo'), 'crates/ide/src/base.rs'), encoding='utf-8').read()
        m = re.search(r'pub struct PackageInfo\s*\{(.*?)\n\}', src, flags=re.S)
        fields = re.findall(r'^\s*(?:pub(?:\([^)]*\))?\s+)?(\w+)\s*:', m.group(1), flags=re.M)
        self.info_fields = fields; self.dep_idx = fields.index('dependencies')
        m2 = re.search(r'pub struct ModuleMap\s*\{(.*?)\n\}', src, flags=re.S)
        f2 = re.findall(r'^\s*(?:pub(?:\([^)]*\))?\s+)?(\w+)\s*:', m2.group(1), flags=re.M)
        self.mm_names = f2.index('module_names'); self.mm_files = [i for i, x in enumerate(f2) if x != 'module_names'][0]

    def mk_info(self, p, deps):
        vals = []
        for f in self.info_fields:
            if f == 'dependencies':
                vals.append(VecV(deps))
            elif f == 'gleam_toml':
                vals.append(fid(100 + p))
            else:
                vals.append(Opaque(f))
        return Agg('struct', 'PackageInfo', None, vals)

    def run_path(self, it):
        self.layout()
        b = next(bd for n, bd in W.crates['ide'].items() if re.match(r'^def::hir::<impl at [^>]*>::visible_modules$', n))
        self.deps = None
        r = it.run_body(b, [Agg('struct', 'Package', None, [Agg('struct', 'SourceRootId', None, [IntV(0, 32, 0)])]), LazyV('db')])
        mm = models.deref(r)
        names = models.deref(mm.fields[self.mm_names])
        got = sorted(models.deref(k).fields[0].v - 10 for k, _ in names.kv)
        if self.deps is None:
            return {'cls': 'violation', 'ok': False, 'why': ['engine: the package graph was never consulted'], 'cex': {}}
        want = sorted({0} | set(self.deps[0]))
        bad = []
        if got != want:
            bad.append('C17: with dependencies %s the modules visible from package 0 are those of packages %s; own package + direct dependencies is %s' % (self.deps, got, want))
        rec = {'cls': 'visible:%s' % got, 'ok': True, 'sample': {'dependencies': {str(k): v for k, v in self.deps.items()}, 'visible_packages': got}}
        if bad:
            rec.update({'cls': 'violation', 'ok': False, 'why': bad, 'cex': {'dependencies': {str(k): v for k, v in self.deps.items()}}})
        return rec

    def on_panic(self, it, e):
        return {'cls': 'panic-under-havoc', 'ok': True}


def visible_factory():
    return VisibleSpec()
