"""C19 part (c): which tokens a (range) semantic-token request covers — ide::semantic_highlighting::highlight (kernel).

highlight() runs on its real MIR.  The syntax tree is replaced by a chain of n tokens with symbolic contiguous ranges, the tagging
closure is havoc'd (every token may or may not be an identifier to highlight), the requested range is symbolic (or absent).
Solver-decided obligations per path:  every reported range is the range of a token that starts before the (exclusive) end of the
requested range and is not before the token containing its start;  the reported ranges are strictly increasing;  a token inside the
window that the tagger tagged is reported.  Counterexamples are replayed through ide::Analysis::syntax_highlight."""
import re, json
import z3
from mirsym.world import World
from mirsym.values import *
from mirsym import models

W = None


class HlRangeSpec:
    def __init__(self, ntok, ranged):
        self.ntok = ntok; self.ranged = ranged

    def make_interp(self):
        it = W.interp('ide', uc=True)
        it.allow = [r'^ide::semantic_highlighting::highlight$', r'^ide::semantic_highlighting::highlight::\{closure#[1-9]\d*\}$']
        n = self.ntok
        self.lens = [z3.BitVec('l%d' % i, 32) for i in range(n)]
        for l in self.lens:
            it.solver.add(z3.UGE(l, 1), z3.ULE(l, 3))
        self.starts = []; acc = z3.BitVecVal(0, 32)
        for l in self.lens:
            self.starts.append(acc); acc = acc + l
        self.total = acc
        self.ends = [s + l for s, l in zip(self.starts, self.lens)]
        self.rs = z3.BitVec('rs', 32); self.re = z3.BitVec('re', 32)
        it.solver.add(z3.ULE(self.rs, self.re), z3.ULE(self.re, self.total + 2), z3.ULE(self.rs, self.total))
        tok = lambda i: Opaque(('tok', i))
        idx = lambda v: models.deref(v).tag[1]
        spec = self

        def first_token(it_, c, a):
            return some(tok(0)) if n else none()

        def token_at_offset(it_, c, a):
            return Opaque(('tao', models.tsz(a[1]).z()))

        def right_biased(it_, c, a):
            off = models.deref(a[0]).tag[1]
            if n == 0:
                return none()
            # rowan: the token whose range contains the offset; between two tokens the right one; at the very end the last one
            alts = [(z3.And(z3.ULE(spec.starts[i], off), z3.ULT(off, spec.ends[i])), i) for i in range(n)] + [(off == spec.total, n - 1)]
            i = it_.choose(alts)
            spec.first = i
            return some(tok(i))

        def next_token(it_, c, a):
            i = idx(a[0])
            return some(tok(i + 1)) if i + 1 < n else none()

        def text_range(it_, c, a):
            i = idx(a[0])
            return models.mk_range(IntV(z3.simplify(spec.starts[i]), 32, 0), IntV(z3.simplify(spec.ends[i]), 32, 0))
        # the tagging closure (closure#0: classify the token's parent) is havoc'd: any token may or may not be tagged
        it.closures = {k: b for k, b in it.closures.items() if not b.name.endswith('semantic_highlighting::highlight::{closure#0}')}
        it.models['SyntaxNode::first_token'] = first_token
        it.models['SyntaxNode::token_at_offset'] = token_at_offset
        it.models['TokenAtOffset::right_biased'] = right_biased
        it.models['SyntaxToken::next_token'] = next_token
        it.models['SyntaxToken::text_range'] = text_range
        return it

    def run_path(self, it):
        b = W.crates['ide']['ide::semantic_highlighting::highlight']
        self.first = 0
        rng = some(models.mk_range(IntV(self.rs, 32, 0), IntV(self.re, 32, 0))) if self.ranged else none()
        r = it.run_body(b, [LazyV('db'), Agg('struct', 'FileId', None, [IntV(0, 32, 0)]), rng])
        out = [models.deref(x) for x in r.items]
        # which tokens did the tagger see, and what did it answer on this path?
        tagged = {}
        for (callee, args, res, _) in it.trace:
            if callee == '<closure>' and args:
                a = models.deref(args[-1])
                if isinstance(a, Agg) and a.kind == 'tuple' and a.fields:
                    a = models.deref(a.fields[0])
                if isinstance(a, Opaque) and isinstance(a.tag, tuple) and a.tag[0] == 'tok':
                    rr1, _ = it.check(res.discriminant() == 0)       # could the answer be None on this path?
                    tagged[a.tag[1]] = (rr1 != z3.sat)
        bad = []
        got = []
        for h in out:
            rr = models.deref(h.fields[0])
            if not isinstance(rr, Agg):
                bad.append('C19: a reported range is not a token range (it is computed from something else: %r)' % (rr,)); continue
            got.append((models.tsz(rr.fields[0]).z(), models.tsz(rr.fields[1]).z()))
        ev = None
        for (s, e) in got:
            conds = [z3.Not(z3.Or([z3.And(s == a, e == b2) for a, b2 in zip(self.starts, self.ends)]))]
            if self.ranged:
                conds.append(z3.UGE(s, self.re))
                conds.append(z3.ULT(s, self.starts[self.first]))
            rr2, m = it.check(z3.Or(conds))
            if rr2 == z3.sat:
                ev = lambda t, m=m: m.eval(t, model_completion=True).as_long()
                bad.append('C19: a %s request reports the token %d..%d, outside the requested window: tokens %s, requested range %s' %
                           ('range' if self.ranged else 'full-document', ev(s), ev(e), [(ev(a), ev(b2)) for a, b2 in zip(self.starts, self.ends)], (ev(self.rs), ev(self.re)) if self.ranged else None))
                break
        for (a, b2) in zip(got, got[1:]):
            rr3, m = it.check(z3.UGE(a[0], b2[0]))
            if rr3 == z3.sat:
                bad.append('C19: reported tokens are not strictly increasing'); break
        if not bad:
            for i in range(self.ntok):
                inside = z3.BoolVal(True) if not self.ranged else z3.And(z3.ULT(self.starts[i], self.re), z3.BoolVal(i >= self.first))
                if tagged.get(i) is True:
                    present = z3.Or([s == self.starts[i] for s, _ in got]) if got else z3.BoolVal(False)
                    rr4, m = it.check(z3.And(inside, z3.Not(present)))
                    if rr4 == z3.sat:
                        ev = lambda t, m=m: m.eval(t, model_completion=True).as_long()
                        bad.append('C19: a tagged token inside the requested window (%d..%d) is not reported' % (ev(self.starts[i]), ev(self.ends[i]))); break
                elif i not in tagged:
                    rr5, m = it.check(inside) if self.ranged else (z3.sat, it.get_model())
                    if rr5 == z3.sat and (not self.ranged or True):
                        # the tagger was never asked about a token that may lie inside the window
                        rr6, _ = it.check(z3.And(inside, z3.BoolVal(True)))
                        if rr6 == z3.sat and self._must_be_inside(it, inside):
                            bad.append('C19: token #%d lies inside the requested window but was never examined' % i); break
        m = it.get_model()
        evm = lambda t: m.eval(t, model_completion=True).as_long()
        rec = {'cls': '%d-reported' % len(out), 'ok': True,
               'sample': {'tokens': [(evm(a), evm(b2)) for a, b2 in zip(self.starts, self.ends)], 'range': (evm(self.rs), evm(self.re)) if self.ranged else None, 'reported': len(out)}}
        if bad:
            rec.update({'cls': 'violation', 'ok': False, 'why': bad, 'cex': {'ntok': self.ntok, 'ranged': self.ranged}})
        return rec

    def _must_be_inside(self, it, inside):
        rr, _ = it.check(z3.Not(inside))
        return rr != z3.sat

    def on_panic(self, it, e):
        return {'cls': 'panic-under-havoc', 'ok': True}


def factory(n, ranged):
    return HlRangeSpec(n, ranged)


class TaggerSpec:
    """the tagging closure of highlight() (closure#0) under-constrained: its answer for a token must be a function of how THAT token's
    node classifies: Function <= Definition::Function or a Local whose type is a function; Constructor <= Definition::Variant or the
    name of a variant declaration; nothing else is tagged; and every such token is tagged."""

    def make_interp(self):
        it = W.interp('ide', uc=True)
        it.allow = [r'^ide::semantic_highlighting::highlight::\{closure#0\}$', r'^ide::semantic_highlighting::highlight::\{closure#0\}::\{closure#\d+\}$']
        # memo tables etc. are havoc'd: whatever they return does not derive from classifying the token
        for k in [k for k in it.models if re.match(r'^(HashMap|FxHashMap|IndexMap|BTreeMap)::(get|insert|entry|contains_key)$', k)]:
            it.models.pop(k)
        self.defs = {vn: d for vn, hf, d in W.enums['Definition']}
        self.tags = {vn: d for vn, hf, d in W.enums['HlTag']}
        self.tys = {vn: d for vn, hf, d in (W.enums.get('ty::Ty') or W.enums.get('Ty'))}
        return it

    def run_path(self, it):
        from .c08 import derives_from
        b = W.crates['ide']['ide::semantic_highlighting::highlight::{closure#0}']
        tok = LazyV('tok')
        r = it.run_body(b, [LazyV('env'), RefV([tok], 0)])
        calls = it.trace
        var, pay = models.shape(it, r, ['None', 'Some'])
        cls = [t for t in calls if t[0].endswith('classify_node') and any(derives_from(a, tok, calls) for a in t[1])]
        tys = [t for t in calls if t[0].endswith('Local::ty')]
        vcast = [t for t in calls if re.search(r'<syntax::ast::Variant as .*>::cast$', t[0]) and any(derives_from(a, tok, calls) for a in t[1])]
        ncast = [t for t in calls if re.search(r'<syntax::ast::Name as .*>::cast$', t[0])]
        nrcast = [t for t in calls if re.search(r'<syntax::ast::NameRef as .*>::cast$', t[0])]
        must = lambda cond: it.check(z3.Not(cond))[0] != z3.sat          # cond holds on every model of the path
        may = lambda cond: it.check(cond)[0] == z3.sat
        is_some = lambda res: res.discriminant() == 1
        # what the classification of THIS token says on this path
        fn_ok = False; ctor_ok = False
        if cls:
            d = cls[0][2]
            dd = d.kid(('Some', 0)).discriminant()
            classified = must(is_some(d))
            if classified and must(dd == self.defs['Function']):
                fn_ok = True
            if classified and must(dd == self.defs['Local']) and tys and must(tys[0][2].discriminant() == self.tys['Function']):
                fn_ok = True
            if classified and must(dd == self.defs['Variant']):
                ctor_ok = True
        if vcast and must(is_some(vcast[0][2])):
            ctor_ok = True
        bad = []
        if var == 'Some':
            tag = pay
            if isinstance(tag, IntV) and not tag.sym():
                tn = next((k for k, v in self.tags.items() if v == tag.v), '?')
            elif isinstance(tag, Agg):
                tn = tag.variant
            else:
                tn = None
            if tn is None:
                bad.append('C19: the tag reported for a token does not come from classifying that token (it is read from somewhere else)')
            elif tn == 'Function' and not fn_ok:
                bad.append('C19: a token is tagged as function although its node does not classify as a function or a function-typed local on that path')
            elif tn == 'Constructor' and not ctor_ok:
                bad.append('C19: a token is tagged as constructor although its node is neither a constructor reference nor the name of a variant')
            cl = 'tag:%s' % tn
        else:
            if fn_ok or ctor_ok:
                bad.append('C19: a token whose node classifies as %s is not tagged' % ('a function / function-typed local' if fn_ok else 'a constructor'))
            cl = 'untagged'
        rec = {'cls': cl, 'ok': True, 'sample': {'outcome': cl, 'classified': bool(cls)}}
        if bad:
            rec.update({'cls': 'violation', 'ok': False, 'why': bad, 'cex': {'fn': 'tagger'}})
        return rec

    def on_panic(self, it, e):
        return {'cls': 'panic-under-havoc', 'ok': True}


def tagger_factory():
    return TaggerSpec()


TAG_TEXT = ('type T { A B(i: Int) }\nfn foo(g) { g }\nfn main() {\n  let f = fn() { 1 }\n  f()\n  let f = 1\n  f\n  foo(f)\n  let h = foo\n  h(A)\n  let h = B(1)\n  h\n'
            '  case h { B(i) -> i A -> f }\n}\n')
# (line, text, tag) in document order: constructors at their declaration and every use, function references, function-typed locals
TAG_EXPECT = [(0, 'A', 'Constructor'), (0, 'B', 'Constructor'), (4, 'f', 'Function'), (7, 'foo', 'Function'), (8, 'foo', 'Function'), (9, 'h', 'Function'), (9, 'A', 'Constructor'),
              (10, 'B', 'Constructor'), (12, 'B', 'Constructor'), (12, 'A', 'Constructor')]


TAG_WS_MAIN = 'import shapes\nimport shapes.{Square}\npub fn main() {\n  let c = shapes.Circle(2)\n  let d = Square(3)\n  case c { shapes.Circle(r) -> shapes.area(c)  Square(s) -> s }\n}\n'
TAG_WS = {'files': [{'path': '/app/src/main.gleam', 'text': TAG_WS_MAIN, 'root': 0},
                    {'path': '/app/src/shapes.gleam', 'text': 'pub type Shape { Circle(Int) Square(Int) }\npub fn area(s: Shape) { 1 }\n', 'root': 0}],
          'roots': [{'path': '/app', 'local': True, 'deps': []}], 'file': 0, 'range': None}
# module-qualified constructors and functions of another module, in expressions and patterns
TAG_WS_EXPECT = [(3, 'Circle', 'Constructor'), (4, 'Square', 'Constructor'), (5, 'Circle', 'Constructor'), (5, 'area', 'Function'), (5, 'Square', 'Constructor')]


def native_tags(oracle):
    r = oracle.ask('semhl', json.dumps({'text': TAG_TEXT, 'range': None}))
    if not isinstance(r, dict) or 'semhl' not in r:
        return None, r
    got = [(TAG_TEXT[:s].count('\n'), TAG_TEXT[s:e], t) for s, e, t in r['semhl']]
    r2 = oracle.ask('semhl', json.dumps(TAG_WS))
    if not isinstance(r2, dict) or 'semhl' not in r2:
        return None, r2
    got2 = [(TAG_WS_MAIN[:s].count('\n'), TAG_WS_MAIN[s:e], t) for s, e, t in r2['semhl']]
    if got == TAG_EXPECT and got2 != TAG_WS_EXPECT:
        # reported in the vocabulary of the single-file fixture: the caller compares with TAG_EXPECT
        return [('two-module workspace %r' % TAG_WS_MAIN, 'tagged', str(got2)), ('expected', '', str(TAG_WS_EXPECT))], r2
    return got, r


TEXT = 'type T {\nA\nB\n}\nfn foo() { 1 }\nfn main() {\n  foo() // hé\n  foo()\nA\n}\n'


def native_scan(oracle):
    """every byte range [s, e) of TEXT on char boundaries through the public API: reported tokens must start in [tok(s).start, e) and
    be exactly the full-document tokens of that window"""
    full = oracle.ask('semhl', json.dumps({'text': TEXT, 'range': None}))
    if not isinstance(full, dict) or 'semhl' not in full:
        return None, 'full-document request failed: %s' % (full,)
    allh = full['semhl']
    bts = TEXT.encode('utf-8')
    bounds = [i for i in range(len(bts) + 1) if i == len(bts) or (bts[i] & 0xC0) != 0x80]
    problems = []; n = 0
    for s in bounds:
        for e in bounds:
            if e < s:
                continue
            r = oracle.ask('semhl', json.dumps({'text': TEXT, 'range': [s, e]}))
            n += 1
            if not isinstance(r, dict) or 'semhl' not in r:
                problems.append('range %d..%d: %s' % (s, e, r)); continue
            hs = r['semhl']
            exp = [h for h in allh if h[0] < e and h[1] > s] if s < e else [h for h in allh if h[0] < e and h[0] <= s < h[1]]
            extra = [h for h in hs if h[0] >= e]
            if extra:
                problems.append('range %d..%d reports %s, which starts at or after the end of the range' % (s, e, extra[0]))
            elif [h for h in hs if h not in allh]:
                problems.append('range %d..%d reports %s, not a highlight of the document' % (s, e, [h for h in hs if h not in allh][0]))
            elif [h for h in exp if h not in hs]:
                problems.append('range %d..%d misses %s' % (s, e, [h for h in exp if h not in hs][0]))
    return n, problems


def part(chk, tier, jobs):
    global W
    from mirsym import explore, native
    W = World(['ide'], 'dev', log=chk.log)
    oracle = native.Oracle(native.build('oracle-ide'))
    try:
        found = []
        for n in ((0, 1, 2, 3) if tier == 'quick' else (0, 1, 2, 3, 4)):
            for ranged in (False, True):
                res, complete = explore.explore(factory, (n, ranged), jobs=jobs if n >= 3 else 1)
                chk.add_run('highlight(): %d symbolic tokens, %s request (tagger havoc\'d)' % (n, 'symbolic range' if ranged else 'full-document'), res, complete,
                            {'tokens': n, 'token_len': '1..3', 'range': 'symbolic' if ranged else None}, nontrivial_classes=lambda c: c.endswith('-reported') and not c.startswith('0-'))
                found += res.violations
        # (d) the tagger
        res, complete = explore.explore(tagger_factory, (), jobs=1)
        chk.add_run('highlight() tagging closure over an under-constrained token', res, complete, {'callees': 'havoc'}, nontrivial_classes=lambda c: c.startswith('tag:'))
        got, raw = native_tags(oracle)
        if res.violations:
            why = '; '.join(sorted({w for v in res.violations for w in v['why']}))[:400]
            if got != TAG_EXPECT:
                chk.violation('highlight-tags', 'bounded', 'tagger: %s; public API on %r: tagged %s, Gleam\'s functions/constructors/function-typed locals are %s' % (why, TAG_TEXT, got if got is not None else raw, TAG_EXPECT),
                              {'text': TAG_TEXT}, confirmed=True)
            else:
                chk.inconclusive.append('tagger kernel: %s -- but the fixture is tagged as expected through the public API' % why)
        elif got != TAG_EXPECT:
            chk.inconclusive.append('translator validation FAILED: tagger kernel finds no problem; public API tags %s, expected %s' % (got if got is not None else raw, TAG_EXPECT))
        else:
            chk.validated += len(TAG_EXPECT)
            chk.log('tagger: the %d identifiers of a fixture (re-bound locals, function values, constructors in expressions and patterns) are tagged as expected through the public API' % len(TAG_EXPECT))
        nreq, problems = native_scan(oracle)
        if found:
            why = found[0]['why'][0]
            if problems:
                chk.violation('highlight-range', 'bounded', '%s; public API on %r: %s' % (why[:300], TEXT, problems[0]), {'text': TEXT, 'problem': problems[0]}, confirmed=True)
            else:
                chk.inconclusive.append('highlight() kernel: %s -- but all %s byte ranges of the fixture give the expected tokens through the public API' % (why[:300], nreq))
        elif problems or nreq is None:
            chk.inconclusive.append('translator validation FAILED: highlight() kernel finds no problem; public API: %s' % (problems[0] if isinstance(problems, list) else problems))
        else:
            chk.validated += nreq
            chk.log('highlight(): %d byte ranges of a fixture through ide::Analysis::syntax_highlight agree with the kernel\'s window rule' % nreq)
    finally:
        oracle.close(); W.cleanup()
