"""C05 / C09 kernel: `q.l` - record access wins over module access, and the side tables say which one it was.

InferCtx::infer_function (real MIR, full mode) on  fn(q [: Rec | : Int]) { q.l }  built as arena data.  Symbolic (solver-chosen): the
annotation of the parameter (none / a record type / Int), whether the record type has a field `l`, whether an import qualifier `q`
exists in the module (Resolver::resolve_module answers), whether that module exports a constant `l`.  Gleam's rule: a local shadows an
import qualifier of the same name, so when the local's type has the field the access is a record access; only otherwise is it looked up
as `module.member`.  Go-to-definition reads BodyCtx.module_resolution[base] BEFORE it asks the scope resolver (Semantics::resolve_nameref),
so an entry there for a base that is a record access sends `q` to the module instead of the local binder.  Asserted on every path:
  record access   -> field_resolution[access] = Field(that field), NO module_resolution entry for the base, type = the field's type
  module access   -> module_resolution[base] = that file; field_resolution[access] = the module's member when it exports one
  neither         -> no entry in either table
Environment stubs: resolver_for_expr / resolve_name / resolve_type / resolve_module / resolver_for_toplevel, Adt::{common_fields,
generic_params}, Field::ty answer from the chosen configuration; the database is opaque."""
import re
import z3
from mirsym.values import *
from mirsym import models
from . import unifier, scopes
from .unifier import mk_table, body_ctx, infer_ctx, body, entry_of, install, struct_fields
from .termk import obs_tree, show

FILE_ID = 7


class FieldSpec:
    def make_interp(self):
        it = unifier.W.interp('ide')
        install(it); scopes.install(it)
        self.ann = z3.BitVec('annotation', 8)        # 0 none, 1 Rec, 2 Int
        self.hasfield = z3.Bool('record_has_field'); self.modexists = z3.Bool('qualifier_exists'); self.modconst = z3.Bool('module_exports_member')
        it.solver.add(z3.ULT(self.ann, 3))
        spec = self
        M = it.models; TM = it.trait_models
        adt_id = Agg('struct', 'AdtId', None, [IntV(5, 32, 0)])
        field = Agg('struct', 'Field', None, [Agg('struct', 'VariantId', None, [adt_id, IntV(0, 32, 0)]), IntV(0, 32, 0)])
        self.field = field
        tref = lambda name: Agg('enum', 'def::module::TypeRef', 'Adt', [none(), scopes.smol(StrV(name)), VecV([])])
        self.tref = tref
        expr_resolver = lambda: Agg('struct', 'Resolver', None, [Opaque('expr-scopes'), Opaque('module_scope')])
        top_resolver = lambda: Agg('struct', 'Resolver', None, [Opaque('toplevel'), Opaque('module_scope')])
        self.expr_resolver = expr_resolver

        def sname(v):
            v = models.deref(v)
            v = v.fields[0] if isinstance(v, Agg) else v
            return v.s

        def is_top(r):
            r = models.deref(r)
            return isinstance(r.fields[0], Opaque) and r.fields[0].tag == 'toplevel'

        def resolve_name(it_, c, a):
            nm = sname(a[1])
            if is_top(a[0]):
                if nm == 'l' and it_.choose([(spec.modconst, True), (z3.Not(spec.modconst), False)]):
                    return some(Agg('enum', 'ResolveResult', 'ModuleConstant', [Agg('struct', 'ModuleConstant', None, [Agg('struct', 'ConstId', None, [IntV(3, 32, 0)])])]))
                return none()
            if nm == 'q':
                return some(Agg('enum', 'ResolveResult', 'Local', [Agg('struct', 'Local', None, [Opaque('fn_id'), scopes.idx(0)])]))
            return none()

        def resolve_type(it_, c, a):
            if sname(a[1]) == 'Rec' and not is_top(a[0]):
                return some(Agg('enum', 'ResolveResult', 'Adt', [Agg('struct', 'Adt', None, [adt_id])]))
            return none()

        def resolve_module(it_, c, a):
            if sname(a[1]) == 'q' and it_.choose([(spec.modexists, True), (z3.Not(spec.modexists), False)]):
                return some(Agg('struct', 'FileId', None, [IntV(FILE_ID, 32, 0)]))
            return none()

        def common_fields(it_, c, a):
            m = MapV()
            if it_.choose([(spec.hasfield, True), (z3.Not(spec.hasfield), False)]):
                m.kv.append((scopes.smol(StrV('l')), field))
            return m
        M['resolver::resolver_for_expr'] = lambda it_, c, a: expr_resolver()
        M['resolver::resolver_for_toplevel'] = lambda it_, c, a: top_resolver()
        M['Resolver::resolve_name'] = resolve_name
        M['Resolver::resolve_type'] = resolve_type
        M['Resolver::resolve_module'] = resolve_module
        M['SmolStr::as_str'] = lambda it_, c, a: models.deref(a[0]).fields[0]
        M['Adt::common_fields'] = common_fields
        M['Adt::generic_params'] = lambda it_, c, a: VecV([])
        M['Field::ty'] = lambda it_, c, a: tref('Float')
        TM[('Upcast', 'upcast')] = lambda it_, c, a: Opaque('db')
        return it

    def run_path(self, it):
        ann = it.choose([(self.ann == i, i) for i in range(3)])
        E = lambda variant, fields: Agg('enum', 'def::module::Expr', variant, fields)
        P = lambda variant, fields: Agg('enum', 'def::module::Pattern', variant, fields)
        pats = [P('Variable', [scopes.smol(StrV('q'))])]
        exprs = [E('Variable', [scopes.smol(StrV('q'))]), E('Missing', []),
                 E('FieldAccess', [scopes.smol(StrV('q')), scopes.idx(0), scopes.idx(1), scopes.smol(StrV('l'))])]
        exprs.append(E('Block', [VecV([Agg('enum', 'def::module::Statement', 'Expr', [scopes.idx(2)])])]))
        anno = none() if ann == 0 else some(self.tref('Rec' if ann == 1 else 'Int'))
        bodyv = Agg('struct', 'Body', None, [scopes.ArenaV(pats), scopes.ArenaV(exprs), VecV([tup(scopes.idx(0), anno, none())]), none(), scopes.idx(3)])
        cell = [mk_table([])]
        bctx, pi, ei = body_ctx()
        names = [f for f, _ in struct_fields('BodyCtx')]
        ctx = infer_ctx({'body_ctx': bctx, 'idx': IntV(100, 32, 0), 'fn_id': Opaque('fn_id'), 'body': RefV([bodyv], 0), 'table': RefV(cell, 0), 'resolver': self.expr_resolver()})
        it.run_body(body(r'^ty::infer::<impl at [^>]*>::infer_function$'), [RefV([ctx], 0), RefV([bodyv], 0)])
        fres = {k.v: v for k, v in bctx.fields[names.index('field_resolution')].kv}
        mres = {k.v: v for k, v in bctx.fields[names.index('module_resolution')].kv}
        m = it.get_model()
        ev = lambda b: z3.is_true(m.eval(b, model_completion=True))
        # which of the symbolic booleans were consulted on this path is irrelevant: the reference is evaluated under the path's model and the
        # path condition fixes every boolean the code looked at
        hasfield, modexists, modconst = ev(self.hasfield), ev(self.modexists), ev(self.modconst)
        cfg = {'annotation': [None, 'Rec', 'Int'][ann], 'record_has_field_l': hasfield, 'import_qualifier_q': modexists, 'module_exports_l': modconst}
        e2t = bctx.fields[ei].m
        bad = []
        if ann == 1 and hasfield:
            kind = 'record'
            f = fres.get(2)
            if f is None or f.variant != 'Field':
                bad.append('C09: `q.l` on a local q of a record type with field l is not resolved as that field (field_resolution: %s)' % (f.variant if f is not None else None))
            if 0 in mres:
                bad.append('C05: `q.l` is a record access on the local q (its type has the field l), but inference records the base `q` as the import qualifier q (module_resolution): '
                           'go-to-definition on `q` consults that table before the scope resolver and lands in the imported module instead of the local binder')
            t = obs_tree(it, cell, e2t[2].fields[0].v) if 2 in e2t else None
            if t != ('Float',):
                bad.append('C09: `q.l` must have the type of the field l (Float), it has %s' % (show(t) if t else None))
        elif modexists:
            kind = 'module'
            f = mres.get(0)
            if f is None or f.fields[0].v != FILE_ID:
                bad.append('C05: `q.l` where q is only an import qualifier: the base is not recorded as that module (module_resolution: %s)' % (f,))
            fr = fres.get(2)
            if modconst and (fr is None or fr.variant != 'ModuleDef'):
                bad.append('C05: `q.l` names the constant l of module q but no member is recorded for the access (field_resolution: %s)' % (fr.variant if fr is not None else None))
            if not modconst and fr is not None:
                bad.append('C05: `q.l`: module q exports no l, yet the access is resolved (%s)' % fr.variant)
        else:
            kind = 'neither'
            if fres or mres:
                bad.append('C05: `q.l` is neither a record access nor a module access here, yet a resolution is recorded (field: %s, module: %s)' % (sorted(fres), sorted(mres)))
        for i in range(len(exprs)):
            if i not in e2t and i != 1:
                bad.append('C10: expression %d of `fn(q) { q.l }` has no type entry' % i)
        rec = {'cls': kind, 'ok': True, 'sample': cfg}
        if bad:
            rec.update({'cls': 'violation', 'ok': False, 'why': bad[:3], 'cex': {'field_access': cfg}})
        return rec

    def on_panic(self, it, e):
        return {'cls': 'panic:' + e.kind, 'ok': False, 'why': ['C10: inference of `q.l` panics: %s' % e], 'cex': {'panic': str(e), 'stack': list(e.stack[-3:])}}


def factory():
    return FieldSpec()


def native_probes(oracle):
    """go-to-definition on the base and the label of q.l for the configurations of the kernel, through the public API"""
    import json
    out = []
    rec = 'pub type Rec { Rec(l: Float, m: Int) }\n'
    mod = 'pub const l = 1\npub fn other() { 2 }\n'
    for ann, want_base, want_label, desc in (
            (': Rec', 'local', 'field', 'parameter q of a record type with field l, import qualifier q exists'),
            # (an untyped / field-less local q next to an import qualifier q falls back to the module - the repository's own tests
            #  goto_definition::module_field_access and hover::module encode that fallback, so it is not probed here)
    ):
        app = 'import q\n%sfn f(q%s) {\n  q.l\n}\n' % (rec, ann)
        files = [{'path': '/app/src/main.gleam', 'text': app, 'root': 0}, {'path': '/app/src/q.gleam', 'text': mod, 'root': 0}]
        base = app.index('q.l'); lab = base + 2
        r = oracle.ask('goto', json.dumps({'files': files, 'roots': [{'path': '/app', 'local': True, 'deps': []}], 'file': 0, 'offsets': [base, lab]}))
        g = r.get('goto') if isinstance(r, dict) else None
        if not g:
            out.append((desc, False, str(r)[:200])); continue
        binder = app.index('f(q') + 2
        ok = bool(g[0]) and g[0][0][0] == 0 and g[0][0][1] == binder if want_base == 'local' else True
        detail = 'go-to-definition on `q` of `q.l` -> %s (the parameter is at file 0 offset %d)' % (g[0], binder)
        if ok and want_label == 'field':
            ok = bool(g[1]) and g[1][0][0] == 0 and g[1][0][1] == app.index('l: Float')
            detail = 'go-to-definition on `l` of `q.l` -> %s (the field is at file 0 offset %d)' % (g[1], app.index('l: Float'))
        out.append((desc, ok, detail))
    # only the import qualifier: module access
    app = 'import q\nfn f() {\n  q.l\n}\n'
    files = [{'path': '/app/src/main.gleam', 'text': app, 'root': 0}, {'path': '/app/src/q.gleam', 'text': mod, 'root': 0}]
    r = oracle.ask('goto', json.dumps({'files': files, 'roots': [{'path': '/app', 'local': True, 'deps': []}], 'file': 0, 'offsets': [app.index('q.l'), app.index('q.l') + 2]}))
    g = r.get('goto') if isinstance(r, dict) else None
    ok = bool(g) and bool(g[0]) and g[0][0][0] == 1 and bool(g[1]) and g[1][0][0] == 1 and g[1][0][1] == mod.index('l =')
    out.append(('only the import qualifier q: `q.l` is the module member', ok, 'go-to-definition on base / label -> %s' % (g,)))
    return out
