"""C03 — a syntax error inside one definition does not disturb the others (bounded, solver-decided)."""
import os, json
import z3
from mirsym import explore, native
from mirsym.values import *
from . import syn, synspecs, synrun
from .runner import Check

# definitions as token-kind lists
DEFS = {
    'const':   ['CONST_KW', 'IDENT', 'EQ', 'INTEGER'],
    'fn':      ['FN_KW', 'IDENT', 'L_PAREN', 'R_PAREN', 'L_BRACE', 'R_BRACE'],
    'pubfn':   ['PUB_KW', 'FN_KW', 'IDENT', 'L_PAREN', 'IDENT', 'R_PAREN', 'L_BRACE', 'IDENT', 'R_BRACE'],
    'type':    ['TYPE_KW', 'U_IDENT', 'L_BRACE', 'U_IDENT', 'R_BRACE'],
    'alias':   ['TYPE_KW', 'U_IDENT', 'EQ', 'U_IDENT'],
    'import':  ['IMPORT_KW', 'IDENT'],
    'attrfn':  ['AT', 'IDENT', 'L_PAREN', 'IDENT', 'R_PAREN', 'FN_KW', 'IDENT', 'L_PAREN', 'R_PAREN', 'L_BRACE', 'R_BRACE'],
    'pubtype': ['PUB_KW', 'TYPE_KW', 'U_IDENT', 'L_BRACE', 'U_IDENT', 'L_PAREN', 'U_IDENT', 'R_PAREN', 'R_BRACE'],
    'pubconst': ['PUB_KW', 'CONST_KW', 'IDENT', 'COLON', 'U_IDENT', 'EQ', 'STRING'],
}
TOPKIND = {'const': 'MODULE_CONSTANT', 'fn': 'FUNCTION', 'pubfn': 'FUNCTION', 'type': 'ADT', 'alias': 'TYPE_ALIAS', 'import': 'IMPORT',
           'attrfn': 'FUNCTION', 'pubtype': 'ADT', 'pubconst': 'MODULE_CONSTANT'}
# victims: (tokens, index of the opening brace of the damaged body, index of its closing brace)
def _victim(toks):
    o = toks.index('L_BRACE'); c = len(toks) - 1 - toks[::-1].index('R_BRACE')
    return toks, o, c
VICTIMS = {
    'fn-expr':  _victim(['FN_KW', 'IDENT', 'L_PAREN', 'R_PAREN', 'L_BRACE', 'INTEGER', 'R_BRACE']),
    'fn-let':   _victim(['FN_KW', 'IDENT', 'L_PAREN', 'R_PAREN', 'L_BRACE', 'LET_KW', 'IDENT', 'EQ', 'INTEGER', 'IDENT', 'R_BRACE']),
    'fn-call':  _victim(['FN_KW', 'IDENT', 'L_PAREN', 'IDENT', 'R_PAREN', 'L_BRACE', 'IDENT', 'L_PAREN', 'INTEGER', 'COMMA', 'IDENT', 'R_PAREN', 'R_BRACE']),
    'fn-binop': _victim(['PUB_KW', 'FN_KW', 'IDENT', 'L_PAREN', 'R_PAREN', 'L_BRACE', 'IDENT', 'PLUS', 'INTEGER', 'VBAR_GT', 'IDENT', 'R_BRACE']),
    'type':     _victim(['TYPE_KW', 'U_IDENT', 'L_BRACE', 'U_IDENT', 'U_IDENT', 'L_PAREN', 'U_IDENT', 'R_PAREN', 'R_BRACE']),
    'type-labelled': _victim(['PUB_KW', 'TYPE_KW', 'U_IDENT', 'L_BRACE', 'U_IDENT', 'L_PAREN', 'IDENT', 'COLON', 'U_IDENT', 'R_PAREN', 'R_BRACE']),
    'import':   _victim(['IMPORT_KW', 'IDENT', 'DOT', 'L_BRACE', 'IDENT', 'COMMA', 'U_IDENT', 'R_BRACE']),
    'fn-use':   _victim(['FN_KW', 'IDENT', 'L_PAREN', 'R_PAREN', 'L_BRACE', 'USE_KW', 'IDENT', 'L_ARROW', 'IDENT', 'IDENT', 'R_BRACE']),
}
# closers other than braces inside a body: a tuple pattern and a bit array (their closing `)` / `>>` may be deleted or replaced)
VICTIMS['fn-let-tuple'] = _victim(['FN_KW', 'IDENT', 'L_PAREN', 'IDENT', 'R_PAREN', 'L_BRACE', 'LET_KW', 'HASH', 'L_PAREN', 'IDENT', 'COMMA', 'IDENT', 'R_PAREN', 'EQ', 'IDENT', 'IDENT', 'R_BRACE'])
VICTIMS['fn-bitarray'] = _victim(['FN_KW', 'IDENT', 'L_PAREN', 'R_PAREN', 'L_BRACE', 'LT_LT', 'INTEGER', 'GT_GT', 'R_BRACE'])
# inner braces: victims whose body contains a nested brace pair are damaged only outside / inside consistently (braces stay balanced)
VICTIMS['fn-case'] = (['FN_KW', 'IDENT', 'L_PAREN', 'IDENT', 'R_PAREN', 'L_BRACE', 'CASE_KW', 'IDENT', 'L_BRACE', 'U_IDENT', 'L_PAREN', 'IDENT', 'R_PAREN',
                       'R_ARROW', 'IDENT', 'DISCARD_IDENT', 'R_ARROW', 'INTEGER', 'R_BRACE', 'R_BRACE'], 5, 19)

# the property's damage alphabet: everything except opening delimiters, braces (the body's braces stay balanced),
# and trivia; HASH is the first half of the tuple opener `#(` and counted as an opening delimiter
BANNED = ['L_BRACE', 'R_BRACE', 'L_PAREN', 'L_SQUARE', 'LT_LT', 'HASH']

T1 = [('fn-expr', 'const', 'fn'), ('fn-let', 'import', 'pubfn'), ('fn-call', 'import', 'const'), ('fn-binop', 'import', 'type'),
      ('type', 'const', 'fn'), ('type-labelled', 'import', 'import'), ('import', 'import', 'fn'), ('fn-use', 'import', 'attrfn'),
      ('fn-case', 'import', 'pubtype'), ('fn-case', 'const', 'import'), ('fn-let-tuple', 'import', 'fn'), ('fn-let-tuple', 'const', 'pubtype'),
      ('fn-bitarray', 'import', 'fn'), ('fn-bitarray', 'const', 'attrfn')]
T2 = [(v, a, b) for v in VICTIMS for (a, b) in [('const', 'fn'), ('fn', 'const'), ('import', 'pubfn'), ('type', 'alias'), ('pubtype', 'attrfn'),
                                               ('alias', 'import'), ('pubconst', 'type')]]

BOUNDS = {'quick': {'files': T1, 'k': 2, 'replace_k': 1}, 'thorough': {'files': T2, 'k': 2, 'replace_k': 2, 'k3_files': T1[:6]}}


class DamageSpec(synspecs.TokenSpec):
    """file = D1 V D3; k symbolic damage tokens inserted at body position `point` of V, `delete` body tokens removed there"""

    def __init__(self, victim, d1, d3, point, k, delete=0):
        vt, o, c = VICTIMS[victim]
        self.victim = victim; self.d1 = d1; self.d3 = d3; self.point = point; self.delete = delete
        body_at = o + 1 + point                       # index in V of the first token after the insertion point
        prefix = DEFS[d1] + vt[:body_at]
        suffix = vt[body_at + delete:] + DEFS[d3]
        synspecs.TokenSpec.__init__(self, k, lo='IDENT', hi='ERROR', exclude=BANNED, prefix=prefix, suffix=suffix)
        self.v_first = len(DEFS[d1]); self.v_last = len(DEFS[d1]) + len(vt) - 1 - delete + k
        self.n1 = len(DEFS[d1]); self.n3 = len(DEFS[d3])

    def run_path(self, it):
        n = self.n
        self.fuel.min = None
        res, src = syn.parse_tokens(it, [IntV(k.v, 16, 0) for k in self.kiv])
        log, errors = syn.parse_result(res)
        m = None

        def kv(iv):
            nonlocal m
            if not iv.sym():
                return iv.v
            if m is None:
                m = it.get_model()
            return m.eval(iv.v, model_completion=True).as_long()
        tree = syn.tree_from_log(log, kv)
        tops = []
        for ch in tree[1:]:
            if isinstance(ch, list):
                toks = _tokens(ch)
                name = _name(ch)
                tops.append((syn.INV.get(ch[0], ch[0]), toks[0] if toks else None, toks[-1] if toks else None, name))
        bad = []
        want1 = (TOPKIND[self.d1], 0, self.n1 - 1)
        want3 = (TOPKIND[self.d3], n - self.n3, n - 1)
        got1 = [t for t in tops if t[1] == 0]
        got3 = [t for t in tops if t[2] == n - 1]
        if not any(t[:3] == want1 for t in tops):
            bad.append('C03: the definition before the damaged one is no longer recognised as %s over its own tokens (top-level nodes: %s)' % (want1[0], tops))
        if not any(t[:3] == want3 for t in tops):
            bad.append('C03: the definition after the damaged one is no longer recognised as %s over its own tokens (top-level nodes: %s)' % (want3[0], tops))
        for t in tops:
            if t[:3] == want1 and t[3] != _expected_name(DEFS[self.d1], 0):
                bad.append('C03: name of the first definition changed')
            if t[:3] == want3 and t[3] != _expected_name(DEFS[self.d3], n - self.n3):
                bad.append('C03: name of the last definition changed')
        for e in errors:
            (s, t), kn = syn.error_info(e)
            if not (self.v_first <= s <= self.v_last and t == s + 1):
                where = 'end of input' if s == n else 'token #%d' % s
                bad.append('C03: syntax error %s reported at %s, outside the damaged definition (tokens %d..%d)' % (kn, where, self.v_first, self.v_last))
        rec = {'cls': 'ok-clean' if not errors else 'ok-with-errors', 'ok': True, 'nerr': len(errors), 'depth': it.maxdepth, 'lookaheads': 0}
        if bad:
            rec.update({'cls': 'violation', 'ok': False, 'why': bad, 'cex': {'kinds': self.witness(it)}, 'cex_alternatives': self.alternatives(it, 6)})
        else:
            if len(errors) > 0:
                rec['sample'] = {'file': '%s | %s | %s' % (self.d1, self.victim, self.d3), 'point': self.point, 'damage': self.witness(it)[len(self.prefix):len(self.prefix) + self.nsym], 'errors': len(errors)}
            rec['_tree'] = (log, [(syn.error_info(e)[0][0], syn.error_info(e)[0][1], syn.error_info(e)[1]) for e in errors])
        return rec


def _tokens(node):
    out = []
    stack = [node]
    while stack:
        x = stack.pop()
        if isinstance(x, tuple):
            out.append(x[2])
        else:
            stack.extend(reversed(x[1:]))
    return out


def _name(node):
    """offset of the token inside the first NAME / TYPE_NAME child (the definition's name), or None"""
    for ch in node[1:]:
        if isinstance(ch, list) and syn.INV.get(ch[0]) in ('NAME', 'TYPE_NAME', 'MODULE_PATH'):
            t = _tokens(ch)
            return t[0] if t else None
    return None


def _expected_name(deftoks, base):
    for i, t in enumerate(deftoks):
        if t in ('IDENT', 'U_IDENT') and (i == 0 or deftoks[i - 1] in ('FN_KW', 'CONST_KW', 'TYPE_KW', 'IMPORT_KW')):
            return base + i
    return None


def damage_factory(victim, d1, d3, point, k, delete):
    return DamageSpec(victim, d1, d3, point, k, delete)


def body_points(victim):
    vt, o, c = VICTIMS[victim]
    return list(range(0, c - o))        # 0 = right after '{', c-o-1 = right before '}'


def deletable(victim, point):
    vt, o, c = VICTIMS[victim]
    i = o + 1 + point
    return i < c and vt[i] not in ('L_BRACE', 'R_BRACE')      # any body token except a brace may be deleted / replaced


def baseline_ok(chk, oracle, sp, victim, d1, d3):
    """the undamaged file must parse without errors into exactly the three definitions (oracle for the damaged runs)"""
    vt, o, c = VICTIMS[victim]
    kinds = [syn.KINDS[x] for x in DEFS[d1] + vt + DEFS[d3]]
    txt = sp.text_for(kinds, oracle)
    nat = oracle.ask('parse', txt)
    return txt is not None and nat.get('errors') == [] and nat.get('text_ok')


def confirm(chk, res, oracle, sp, label, spec_args):
    """native confirmation: parse the damaged text and the undamaged text natively; neighbours must keep kind, name, text"""
    victim, d1, d3, point, k, delete = spec_args
    vt, o, c = VICTIMS[victim]
    base = DEFS[d1] + vt + DEFS[d3]
    for v in res.violations:
        cands = [v['cex']] + list(v.get('cex_alternatives', []))
        done = False
        for cex in cands:
            kinds = [syn.KINDS[x] if isinstance(x, str) else x for x in cex['kinds']]
            txt = sp.text_for(kinds, oracle)
            if txt is None:
                continue
            nat = oracle.ask('parse', txt)
            if 'tree' not in nat:
                chk.violation('panic', 'bounded', '%s: native parser %s on %r' % (label, nat, txt), {'text': txt}, confirmed=True); done = True; break
            toks = [t for t in oracle.ask('lex', txt)['tokens'] if t[0] > syn.KINDS['COMMENT_MODULE']]
            n = len(toks); n1 = len(DEFS[d1]); n3 = len(DEFS[d3])
            tops = []
            for ch in nat['tree'][1:]:
                if isinstance(ch, list):
                    leaves = [l for l in _leaves(ch) if l['k'] > syn.KINDS['COMMENT_MODULE']]
                    if leaves:
                        tops.append((ch[0], leaves[0]['s'], leaves[-1]['e']))
            w1 = (syn.KINDS[TOPKIND[d1]], toks[0][1], toks[n1 - 1][2]); w3 = (syn.KINDS[TOPKIND[d3]], toks[n - n3][1], toks[n - 1][2])
            problems = []
            if w1 not in tops:
                problems.append('first definition not recognised')
            if w3 not in tops:
                problems.append('last definition not recognised')
            vs, ve = toks[n1][1], toks[n - n3 - 1][2]
            for s, e, kn in nat['errors']:
                if not (vs <= s and e <= ve and s < e):
                    problems.append('error %s at %d..%d outside the damaged definition %d..%d' % (kn, s, e, vs, ve))
            if problems:
                chk.violation('isolation:%s' % victim, 'bounded', '%s: %s; damaged text %r: %s' % (label, '; '.join(v['why'])[:200], txt, '; '.join(problems)[:300]),
                              {'text': txt, 'kinds': cex['kinds']}, confirmed=True)
            else:
                chk.violation('engine', 'bounded', '%s: %s; text %r shows no problem natively' % (label, '; '.join(v['why'])[:200], txt), {'text': txt}, confirmed=False)
            done = True
            break
        if not done:
            chk.extra['unrealisable'] = chk.extra.get('unrealisable', 0) + 1


def _leaves(t):
    out = []; stack = [t]
    while stack:
        x = stack.pop()
        if isinstance(x, dict):
            out.append(x)
        else:
            stack.extend(reversed(x[1:]))
    return out


def main(tier, seed):
    chk = Check('C03', tier, seed)
    B = BOUNDS[tier]
    jobs = int(os.environ.get('VERIF_JOBS', '16'))
    syn.load('dev', log=chk.log)
    oracle = native.Oracle(syn.ORACLE_BIN)
    sp = syn.Spellings(oracle)
    nfiles = 0
    plan = []
    for (victim, d1, d3) in B['files']:
        if not baseline_ok(chk, oracle, sp, victim, d1, d3):
            chk.inconclusive.append('template %s|%s|%s does not parse cleanly on this tree (the oracle of C03 is the undamaged parse)' % (d1, victim, d3))
            continue
        nfiles += 1
        pts = body_points(victim)
        for p in pts:
            plan.append((victim, d1, d3, p, B['k'], 0))
            if deletable(victim, p):
                plan.append((victim, d1, d3, p, B['replace_k'], 1))        # replace / delete
                plan.append((victim, d1, d3, p, 0, 1))
    for (victim, d1, d3) in B.get('k3_files', []):
        pts = body_points(victim)
        plan.append((victim, d1, d3, pts[len(pts) // 2], 3, 0))
    chk.log('%d template files, %d damage runs' % (nfiles, len(plan)))
    for args in plan:
        victim, d1, d3, p, k, delete = args
        res, complete = explore.explore(damage_factory, args, jobs=jobs)
        name = '%s|%s|%s @%d ins=%d del=%d' % (d1, victim, d3, p, k, delete)
        chk.add_run(name, res, complete, {'file': [d1, victim, d3], 'insertion_point': p, 'inserted_symbolic_tokens': k, 'deleted_tokens': delete,
                                         'alphabet': 'IDENT..=ERROR minus ' + ','.join(BANNED)}, nontrivial_classes=lambda c: c == 'ok-with-errors')
        confirm(chk, res, oracle, sp, name, args)
        if k <= 1:
            synrun.validate_samples(chk, res, oracle, sp, name)
    oracle.close()
    chk.assumptions += synrun.SYN_ASSUMPTIONS + [
        'damage = token-level insertion / deletion / replacement strictly between the braces of one definition body; the alphabet excludes opening delimiters ( { ( [ << and # , the first half of the tuple opener #( ), both braces (the body stays balanced) and trivia, as the property states',
        'definitions outside the template set, more than %d inserted tokens, and character-level damage that changes token boundaries are outside the claim' % B['k']]
    chk.trusted += synrun.SYN_TRUSTED
    syn.W.cleanup()
    return chk.finish({'template_files': nfiles, 'unrealisable_counterexamples': chk.extra.get('unrealisable', 0)})


def replay(path):
    d = json.load(open(path))
    syn.load('dev', log=lambda m: None)
    oracle = native.Oracle(syn.ORACLE_BIN)
    print(json.dumps(oracle.ask('parse', d['cex']['text']), indent=None)[:2000])
    return 0
