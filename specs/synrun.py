"""Shared drivers of the syntax-crate checks: exploration suites, native confirmation, translator validation."""
import os, sys, time, json
import z3
from mirsym import explore, native
from mirsym.values import *
from . import syn, synspecs

# grammar contexts: concrete token prefixes that put the parser inside each list-like loop / sub-grammar, after
# which k symbolic tokens (then end of input) are explored exhaustively
BLOCK = ['FN_KW', 'IDENT', 'L_PAREN', 'R_PAREN', 'L_BRACE']
CONTEXTS = [
    ('fn-params', ['FN_KW', 'IDENT', 'L_PAREN']),
    ('fn-params-2nd', ['FN_KW', 'IDENT', 'L_PAREN', 'IDENT', 'COMMA']),
    ('fn-return-type', ['FN_KW', 'IDENT', 'L_PAREN', 'R_PAREN', 'R_ARROW']),
    ('block', BLOCK),
    ('block-after-expr', BLOCK + ['IDENT']),
    ('type-variants', ['TYPE_KW', 'U_IDENT', 'L_BRACE']),
    ('type-variant-fields', ['TYPE_KW', 'U_IDENT', 'L_BRACE', 'U_IDENT', 'L_PAREN']),
    ('type-generics', ['TYPE_KW', 'U_IDENT', 'L_PAREN']),
    ('type-alias', ['TYPE_KW', 'U_IDENT', 'EQ']),
    ('type-args', ['TYPE_KW', 'U_IDENT', 'EQ', 'U_IDENT', 'L_PAREN']),
    ('fn-type', ['TYPE_KW', 'U_IDENT', 'EQ', 'FN_KW', 'L_PAREN']),
    ('tuple-type', ['TYPE_KW', 'U_IDENT', 'EQ', 'HASH', 'L_PAREN']),
    ('import-path', ['IMPORT_KW', 'IDENT']),
    ('import-unqualified', ['IMPORT_KW', 'IDENT', 'DOT', 'L_BRACE']),
    ('const-type', ['CONST_KW', 'IDENT', 'COLON']),
    ('const-expr', ['CONST_KW', 'IDENT', 'EQ']),
    ('const-binop', ['CONST_KW', 'IDENT', 'EQ', 'IDENT', 'PLUS']),
    ('attribute', ['AT']),
    ('external-attr', ['AT', 'EXTERNAL_KW', 'L_PAREN']),
    ('pub', ['PUB_KW']),
    ('case-subjects', BLOCK + ['CASE_KW']),
    ('case-clauses', BLOCK + ['CASE_KW', 'IDENT', 'L_BRACE']),
    ('clause-after-pattern', BLOCK + ['CASE_KW', 'IDENT', 'L_BRACE', 'IDENT']),
    ('pattern-ctor-args', BLOCK + ['CASE_KW', 'IDENT', 'L_BRACE', 'U_IDENT', 'L_PAREN']),
    ('pattern-list', BLOCK + ['CASE_KW', 'IDENT', 'L_BRACE', 'L_SQUARE']),
    ('pattern-tuple', BLOCK + ['CASE_KW', 'IDENT', 'L_BRACE', 'HASH', 'L_PAREN']),
    ('let', BLOCK + ['LET_KW']),
    ('let-after-pattern', BLOCK + ['LET_KW', 'IDENT']),
    ('use', BLOCK + ['USE_KW']),
    ('call-args', BLOCK + ['IDENT', 'L_PAREN']),
    ('field-access', BLOCK + ['IDENT', 'DOT']),
    ('tuple', BLOCK + ['HASH', 'L_PAREN']),
    ('list', BLOCK + ['L_SQUARE']),
    ('lambda-params', BLOCK + ['FN_KW', 'L_PAREN']),
    ('bit-array', BLOCK + ['LT_LT']),
    ('todo-as', BLOCK + ['TODO_KW', 'AS_KW']),
    ('spread', BLOCK + ['L_SQUARE', 'IDENT', 'COMMA', 'DOT_DOT']),
]


def tok_factory(n, lo, hi, prefix):
    return synspecs.TokenSpec(n, lo=lo, hi=hi, prefix=prefix)


def lex_factory(n):
    return synspecs.LexStepSpec(n)


def pipe_factory(n):
    return synspecs.PipelineSpec(n)


def validate_samples(chk, res, oracle, sp, label, raw=False):
    """translator validation: model -> text -> native parse; tree shape and errors must agree with the engine's path"""
    vs = res.extra.get('validate', [])
    ok = 0; skipped = 0
    trivia_hi = syn.KINDS['COMMENT_MODULE']
    for v in vs:
        kinds = v['kinds']
        txt = sp.text_for_raw(kinds, oracle) if raw else sp.text_for(kinds, oracle)
        if txt is None:
            skipped += 1; continue
        nat = oracle.ask('parse', txt)
        if 'tree' not in nat:
            chk.inconclusive.append('%s: translator validation: native %s on %r but the engine path returned normally' % (label, nat, txt))
            continue

        def strip(t):
            if isinstance(t, dict):
                return None if (t['k'] <= trivia_hi and not raw) else t
            return [t[0]] + [x for x in (strip(c) for c in t[1:]) if x is not None]
        nshape = syn.shape_only(syn.native_tree_shape(strip(nat['tree'])))
        mshape = syn.shape_only(v['tree'])
        toks = [t for t in oracle.ask('lex', txt)['tokens'] if raw or t[0] > trivia_hi]
        idx = {(t[1], t[2]): i for i, t in enumerate(toks)}
        nerrs = []
        for s, e, k in nat['errors']:
            nerrs.append((idx.get((s, e), len(toks) if s == e == len(txt.encode()) else -1), k))
        merrs = [(s if t == s + 1 else len(kinds), k) for (s, t, k) in v['errors']]
        if json.dumps(nshape) != json.dumps(mshape) or nerrs != merrs:
            chk.inconclusive.append('%s: translator validation FAILED on %r: engine tree/errors differ from the native parser (%s vs %s)'
                                    % (label, txt, merrs, nerrs))
        else:
            ok += 1
    chk.validated += ok
    chk.log('%s: translator validation %d/%d sampled paths agree with the native parser (%d not lexer-realisable)' % (label, ok, len(vs), skipped))


def native_verdict(oracle, txt):
    """what the natively compiled crate does on txt: list of (property, site, detail)"""
    out = []
    nbytes = len(txt.encode('utf-8'))
    lex = oracle.ask('lex', txt)
    if 'tokens' in lex:
        pos = 0
        for k, s, e in lex['tokens']:
            if s != pos or e <= s:
                out.append(('C01', 'lexer-ranges', 'lexer token %d..%d after offset %d' % (s, e, pos))); break
            pos = e
        else:
            if pos != nbytes:
                out.append(('C01', 'lexer-ranges', 'lexer tokens end at %d, text has %d bytes' % (pos, nbytes)))
    else:
        out.append(('C02', 'panic:' + str(lex.get('panic', 'process died')).replace(' ', '_')[:60], 'lexer: %s' % lex))
    par = oracle.ask('parse', txt)
    if 'tree' not in par:
        out.append(('C02', 'panic:' + str(par.get('panic', 'process died')).replace(' ', '_')[:60], 'parse_module: %s' % str(par)[:200]))
        return out
    if not par['text_ok']:
        out.append(('C01', 'tree-text', 'concatenated leaf tokens differ from the input'))
    leaves = []

    def walk(t):
        stack = [t]
        while stack:
            x = stack.pop()
            if isinstance(x, dict):
                leaves.append(x)
            else:
                stack.extend(reversed(x[1:]))
    walk(par['tree'])
    pos = 0
    for l in leaves:
        if l['s'] != pos or l['e'] <= l['s']:
            out.append(('C01', 'leaf-ranges', 'leaf %d..%d after offset %d' % (l['s'], l['e'], pos))); break
        pos = l['e']
    else:
        if pos != nbytes:
            out.append(('C01', 'leaf-ranges', 'leaves end at %d, text has %d bytes' % (pos, nbytes)))
    namelike = {syn.KINDS[k]: k for k in synspecs.NAME_LIKE if k in syn.KINDS}
    st = [par['tree']]
    while st:
        x = st.pop()
        if isinstance(x, list):
            if x[0] in namelike and len(x) - 1 > 1:
                toks = []
                q = [x]
                while q:
                    y = q.pop()
                    if isinstance(y, dict):
                        toks.append(y)
                    else:
                        q.extend(y[1:])
                out.append(('C20', 'name-node', 'a %s node covers bytes %d..%d in %d children (not one identifier token)' % (namelike[x[0]], min(t['s'] for t in toks), max(t['e'] for t in toks), len(x) - 1)))
                break
            st.extend(x[1:])
    b = txt.encode('utf-8')
    for s, e, k in par['errors']:
        if not (0 <= s <= e <= nbytes):
            out.append(('C20', 'error-range', 'error range %d..%d outside 0..%d' % (s, e, nbytes)))
        elif any(0 < p < nbytes and (b[p] & 0xC0) == 0x80 for p in (s, e)):
            out.append(('C20', 'error-range', 'error range %d..%d splits a character' % (s, e)))
    return out


def confirm_violations(chk, res, oracle, sp, label, prop_prefixes, raw=False):
    """replay solver counterexamples natively; only reproducing ones are violations (others: engine disagreement)"""
    for v in res.violations:
        whys = [w for w in v.get('why', []) if w.startswith(tuple(prop_prefixes))]
        if not whys:
            continue
        cands = [v['cex']] + list(v.get('cex_alternatives', []))
        txt = None
        for cex in cands:
            if 'kinds' in cex:
                kinds = [syn.KINDS[k] if isinstance(k, str) else k for k in cex['kinds']]
                txt = sp.text_for_raw(kinds, oracle) if raw else sp.text_for(kinds, oracle)
            else:
                txt = bytes.fromhex(cex['bytes']).decode('utf-8')
            if txt is not None:
                break
        if txt is None:
            chk.extra['unrealisable'] = chk.extra.get('unrealisable', 0) + 1
            continue
        nv = native_verdict(oracle, txt)
        mine = [x for x in nv if x[0] in prop_prefixes] or nv
        if mine:
            site = mine[0][1]
            chk.violation(site, 'bounded', '%s: %s; input %r; native: %s' % (label, '; '.join(whys), txt, mine[0][2]),
                          {'text': txt, 'kinds': cex.get('kinds')}, confirmed=True)
        else:
            chk.violation('engine', 'bounded', '%s: %s; input %r; native code shows no problem' % (label, '; '.join(whys), txt),
                          {'text': txt, 'kinds': cex.get('kinds')}, confirmed=False)


def token_suite(chk, oracle, sp, jobs, props, top_n, ctx_n, lo='IDENT', hi='ERROR', raw=False, profile='dev', contexts=None, validate=True):
    """exhaustive token-kind exploration: top level up to top_n symbolic tokens, then every grammar context + ctx_n"""
    results = []
    alpha = '%s..=%s' % (lo, hi)
    for n in range(0, top_n + 1):
        res, complete = explore.explore(tok_factory, (n, lo, hi, ()), jobs=jobs)
        chk.add_run('tokens[%s] top-level n=%d' % (profile, n), res, complete, {'symbolic_tokens': n, 'alphabet': alpha, 'profile': profile, 'prefix': []},
                    nontrivial_classes=lambda c: c != 'ok-clean')
        confirm_violations(chk, res, oracle, sp, 'tokens n=%d' % n, props, raw=raw)
        if validate:
            validate_samples(chk, res, oracle, sp, 'tokens n=%d' % n, raw=raw)
        results.append(res)
    for name, prefix in (contexts if contexts is not None else CONTEXTS):
        if ctx_n <= 0:
            break
        res, complete = explore.explore(tok_factory, (ctx_n, lo, hi, tuple(prefix)), jobs=jobs)
        chk.add_run('tokens[%s] ctx %s +%d' % (profile, name, ctx_n), res, complete,
                    {'symbolic_tokens': ctx_n, 'alphabet': alpha, 'profile': profile, 'prefix': prefix}, nontrivial_classes=lambda c: c != 'ok-clean')
        confirm_violations(chk, res, oracle, sp, 'context %s + %d tokens' % (name, ctx_n), props, raw=raw)
        if validate:
            validate_samples(chk, res, oracle, sp, 'ctx %s' % name, raw=raw)
        results.append(res)
    return results


def lexer_suite(chk, oracle, sp, jobs, props, lex_n, pipe_n, profile='dev'):
    for n in range(0, lex_n + 1):
        res, complete = explore.explore(lex_factory, (n,), jobs=jobs)
        chk.add_run('lexer-step[%s] len=%d' % (profile, n), res, complete, {'bytes': n, 'profile': profile}, nontrivial_classes=lambda c: c.startswith('tok:'))
        confirm_violations(chk, res, oracle, sp, 'one lexer step on a %d-byte string' % n, props)
    for n in range(0, pipe_n + 1):
        res, complete = explore.explore(pipe_factory, (n,), jobs=jobs)
        chk.add_run('bytes->tree[%s] len=%d' % (profile, n), res, complete, {'bytes': n, 'profile': profile})
        confirm_violations(chk, res, oracle, sp, 'bytes->tree on a %d-byte string' % n, props)


CASE = BLOCK + ['CASE_KW', 'IDENT', 'L_BRACE']
TYPEQ = ['TYPE_KW', 'U_IDENT', 'EQ']
# (name, prefix P, nesting opener N, rest after the symbolic tokens); every N adds exactly ONE level of nesting (checked by the native
# validation of where the limit triggers) and P stays at most 1 level deep (margin 2)
NEST_FAMILIES = [
    ('expr-list', BLOCK, ['L_SQUARE'], ['R_BRACE', 'FN_KW', 'IDENT', 'L_PAREN', 'R_PAREN', 'L_BRACE', 'R_BRACE']),
    ('expr-tuple', BLOCK, ['HASH', 'L_PAREN'], ['R_BRACE']),
    ('expr-call', BLOCK, ['IDENT', 'L_PAREN'], []),
    ('expr-block', BLOCK, ['L_BRACE'], ['R_BRACE']),
    ('pattern-list', CASE, ['L_SQUARE'], ['R_ARROW', 'IDENT', 'R_BRACE', 'R_BRACE']),
    ('pattern-tuple', CASE, ['HASH', 'L_PAREN'], []),
    ('pattern-ctor', CASE, ['U_IDENT', 'L_PAREN'], ['R_BRACE']),
    ('type-app', TYPEQ, ['U_IDENT', 'L_PAREN'], ['CONST_KW', 'IDENT', 'EQ', 'INTEGER']),
    ('type-tuple', TYPEQ, ['HASH', 'L_PAREN'], []),
    ('type-fn', TYPEQ, ['FN_KW', 'L_PAREN'], ['R_PAREN']),
]


def deep_factory(n, P, N, j, rest):
    return synspecs.DeepTokenSpec(n, P, N, j, rest, margin=2)


def deep_text(sp, oracle, d):
    kinds = [syn.KINDS[k] if isinstance(k, str) else k for k in (list(d['P']) + list(d['N']) * d['times'] + list(d['rest']))]
    return sp.text_for(kinds, oracle)


def deep_suite(chk, oracle, sp, jobs, props, n, j, profile='dev', families=None):
    """the depth-limit path of the parser, from a symbolic start depth (see DeepTokenSpec); natively replayed on the pumped text"""
    info = synspecs.parser_depth_info()
    if info is None:
        chk.log('the parser has no MAX_DEPTH / depth field in the current tree: depth-limit runs skipped (unbounded recursion is then probed by C02 natively)')
        return
    for name, P, N, rest in (families or NEST_FAMILIES):
        res, complete = explore.explore(deep_factory, (n, tuple(P), tuple(N), j, tuple(rest)), jobs=jobs)
        chk.add_run('deep[%s] %s: P+N*(%d+d0)+%d tokens+rest, d0 symbolic' % (profile, name, j, n), res, complete,
                    {'symbolic_tokens': n, 'start_depth': 'symbolic, MAX_DEPTH(%d)-%d .. MAX_DEPTH-2' % (info[1], 4 + j), 'prefix': list(P), 'nester': list(N), 'rest': list(rest), 'profile': profile},
                    nontrivial_classes=lambda c: c != 'ok-clean')
        seen = set()
        for v in res.violations:
            whys = [w for w in v.get('why', []) if w.startswith(tuple(props))]
            if not whys:
                continue
            d = v['cex']['deep']
            txt = deep_text(sp, oracle, d)
            if txt is None:
                chk.extra['unrealisable'] = chk.extra.get('unrealisable', 0) + 1
                continue
            nv = native_verdict(oracle, txt)
            mine = [x for x in nv if x[0] in props]
            desc = 'nesting %s x%d (start depth %d): %s; input %r...%r (%d bytes)' % (''.join(d['N']), d['times'], d['start_depth'], '; '.join(whys), txt[:60], txt[-60:], len(txt))
            if mine:
                key = (mine[0][1], name)
                if key in seen:
                    continue
                seen.add(key)
                chk.violation(mine[0][1], 'bounded', desc + '; native: ' + mine[0][2], {'text': txt, 'deep': d}, confirmed=True)
            else:
                chk.violation('engine', 'bounded', desc + '; native code shows no problem', {'text': txt, 'deep': d}, confirmed=False)
        ok = 0; tot = 0; ndeep = 0
        for smp in res.extra.get('deep_samples', []):
            txt = deep_text(sp, oracle, smp['deep'])
            if txt is None:
                continue
            tot += 1
            nat = oracle.ask('parse', txt)
            if 'tree' not in nat:
                chk.inconclusive.append('deep %s: translator validation: native %s on the pumped text, engine path returned normally' % (name, str(nat)[:200])); continue
            # the depth limit must trigger at the same token: engine token index + d0*len(N) == native token index
            trivia_hi = syn.KINDS['COMMENT_MODULE']
            toks = [t for t in oracle.ask('lex', txt)['tokens'] if t[0] > trivia_hi]
            idx = {(t[1], t[2]): i for i, t in enumerate(toks)}
            shift = smp['deep']['start_depth'] * len(smp['deep']['N'])
            nb = len(txt.encode('utf-8'))
            nat_deep = sorted(idx.get((s_, e_), len(toks) if s_ == e_ == nb else -1) for (s_, e_, k_) in nat['errors'] if k_ == 'NestTooDeep')
            eng_deep = sorted((s_ if t_ == s_ + 1 else smp['ntokens']) + shift for (s_, t_, k_) in smp['errors'] if k_ == 'NestTooDeep')
            if nat_deep == eng_deep:
                ok += 1; ndeep += bool(nat_deep)
            else:
                chk.inconclusive.append('deep %s: translator validation FAILED (start depth %d, x%d): engine reports NestTooDeep at tokens %s, the native parser at %s' % (name, smp['deep']['start_depth'], smp['deep']['times'], eng_deep, nat_deep))
        chk.validated += ok
        chk.log('deep %s: translator validation %d/%d sampled paths hit (or do not hit) the depth limit at the same token as the native parser on the pumped text (%d of them hit it)' % (name, ok, tot, ndeep))


SYN_ASSUMPTIONS = [
    'token-kind mode: the lexer call inside parse_module is replaced by a vector of tokens with symbolic kinds (ranges [i,i+1)); every other statement of parse_module / module / grammar functions / build_tree is the real MIR of the current tree',
    'kind sequences the real lexer cannot produce (adjacent tokens that would merge) are explored too; a counterexample is reported only after a lexer-realisable model of the same path reproduced natively',
    'lexer: one next() from offset 0 of every valid UTF-8 string of the stated length; longer texts follow by induction over the remaining suffix (logos keeps no state between tokens except the end offset) for tokens, including their look-ahead, that fit in the bound',
    'deep runs: the parser starts at a symbolic nesting depth d0 (Parser.depth replaced when the struct is built); since depth is only compared in Parser::enter, the run on P+N^j+rest from depth d0 is taken as the run on P+N^(j+d0)+rest from depth 0; every counterexample and up to 40 sampled paths per family are replayed natively on that pumped text',
    'a call depth above 400 frames is reported as stack overflow; real stack limits are exercised only by the native replay of pumped inputs',
]
SYN_TRUSTED = ['rustc MIR (-Zunpretty=mir, stable toolchain of the repository) as the semantics of the source',
               'mirsym interpreter and the library models listed under library_models_hit (each exercised by translator validation on every run)',
               'z3 sat/unsat answers', 'logos 0.12 runtime model (Lexer/LexerInternal methods)', 'rowan GreenNodeBuilder model (event log + its own panics)',
               'rowan cursor API / SyntaxNode (not executed symbolically; the builder log is the tree)']


# ------------------------------------------------------------------------------------------------ long flat runs (native, executed code)
# A token bound of 5 cannot see a counter that saturates or a buffer that wraps after 2^8 / 2^16 tokens.  Families of FLAT repetition (no
# nesting: the nesting families are the growth probe's) are pumped to lengths around those powers of two and parsed natively; the tree must
# still be the text.  (unit, separator, prefix, suffix)
FLAT_FAMILIES = [
    ('bit-array segments', '1', ', ', 'const a = <<', '>>\n'), ('list elements', '1', ', ', 'const a = [', ']\n'), ('tuple elements', '1', ', ', 'const a = #(', ')\n'),
    ('call arguments', 'x', ', ', 'fn f() { g(', ') }\n'), ('operator chain', 'x', ' + ', 'fn f() { ', ' }\n'), ('statements', 'x', '\n', 'fn f() {\n', '\n}\n'),
    ('definitions', 'const a = 1', '\n', '', '\n'), ('variants', 'A', ' ', 'type T { ', ' }\n'), ('parameters', 'a', ', ', 'fn f(', ') { 1 }\n'),
    ('unqualified imports', 'a', ', ', 'import m.{', '}\n'), ('error tokens', '$', ' ', 'fn f() { ', ' }\n'), ('comments', '// c', '\n', '', '\nfn f() { 1 }\n'),
    ('tokens after the nesting limit', 'x', ' ', 'fn f() { ' + '[' * 400, ' }\n'),
]
FLAT_LENGTHS = [127, 129, 255, 257, 300, 1000, 32769, 65537, 70000]


# chains that RECURSE per link (right-nested or prefix constructs): every such construct must be cut off by the nesting limit, however it is spelled
CHAIN_FAMILIES = [
    ('string-prefix pattern chain', 'fn f(x) { case x { ', '"a" <> ', 'r -> 1 } }\n'), ('prefix minus chain', 'fn f() { ', '- ', '1 }\n'), ('prefix bang chain', 'fn f() { ', '!', 'x }\n'),
    ('list nest', 'fn f() { ', '[', ' }\n'), ('tuple nest', 'fn f() { ', '#(', ' }\n'), ('block nest', 'fn f() { ', '{ ', ' }\n'), ('case nest', 'fn f() { ', 'case x { a -> ', ' }\n'),
    ('call-argument nest', 'fn f() { ', 'g(', ' }\n'), ('lambda nest', 'fn f() { ', 'fn() { ', ' }\n'), ('tuple type nest', 'type A = ', '#(', '\n'), ('fn type nest', 'type A = ', 'fn(', '\n'),
    ('type application nest', 'type A = ', 'B(', '\n'), ('list pattern nest', 'fn f(x) { case x { ', '[', ' -> 1 } }\n'), ('tuple pattern nest', 'fn f(x) { case x { ', '#(', ' -> 1 } }\n'),
    ('constructor pattern nest', 'fn f(x) { case x { ', 'C(', ' -> 1 } }\n'), ('use chain', 'fn f() { ', 'use a <- g ', '1 }\n'), ('let-block chain', 'fn f() { ', 'let a = { ', '1 }\n'),
    ('constant list nest', 'const a = ', '[', '\n'), ('constant tuple nest', 'const a = ', '#(', '\n'),
]
CHAIN_LENGTHS = [3000, 200000]


def flat_runs(chk, oracle, props):
    n = 0; bad = 0
    for name, pre, unit, suf in CHAIN_FAMILIES:
        for k in CHAIN_LENGTHS:
            text = pre + unit * k + suf
            r = oracle.ask('roundtrip', text)
            n += 1
            ok = isinstance(r, dict) and r.get('text_ok') is True and r.get('contiguous') is True
            if not ok:
                bad += 1
                died = not isinstance(r, dict) or 'died' in r or 'panic' in r
                what = 'C02: the parser takes the process down / panics' if died else 'C01: the leaf tokens of the tree are not the text'
                if bad <= 3 and what[:3] in props:
                    chk.violation('chain:' + name.replace(' ', '-'), 'pumped', '%s on a %s of %d links (%r ... %d bytes): %s' % (what, name, k, text[:50], len(text), str(r)[:200]),
                                  {'kind': 'flat-run', 'family': name, 'count': k, 'unit': unit, 'sep': '', 'prefix': pre, 'suffix': suf}, confirmed=True)
    for name, unit, sep, pre, suf in FLAT_FAMILIES:
        for k in FLAT_LENGTHS:
            if name == 'operator chain' and k > 1000:
                continue            # rowan drops (and walks) deep left-nested trees recursively: outside parse_module, see DESIGN 7.2
            text = pre + sep.join([unit] * k) + suf
            r = oracle.ask('roundtrip', text)
            n += 1
            ok = isinstance(r, dict) and r.get('text_ok') is True and r.get('contiguous') is True
            if not ok:
                bad += 1
                if bad <= 3:
                    what = 'C02: the parser dies / panics' if (not isinstance(r, dict) or 'died' in r or 'panic' in r) else 'C01: the leaf tokens of the tree are not the text'
                    if what[:3] in props:
                        chk.violation('long-run:' + name.replace(' ', '-'), 'pumped', '%s on a flat run of %d %s (%r ... %d bytes): %s' % (what, k, name, text[:40], len(text), str(r)[:200]),
                                      {'kind': 'flat-run', 'family': name, 'count': k, 'unit': unit, 'sep': sep, 'prefix': pre, 'suffix': suf}, confirmed=True)
    chk.log('long runs: %d texts (%d flat families x lengths around 2^7, 2^8, 2^15, 2^16; %d recursive chain families x %s links) parsed natively, %d not lossless / fatal' % (n, len(FLAT_FAMILIES), len(CHAIN_FAMILIES), CHAIN_LENGTHS, bad))
    if not bad:
        chk.validated += n
    return n, bad

