"""Kani (CBMC) on the real union-find (crates/ide/src/ty/union_find.rs): overlay copy + appended harness."""
import os, re, subprocess, shutil, time, fcntl, sys
from mirsym import dump

HERE = os.path.dirname(os.path.abspath(__file__))
KDIR = os.path.join(os.path.dirname(HERE), 'kani', 'uf')


def run(n, k, log, timeout=900):
    dst = dump.scratch('kani', 'uf')
    os.makedirs(os.path.join(dst, 'src'), exist_ok=True)
    shutil.copy(os.path.join(KDIR, 'Cargo.toml'), os.path.join(dst, 'Cargo.toml'))
    src = open(os.path.join(dump.REPO, 'crates/ide/src/ty/union_find.rs')).read()
    h = open(os.path.join(KDIR, 'harness.rs.in')).read().replace('@N@', str(n)).replace('@K@', str(k)).replace('@UNWIND@', str(max(n, k) + 3))
    open(os.path.join(dst, 'src', 'lib.rs'), 'w').write('#![allow(dead_code)]\n' + src + h)
    env = dict(os.environ, CARGO_NET_OFFLINE='true')
    env.pop('RUSTFLAGS', None)
    t0 = time.time()
    lockf = open(dump.scratch('target-kani.lock'), 'w')
    fcntl.flock(lockf, fcntl.LOCK_EX)
    try:
        r = subprocess.run(['cargo', 'kani', '--target-dir', dump.scratch('target-kani'), '--output-format', 'regular'], cwd=dst, env=env,
                           stdout=subprocess.PIPE, stderr=subprocess.STDOUT, text=True, timeout=timeout)
        out = r.stdout
    except subprocess.TimeoutExpired as e:
        out = (e.stdout or '') + '\nTIMEOUT'
    finally:
        fcntl.flock(lockf, fcntl.LOCK_UN); lockf.close()
    res = {'n': n, 'k': k, 'wall_s': round(time.time() - t0, 1), 'harnesses': {}, 'raw_tail': out[-1500:]}
    for m in re.finditer(r'Checking harness ([\w:]+)\.\.\.(.*?)(?=Checking harness|\Z)', out, flags=re.S):
        name = m.group(1); body = m.group(2)
        ok = 'VERIFICATION:- SUCCESSFUL' in body
        failed = re.findall(r'Check \d+: ([^\n]*)\n\s*- Status: FAILURE\n\s*- Description: "([^"]*)"', body)
        covers = re.findall(r'- Status: (SATISFIED|UNSATISFIABLE|UNREACHABLE)\n\s*- Description: "([^"]*)"', body)
        unwind_fail = [d for _, d in failed if 'unwinding assertion' in d]
        res['harnesses'][name] = {'successful': ok, 'failed_checks': [d for _, d in failed][:8], 'covers': covers, 'unwinding_failed': bool(unwind_fail),
                                  'checks': len(re.findall(r'^Check \d+:', body, flags=re.M)),
                                  'solver_s': sum(float(x) for x in re.findall(r'Runtime decision procedure: ([\d.]+)s', body))}
    m = re.search(r'Complete - (\d+) successfully verified harnesses, (\d+) failures', out)
    res['summary'] = m.group(0) if m else 'no summary (kani did not finish: %s)' % out[-300:].replace('\n', ' | ')
    return res
