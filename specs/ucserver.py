"""Under-constrained execution of the server's handler functions (glas::server) and of AnalysisHost / Analysis (ide):
lock-discipline obligations (C16), snapshot/cancellation obligations (C12) and the didChange loop over the real Vfs (C15b).

Every callee that is not on the allow-list returns an unconstrained (lazily shaped) value; RwLock guards are tracked
from `write()/read()` to the MIR `drop` (or `mem::drop`) that releases them; logging macros are stubbed as disabled."""
import re
import z3
from mirsym.values import *
from mirsym import models
from . import vfsk, vfsspecs


class GuardV:
    __slots__ = ('lock', 'mode', 'released', 'site')

    def __init__(s, lock, mode, site):
        s.lock = lock; s.mode = mode; s.released = False; s.site = site

    def __repr__(s):
        return 'Guard<%s %s%s>' % (s.mode, s.lock, ' released' if s.released else '')


def lock_id(v):
    v = models.deref(v)
    if isinstance(v, LazyV):
        return v.tag
    return repr(type(v))


class Locks:
    """per-interpreter lock state; findings are collected, not raised (the path continues)"""

    def __init__(self, it, protected=None):
        self.it = it; self.guards = []; self.findings = []; self.protected = protected or {}
        self.events = []

    def reset(self):
        self.guards = []; self.findings = []; self.events = []

    def live(self, lock=None):
        return [g for g in self.guards if not g.released and (lock is None or g.lock == lock)]

    def acquire(self, lockv, mode):
        lid = lock_id(lockv)
        held = self.live(lid)
        if held and (mode == 'write' or any(g.mode == 'write' for g in held)):
            self.findings.append('L2: %s-locks %s while a %s guard of the same lock taken in %s is still live (self-deadlock)' % (mode, lid, held[0].mode, held[0].site))
        elif held:
            # std::sync::RwLock: "this function might panic [or deadlock] when called if the lock is already held by the current thread":
            # a writer that queues up between the two reads blocks the second read while the first guard is still held
            self.findings.append('L2: read-locks %s again while a read guard of the same lock taken in %s is still live: a writer (didChange) queued in between deadlocks with this thread' % (lid, held[0].site))
        g = GuardV(lid, mode, self.it.stack[-1] if self.it.stack else '?')
        self.guards.append(g); self.events.append(('acquire', lid, mode, g.site))
        return g

    def release(self, g):
        if not g.released:
            g.released = True; self.events.append(('release', g.lock, g.mode, self.it.stack[-1] if self.it.stack else '?'))

    def data(self, g):
        if g.lock not in self.protected:
            self.protected[g.lock] = LazyV('data-of-' + g.lock)
        cell = self.protected.setdefault(('cell', g.lock), [self.protected[g.lock]])
        return RefV(cell, 0)


def install(it, locks):
    M = it.models
    M['RwLock::write'] = lambda it_, c, a: ok(locks.acquire(a[0], 'write'))
    M['RwLock::read'] = lambda it_, c, a: ok(locks.acquire(a[0], 'read'))

    def guard_deref(it_, c, a):
        g = models.deref(a[0])
        if isinstance(g, GuardV):
            if g.released:
                locks.findings.append('use of a released guard')
            return locks.data(g)
        return NotImplemented
    for k in ('<RwLockWriteGuard as DerefMut>::deref_mut', '<RwLockWriteGuard as Deref>::deref', '<RwLockReadGuard as Deref>::deref'):
        M[k] = guard_deref
    old_drop = M.get('mem::drop')

    def mem_drop(it_, c, a):
        v = a[0]
        if isinstance(v, GuardV):
            locks.release(v)
        return UNIT
    M['mem::drop'] = mem_drop
    M['<Arc as Deref>::deref'] = lambda it_, c, a: a[0]
    M['<Arc as Clone>::clone'] = lambda it_, c, a: models.deref(a[0])
    # logging / tracing: disabled
    M['<Level as PartialOrd>::le'] = lambda it_, c, a: BoolV(False)
    M['<Level as PartialOrd>::lt'] = lambda it_, c, a: BoolV(False)
    M['dispatcher::has_been_set'] = lambda it_, c, a: BoolV(True)
    M['log::max_level'] = lambda it_, c, a: IntV(0, 16, 0)

    def on_drop(ref, frame, body, place):
        try:
            v = ref.get()
        except Exception:
            return
        stack = [v]; n = 0
        while stack and n < 50:
            x = stack.pop(); n += 1
            if isinstance(x, GuardV):
                locks.release(x)
            elif isinstance(x, Agg):
                stack.extend(x.fields)
    it.on_drop = on_drop

    def hook(it_, callee, args):
        short = callee.split('(')[0]
        if short.endswith('AnalysisHost::apply_change') or short.endswith('::apply_vfs_change'):
            live = locks.live()
            if live:
                locks.findings.append('L1: %s is entered while a %s guard of %s (taken in %s) is live: applying a change waits for all snapshots, '
                                      'and a worker holding a snapshot may be waiting for this lock' % (short.split('::')[-1], live[0].mode, live[0].lock, live[0].site))
            locks.events.append(('call', short.split('::')[-1], len(live), ''))
    it.call_hooks.append(hook)


SERVER_ALLOW = [r'^server::<impl at [^>]*>::(on_did_change|on_did_open|set_vfs_file_content|apply_vfs_change|spawn_with_snapshot|spawn_update_\w+|on_did_change_watched_files|on_did_close)$',
                r'^server::<impl at [^>]*>::(on_did_change|on_did_open|set_vfs_file_content|apply_vfs_change|spawn_update_\w+|on_did_close)::\{closure#\d+\}$']


class LockSpec:
    """one handler of glas::server::Server, under-constrained, with k content changes (for on_did_change)"""

    def __init__(self, fn, nchanges=2):
        self.fn = fn; self.nchanges = nchanges

    def make_interp(self):
        it = vfsk.W.interp('glas', uc=True)
        it.allow = SERVER_ALLOW
        self.locks = Locks(it)
        install(it, self.locks)
        if self.fn == 'on_did_change_watched_files':
            # compositional: set_vfs_file_content is a handler of its own run (entered with no guard live, it write-locks the Vfs and applies the
            # change); here it is a callee that must be ENTERED with no guard live - following it again would multiply its 2 000 paths by the
            # paths of the file-event loop
            it.allow = [a.replace('set_vfs_file_content|', '') for a in SERVER_ALLOW]
            locks = self.locks

            def hook(it_, callee, args):
                short = callee.split('(')[0]
                if short.endswith('::set_vfs_file_content'):
                    live = locks.live()
                    if live:
                        locks.findings.append('L1: set_vfs_file_content (which write-locks the Vfs and applies the change) is entered while a %s guard of %s (taken in %s) is live' % (live[0].mode, live[0].lock, live[0].site))
                    locks.events.append(('call', 'set_vfs_file_content', len(live), ''))
            it.call_hooks.append(hook)
        # the set of open documents is not empty: iterating the keys of the (under-constrained) opened_files map yields one document
        base_keys = it.models.get('HashMap::keys')

        def keys(it_, c, a):
            if isinstance(models.deref(a[0]), LazyV):
                return PyIter(iter([RefV([LazyV('an-open-document')], 0)]))
            return base_keys(it_, c, a) if base_keys else NotImplemented
        it.models['HashMap::keys'] = keys
        return it

    def run_path(self, it):
        self.locks.reset(); self.locks.protected = {}
        body = [b for n, b in vfsk.W.crates['glas'].items() if re.search(r'^server::<impl at [^>]*>::%s$' % self.fn, n)][0]
        srv = LazyV('server')
        args = [RefV([srv], 0)]
        if self.fn == 'on_did_change_watched_files':
            # one file event for a file that is NOT open (the handler skips open ones); both open documents are "other" documents
            self.named = Opaque('uri-of-an-open-document')
            params = Agg('struct', 'DidChangeWatchedFilesParams', None, [VecV([Agg('struct', 'FileEvent', None, [Opaque('uri-of-the-changed-file'), LazyV('typ')])])])
            args.append(params)
        elif self.fn == 'on_did_change':
            changes = [Agg('struct', 'TextDocumentContentChangeEvent', None, [LazyV('range%d' % i), LazyV('range_length%d' % i), LazyV('text%d' % i)]) for i in range(self.nchanges)]
            params = Agg('struct', 'DidChangeTextDocumentParams', None, [Agg('struct', 'VersionedTextDocumentIdentifier', None, [LazyV('uri'), LazyV('version')]), VecV(changes)])
            args.append(params)
        elif len(body.args) > 1:
            for (l, ty) in body.args[1:]:
                args.append(LazyV('arg' + l))
        r = it.run_body(body, args)
        bad = list(self.locks.findings)
        left = self.locks.live()
        if left:
            bad.append('a %s guard of %s taken in %s is still live when the handler returns' % (left[0].mode, left[0].lock, left[0].site))
        calls = [t[0].split('(')[0] for t in it.trace]
        ev = self.locks.events
        if self.fn == 'on_did_change':
            applied = any(c.endswith('Vfs::change_file_content') for c in calls)
            diag = any(e[0] == 'call' and False for e in ev) or any(re.search(r'spawn_update_\w*diagnostics', c) for c in calls) or any('spawn_with_snapshot' in s for t in it.trace for s in t[3]) or \
                any(c.endswith('task::spawn_blocking') or c.endswith('::snapshot') for c in calls)
            if applied and not diag:
                bad.append('L4: a change was applied but no diagnostics task is spawned afterwards')
            if isinstance(r, Agg) and r.variant != 'Continue':
                bad.append('the handler does not return ControlFlow::Continue')
        if self.fn == 'spawn_with_snapshot':
            snap = [t for t in it.trace if t[0].split('(')[0].endswith('AnalysisHost::snapshot')]
            spawn = [t for t in it.trace if 'spawn_blocking' in t[0]]
            if not snap or not spawn:
                bad.append('L3: spawn_with_snapshot does not take a snapshot and hand it to a blocking task')
            else:
                between = it.trace[it.trace.index(snap[0]) + 1:it.trace.index(spawn[0])]
                risky = [t[0] for t in between if re.search(r'apply_change|RwLock|Mutex|recv|await|join', t[0])]
                if risky:
                    bad.append('L3: the snapshot is held across %s before it is moved into the blocking task' % risky[0][:60])
        sig = ' '.join('%s:%s' % (e[0][0], e[1][-12:]) for e in ev)[:120]
        rec = {'cls': 'ok', 'ok': True, 'sample': {'handler': self.fn, 'lock_events': [list(e) for e in ev][:12], 'havoc_calls': len(it.trace)}}
        if bad:
            rec.update({'cls': 'violation', 'ok': False, 'why': ['C16: ' + b for b in bad], 'cex': {'handler': self.fn, 'lock_events': [list(e) for e in ev][:16]}})
        else:
            rec['cls'] = 'ok:%d-lock-events' % len([e for e in ev if e[0] != 'call'])
        return rec


    def on_panic(self, it, e):
        # panics reached only because a havoc'd callee returned None / Err are not lock-discipline findings (and not claimed)
        bad = list(self.locks.findings)
        rec = {'cls': 'panic-under-havoc:' + e.kind, 'ok': True}
        if bad:
            rec.update({'cls': 'violation', 'ok': False, 'why': ['C16: ' + b for b in bad], 'cex': {'handler': self.fn, 'lock_events': [list(x) for x in self.locks.events][:16]}})
        return rec


def lock_factory(fn, nchanges):
    return LockSpec(fn, nchanges)


class ConvergeSpec:
    """L6 (convergence of published diagnostics): AnalysisHost::apply_change cancels the running queries of EVERY snapshot, so the
    diagnostics task of every other open document dies with an edit (and its result may change with it).  After on_did_change /
    on_did_open a diagnostics task must therefore have been (re)spawned for every open document, not only for the one the
    notification names.  The server is under-constrained; its opened_files map holds two documents."""

    def __init__(self, fn):
        self.fn = fn

    def make_interp(self):
        it = vfsk.W.interp('glas', uc=True)
        # every method of the Server impl is followed (helpers a fix may introduce included), except the one whose calls are the obligation
        it.allow = [r'^server::<impl at [^>]*>::(?!spawn_update_diagnostics$|spawn_with_snapshot$|spawn_reload_config$|on_initialize|load_package_files$|assemble_graph$)\w+$',
                    r'^server::<impl at [^>]*>::(?!spawn_update_diagnostics::|on_did_change_watched_files::)\w+::\{closure#\d+\}$']   # (the file-reading closure is I/O: havoc'd)
        self.locks = Locks(it)
        install(it, self.locks)
        self.other = Opaque('uri-of-the-other-open-document')
        spec = self
        base_keys = it.models.get('HashMap::keys')

        def keys(it_, c, a):
            if isinstance(models.deref(a[0]), LazyV):
                spec.asked_keys = True
                return PyIter(iter([RefV([spec.named], 0), RefV([spec.other], 0)]))
            return base_keys(it_, c, a) if base_keys else NotImplemented
        it.models['HashMap::keys'] = keys
        it.models['<Url as Clone>::clone'] = lambda it_, c, a: models.deref(a[0])
        return it

    def run_path(self, it):
        self.locks.reset(); self.locks.protected = {}
        self.asked_keys = False
        body = [b for n, b in vfsk.W.crates['glas'].items() if re.search(r'^server::<impl at [^>]*>::%s$' % self.fn, n)][0]
        self.named = Opaque('uri-of-the-notification')
        srv = LazyV('server')
        if self.fn == 'on_did_change_watched_files':
            # one file event for a file that is NOT open (the handler skips open ones); both open documents are "other" documents
            self.named = Opaque('uri-of-an-open-document')
            params = Agg('struct', 'DidChangeWatchedFilesParams', None, [VecV([Agg('struct', 'FileEvent', None, [Opaque('uri-of-the-changed-file'), LazyV('typ')])])])
        elif self.fn == 'on_did_change':
            changes = [Agg('struct', 'TextDocumentContentChangeEvent', None, [LazyV('range0'), LazyV('range_length0'), LazyV('text0')])]
            params = Agg('struct', 'DidChangeTextDocumentParams', None, [Agg('struct', 'VersionedTextDocumentIdentifier', None, [self.named, LazyV('version')]), VecV(changes)])
        else:
            params = Agg('struct', 'DidOpenTextDocumentParams', None, [Agg('struct', 'TextDocumentItem', None, [self.named, LazyV('lang'), LazyV('version'), LazyV('text')])])
        r = it.run_body(body, [RefV([srv], 0), params])
        calls = [t for t in it.trace if t[0].split('(')[0].endswith('spawn_update_diagnostics')]
        applied = any(t[0].split('(')[0].endswith(('apply_vfs_change', 'AnalysisHost::apply_change')) for t in it.trace) or any(e[0] == 'call' for e in self.locks.events)
        uris = [models.deref(t[1][1]) for t in calls if len(t[1]) > 1]
        rec = {'cls': 'no-change-applied', 'ok': True}
        if applied:
            covers_other = any(u is self.other for u in uris)
            covers_named = any(u is self.named for u in uris)
            rec = {'cls': 'respawned:%s%s' % ('named' if covers_named else '', '+others' if covers_other else ''), 'ok': True,
                   'sample': {'handler': self.fn, 'diagnostics_tasks': len(calls), 'covers_other_open_documents': covers_other}}
            if not covers_other:
                rec.update({'cls': 'violation', 'ok': False, 'cex': {'handler': self.fn, 'diagnostics_tasks_for': ['the named document' if u is self.named else str(u) for u in uris]},
                            'why': ['C16: L6: %s applies a change (which cancels the diagnostics computation of every open document) but re-spawns diagnostics only for %s: '
                                    'another open document whose task was cancelled is left without the diagnostics of its text until its next edit' % (self.fn, 'the document it names' if covers_named else 'no document')]})
        return rec

    def on_panic(self, it, e):
        return {'cls': 'panic-under-havoc:' + e.kind, 'ok': True}


def converge_factory(fn):
    return ConvergeSpec(fn)


class NonFileOpenSpec:
    """C15 "non-file URIs": Server::on_did_open / set_vfs_file_content for a document whose URI is NOT a file path (`untitled:Untitled-1`,
    what editors send for unsaved buffers).  to_vfs_path answers VfsPath::Virtual (decided for the real code by the C15 to_vfs_path
    kernel); VfsPath::as_path runs on its real MIR; the rest of the server is under-constrained.  Notification handlers have no panic
    guard, so any panic on these paths takes the server down."""

    def make_interp(self):
        it = WGI.interp('glas', uc=True)
        it.allow = [r'^server::<impl at [^>]*>::(on_did_open|set_vfs_file_content|apply_vfs_change)$', r'^server::<impl at [^>]*>::(on_did_open|set_vfs_file_content)::\{closure#\d+\}$',
                    r'^base::<impl at [^>]*>::as_path$']
        self.locks = Locks(it)
        install(it, self.locks)
        it.models['UrlExt::to_vfs_path'] = it.models['<Url as UrlExt>::to_vfs_path'] = lambda it_, c, a: Agg('enum', 'VfsPath', 'Virtual', [StringV([IntV(x, 8, 0) for x in b'untitled:Untitled-1'])])
        it.models['<VfsPath as Clone>::clone'] = lambda it_, c, a: dcopy(models.deref(a[0]))
        return it

    def run_path(self, it):
        self.locks.reset(); self.locks.protected = {}
        body = [b for n, b in WGI.crates['glas'].items() if re.search(r'^server::<impl at [^>]*>::on_did_open$', n)][0]
        params = Agg('struct', 'DidOpenTextDocumentParams', None, [Agg('struct', 'TextDocumentItem', None, [LazyV('uri'), LazyV('lang'), LazyV('version'), LazyV('text')])])
        it.run_body(body, [RefV([LazyV('server')], 0), params])
        return {'cls': 'opened', 'ok': True, 'sample': {'uri': 'untitled:Untitled-1'}}

    def on_panic(self, it, e):
        top = [f for f in e.stack if 'set_vfs_file_content' in f or 'on_did_open' in f]
        if e.kind in ('unwrap-none', 'expect-none', 'unwrap-err', 'explicit-panic') and top and not self._havoc_induced(it, e):
            return {'cls': 'violation', 'ok': False, 'cex': {'uri': 'untitled:Untitled-1'},
                    'why': ['C15: didOpen of a document with a non-file URI (untitled:Untitled-1) panics in %s (%s %s): notification handlers have no panic guard, the server process dies' % (top[-1].split('::')[-1], e.kind, e.msg)]}
        return {'cls': 'panic-under-havoc:' + e.kind, 'ok': True}

    def _havoc_induced(self, it, e):
        """the unwrapped value was an unconstrained one (then the panic is an artefact of under-constraining)"""
        return bool(getattr(it, 'last_unwrap_lazy', True))


def nonfile_factory():
    return NonFileOpenSpec()


WGI = None


# ------------------------------------------------------------------------------------------------ C15b

DIDCHANGE_ALLOW = SERVER_ALLOW[:0] + [r'^server::<impl at [^>]*>::on_did_change$', r'^server::<impl at [^>]*>::on_did_change::\{closure#\d+\}$',
                                      r'^server::<impl at [^>]*>::spawn_update_diagnostics$',
                                      r'^vfs::<impl at [^>]*>::(change_file_content|normalize|pos_for_line_col|line_col_for_pos|last_line|end_col_for_line|line_map_for_file|content_for_file|remove_uri)',
                                      r'^convert::(from_range|from_pos)$']


class DidChangeSpec:
    """Server::on_did_change with the REAL Vfs (one open document of n symbolic bytes) and `changes` incremental changes
    (4 arbitrary u32 + k symbolic bytes each); compared with applying the same changes one by one through the kernel
    (convert::from_range + Vfs::change_file_content, decided against the reference client by C13/C15a)."""

    def __init__(self, n, k, changes=2, full_first=False):
        self.n = n; self.k = k; self.changes = changes; self.full_first = full_first

    def is_full(self, e):
        """full_first: True = the first change is a full-text one; an int i >= 1 = change number i is (a ranged one before it may have been rejected)"""
        if self.full_first is True:
            return e == 0
        return self.full_first is not False and e == self.full_first

    def make_interp(self):
        it = vfsk.W.interp('glas', uc=True)
        vfsk.install_models(it); vfsk.install_vfs_models(it)
        it.allow = DIDCHANGE_ALLOW
        self.locks = Locks(it)
        install(it, self.locks)
        it.models['Vfs::file_for_uri'] = lambda it_, c, a: ok(vfsspecs.FILE0())
        it.models['FileSet::remove_file'] = lambda it_, c, a: UNIT
        # Server::opened_files (a HashMap<Url, FileData> inside the unconstrained server): one entry, for the open document
        self.opened = {'present': True}
        base_remove = it.models.get('HashMap::remove'); base_get_mut = it.models.get('HashMap::get_mut')

        def hm_remove(it_, c, a):
            if isinstance(models.deref(a[0]), LazyV):
                was = self.opened['present']; self.opened['present'] = False
                return some(LazyV('filedata')) if was else none()
            return base_remove(it_, c, a)

        def hm_get_mut(it_, c, a):
            if isinstance(models.deref(a[0]), LazyV):
                return some(RefV([LazyV('filedata')], 0)) if self.opened['present'] else none()
            return base_get_mut(it_, c, a)
        it.models['HashMap::remove'] = hm_remove
        it.models['HashMap::get_mut'] = hm_get_mut
        it.models['HashMap::get'] = hm_get_mut
        self.bs = [z3.BitVec('b%d' % i, 8) for i in range(self.n)]
        for c in vfsk.doc_constraints(self.bs):
            it.solver.add(c)
        self.ins = []; self.pos = []
        for e in range(self.changes):
            ins = [z3.BitVec('i%d_%d' % (e, i), 8) for i in range(self.k)]
            for c in vfsk.doc_constraints(ins, allow_cr=True, crlf_only=False):
                it.solver.add(c)
            self.ins.append(ins)
            self.pos.append([z3.BitVec('%s_%d' % (nm, e), 32) for nm in ('l1', 'c1', 'l2', 'c2')])
        return it

    def witness(self, it, m=None):
        m = m or it.get_model()
        return {'doc': vfsk.eval_bytes(m, self.bs).hex(),
                'changes': [{'range': (None if self.is_full(e) else [m.eval(p, model_completion=True).as_long() for p in self.pos[e]]),
                             'text': vfsk.eval_bytes(m, self.ins[e]).hex()} for e in range(self.changes)]}

    def _changes(self):
        out = []
        for e in range(self.changes):
            l1, c1, l2, c2 = [IntV(p, 32, 0) for p in self.pos[e]]
            rng = none() if self.is_full(e) else some(vfsk.lsp_range(l1, c1, l2, c2))
            out.append(Agg('struct', 'TextDocumentContentChangeEvent', None, [rng, none(), StringV([IntV(b, 8, 0) for b in self.ins[e]])]))
        return out

    def run_path(self, it):
        self.locks.reset()
        self.opened['present'] = True
        text, lm = vfsk.normalize(it, [IntV(b, 8, 0) for b in self.bs])
        vfsA = vfsk.mk_vfs(StrSym(list(text.b)), lm)
        self.locks.protected = {}
        srv = LazyV('server')
        self.locks.protected[lock_id(srv.kid((None, 0)))] = vfsA          # placeholder, replaced below by first acquire
        # every RwLock<Vfs> of the server protects vfsA
        locks = self.locks
        locks.data = lambda g: RefV([vfsA], 0)
        body = [b for n, b in vfsk.W.crates['glas'].items() if re.search(r'^server::<impl at [^>]*>::on_did_change$', n)][0]
        params = Agg('struct', 'DidChangeTextDocumentParams', None, [Agg('struct', 'VersionedTextDocumentIdentifier', None, [LazyV('uri'), LazyV('version')]), VecV(self._changes())])
        r = it.run_body(body, [RefV([srv], 0), params])
        bad = ['C16: ' + f for f in locks.findings]
        # reference: the same changes one at a time through the kernel; stop at the first rejected one (document forgotten)
        text2, lm2 = vfsk.normalize(it, [IntV(b, 8, 0) for b in self.bs])
        vfsB = vfsk.mk_vfs(StrSym(list(text2.b)), lm2); cellB = [vfsB]
        forgotten = False
        for e in range(self.changes):
            ins = StrSym([IntV(b, 8, 0) for b in self.ins[e]])
            if self.is_full(e):
                rr = it.run_body(vfsk.body('::change_file_content'), [RefV(cellB, 0), vfsspecs.FILE0(), none(), ins])
                okk = models.shape(it, rr, ['Ok', 'Err'])[0] == 'Ok'
            else:
                l1, c1, l2, c2 = [IntV(p, 32, 0) for p in self.pos[e]]
                rr = it.run_body(vfsk.body('convert::from_range'), [RefV(cellB, 0), vfsspecs.FILE0(), vfsk.lsp_range(l1, c1, l2, c2)])
                var, pay = models.shape(it, rr, ['Ok', 'Err'])
                okk = False
                if var == 'Ok':
                    r2 = it.run_body(vfsk.body('::change_file_content'), [RefV(cellB, 0), vfsspecs.FILE0(), some(pay.fields[1]), ins])
                    okk = models.shape(it, r2, ['Ok', 'Err'])[0] == 'Ok'
            if not okk:
                forgotten = True; break
        entA = vfsA.fields[0].entries[0]; entB = cellB[0].fields[0].entries[0]
        if forgotten:
            if entA is not None:
                bad.append('C15: a change could not be applied but the document is not forgotten')
        else:
            if entA is None:
                bad.append('C15: all changes can be applied one by one but the handler forgot the document')
            else:
                ta = entA.fields[0].b; tb = entB.fields[0].b
                if len(ta) != len(tb):
                    bad.append('C13: after the notification the server text has %d bytes, applying the changes one by one gives %d' % (len(ta), len(tb)))
                else:
                    diffs = [x.z() != y.z() for x, y in zip(ta, tb) if not (isinstance(x.v, z3.ExprRef) and isinstance(y.v, z3.ExprRef) and x.v.eq(y.v)) and not (not x.sym() and not y.sym() and x.v == y.v)]
                    if diffs:
                        rr, m = it.check(z3.Or(diffs))
                        if rr == z3.sat:
                            self._cex = self.witness(it, m)
                            bad.append('C13: several changes in one notification give a different text than the same changes applied one by one: %s' % self._cex)
        if isinstance(r, Agg) and r.variant != 'Continue':
            bad.append('C15: on_did_change does not return ControlFlow::Continue')
        rec = {'cls': 'forgotten' if forgotten else 'applied', 'ok': True}
        w = getattr(self, '_cex', None) or self.witness(it); self._cex = None
        if bad:
            rec.update({'cls': 'violation', 'ok': False, 'why': bad, 'cex': w})
        else:
            rec['sample'] = dict(w, outcome=rec['cls'])
        return rec

    def on_panic(self, it, e):
        return {'cls': 'panic:' + e.kind, 'ok': False, 'why': ['C15: Server::on_did_change panics (%s) - the notification handler has no panic guard, the server dies' % e],
                'cex': self.witness(it), 'panic': {'kind': e.kind, 'msg': e.msg, 'stack': list(e.stack[-4:])}}


def didchange_factory(n, k, changes, full_first):
    return DidChangeSpec(n, k, changes, full_first)


# ------------------------------------------------------------------------------------------------ request handlers (C16 L5)

class HandlerSpec:
    """a request handler of glas::handler, under-constrained: whenever a query on the snapshot reports cancellation (Err),
    the handler must answer with an error - not with a (wrong) result for no version of the document"""

    def __init__(self, fn):
        self.fn = fn

    def make_interp(self):
        it = vfsk.W.interp('glas', uc=True)
        it.allow = [r'^handler::%s$' % self.fn, r'^handler::%s::\{closure#\d+\}$' % self.fn, r'^server::<impl at [^>]*>::vfs$']
        self.locks = Locks(it)
        install(it, self.locks)
        return it

    def run_path(self, it):
        self.locks.reset()
        body = vfsk.W.crates['glas']['handler::' + self.fn]
        args = [LazyV('snap')] + [LazyV('arg%d' % i) for i in range(len(body.args) - 1)]
        r = it.run_body(body, args)
        acalls = [t for t in it.trace if re.search(r'ide::Analysis::\w+$', t[0].split('(')[0].split('::<')[0])]
        cancelled = False
        for t in acalls:
            res = t[2]
            if res.disc is not None:
                rr, _ = it.check(res.discriminant() != 1)
                if rr != z3.sat:
                    cancelled = True
        var = None
        if isinstance(r, Agg):
            var = r.variant
        elif isinstance(r, LazyV) and r.disc is not None:
            rr, _ = it.check(r.discriminant() != 1)
            var = 'Err' if rr != z3.sat else 'Ok?'
        rec = {'cls': 'cancelled->%s' % var if cancelled else 'not-cancelled', 'ok': True, 'sample': {'handler': self.fn, 'analysis_calls': [t[0].split('(')[0][-40:] for t in acalls][:3], 'cancelled': cancelled, 'returns': var}}
        if cancelled and var != 'Err':
            rec.update({'cls': 'violation', 'ok': False, 'why': ['C16: L5: handler::%s answers %s although the query on its snapshot was cancelled (the answer belongs to no version of the document)' % (self.fn, var)],
                        'cex': {'handler': 'handler::' + self.fn, 'lock_events': []}})
        lf = [f for f in self.locks.findings if f.startswith('L2')]
        if lf:
            rec.update({'cls': 'violation', 'ok': False, 'why': rec.get('why', []) + ['C16: handler::%s: %s' % (self.fn, lf[0])], 'cex': {'handler': 'handler::' + self.fn, 'lock_events': [list(e) for e in self.locks.events][:8]}})
        return rec

    def on_panic(self, it, e):
        return {'cls': 'panic-under-havoc:' + e.kind, 'ok': True}


def handler_factory(fn):
    return HandlerSpec(fn)


def request_handlers():
    return sorted(n.split('::')[1] for n, b in vfsk.W.crates['glas'].items() if re.match(r'^handler::\w+$', n) and b.header.startswith('fn '))
