"""C14 — positions mean the same thing to the server and to an LSP client (bounded, solver-decided)."""
import os, json
from . import vfsrun, vfsk
from .runner import Check

BOUNDS = {'quick': {'doc': 7, 'doc_release': 5}, 'thorough': {'doc': 9, 'doc_release': 7}}


def main(tier, seed):
    chk = Check('C14', tier, seed)
    B = BOUNDS[tier]; jobs = int(os.environ.get('VERIF_JOBS', '16'))
    oracle = vfsrun.setup(chk)
    try:
        vfsrun.linemap_suite(chk, oracle, jobs, ['C14', 'C20', 'C19', 'C13/C14'], B['doc'])
        vfsk.W.cleanup()
        vfsk.load('release', log=chk.log)
        vfsrun.linemap_suite(chk, oracle, jobs, ['C14', 'C20', 'C19', 'C13/C14'], B['doc_release'], profile='release')
    finally:
        oracle.close(); vfsk.W.cleanup()
    chk.assumptions += vfsrun.ASSUMPTIONS; chk.trusted += vfsrun.TRUSTED
    return chk.finish()


def replay(path):
    d = json.load(open(path))
    chk = Check('C14-replay', 'quick', 0)
    oracle = vfsrun.setup(chk)
    print(json.dumps(oracle.ask('linemap', doc=d['cex']['doc']), indent=1))
    return 0
