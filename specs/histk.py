"""C11 native layer: edit histories over a two-package workspace template, chosen by z3, run through the PUBLIC ide API (oracle-ide `history`).

A workspace state is a point in a small product space (a text variant per module file, presence of an optional module, the dependency edge
between the two packages, the directory a module lives in).  A history is a start state plus n steps, each changing exactly one coordinate;
z3 enumerates EVERY history of the stated length (AllSAT over step variables with the `really changes something` constraints).  The long-lived
AnalysisHost receives only the delta Change of each step - changed texts, and roots / package graph when the layout changed - the way the
server produces them; after the checked states every answer of the public API (go-to-definition, references, highlight, hover, completion,
prepare-rename at every identifier token; diagnostics and semantic highlighting per file) is compared with a freshly started host that gets
the final workspace in one Change, and with a second fresh host that is asked in the opposite order.

This is executed code, not a solver verdict; a difference is by construction a native reproduction."""
import json
import z3

# text variants; the variants are chosen so that positional ids shift (a definition inserted before another one), exported names and
# types change, a file becomes empty / syntactically broken, and a module gains / loses a definition other modules refer to
A = [
    'import lib\nimport b\n\npub fn main() {\n  let x = lib.one()\n  b.twice(x)\n}\n',
    'import lib\nimport b\n\nfn helper(y) {\n  y\n}\n\npub fn main() {\n  let x = helper(lib.one())\n  b.twice(x)\n}\n',
    '',
    'import lib\nimport b.{twice}\n\npub type Box {\n  Box(v: Int)\n}\n\npub fn main() {\n  let x = Box(v: lib.one())\n  twice(x.v)\n}\n',
    # 4 / 5 / 6 differ in ONE module qualifier only (a type annotation, a call): a re-lowered item that compares equal to the old one is not recomputed
    'import lib\nimport b\n\npub fn adopt(p: lib.T) {\n  p.v\n}\n\npub fn pick() {\n  lib.one()\n}\n',
    'import lib\nimport b\n\npub fn adopt(p: b.T) {\n  p.v\n}\n\npub fn pick() {\n  lib.one()\n}\n',
    'import lib\nimport b\n\npub fn adopt(p: lib.T) {\n  p.v\n}\n\npub fn pick() {\n  b.one()\n}\n',
]
B = [
    'pub fn twice(n) {\n  n + n\n}\n',
    'pub fn zero() {\n  0\n}\n\npub fn twice(n) {\n  n * 2\n}\n',
    'pub fn twice(n: String) {\n  n\n}\n',
    'pub fn twice(n) {\n  n +\n',
    'pub type T {\n  T(v: String)\n}\n\npub fn one() {\n  "s"\n}\n\npub fn twice(n) {\n  n\n}\n',
    # a private function declared BEFORE the public one, mutually recursive with it, labelled arguments passed in the other order: the types of the
    # group must not depend on the order in which the definitions were interned (which module was asked first, which function was added by an edit)
    'fn helper(n) {\n  twice(second: n, first: "x") + 1\n}\n\npub fn twice(first a: String, second b: Int) {\n  helper(b)\n}\n',
]
L = [
    'pub fn one() {\n  1\n}\n',
    'pub type T {\n  T(v: Int)\n}\n\npub fn one() {\n  T(1)\n}\n',
    'pub fn one() {\n  "s"\n}\n',
    'pub const k = 1\n\npub fn one() {\n  k\n}\n\npub fn two() {\n  one() + one()\n}\n',
]
C = 'import b\nimport a\n\npub fn use_it() {\n  b.twice(1)\n}\n\npub fn again() {\n  a.main()\n}\n'

# coordinates: (name, number of values)
COORDS = [('a', len(A)), ('b', len(B)), ('l', len(L)), ('c', 2), ('edge', 2), ('bdir', 2), ('twin', 2), ('extra', 2)]
# a third package that appears / disappears; its path sorts BEFORE the others although it is listed last (the numbering of the source roots
# follows the list the server sends, whatever the paths are), and no text of the other packages is re-sent with it
EXTRA = 'pub fn z() {\n  0\n}\n'
TWIN = 'pub fn twice(n) {\n  "twin"\n}\n'


def render(st):
    """st: dict coordinate -> value"""
    files = [{'id': 0, 'path': '/app/src/a.gleam', 'text': A[st['a']], 'root': 0},
             {'id': 1, 'path': '/app/src/b.gleam' if st['bdir'] == 0 else '/app/test/b.gleam', 'text': B[st['b']], 'root': 0},
             {'id': 2, 'path': '/dep/src/lib.gleam', 'text': L[st['l']], 'root': 1}]
    if st['c']:
        files.append({'id': 3, 'path': '/app/src/c.gleam', 'text': C, 'root': 0})
    if st.get('twin'):
        # a second file with the same module name as b (src/b.gleam and test/b.gleam are both `b`): which one an import reaches must not depend on chance
        files.append({'id': 4, 'path': '/app/test/b.gleam' if st['bdir'] == 0 else '/app/src/b.gleam', 'text': TWIN, 'root': 0})
    roots = [{'path': '/app', 'local': True, 'deps': [1] if st['edge'] else [], 'toml': 100},
             {'path': '/dep', 'local': False, 'deps': [], 'toml': 101}]
    if st.get('extra'):
        files.append({'id': 5, 'path': '/aaa/src/z.gleam', 'text': EXTRA, 'root': 2})
        roots.append({'path': '/aaa', 'local': True, 'deps': [], 'toml': 102})
    return {'files': files, 'roots': roots}


START = [{'a': 0, 'b': 0, 'l': 0, 'c': 0, 'edge': 1, 'bdir': 0, 'twin': 0, 'extra': 0},
         {'a': 3, 'b': 1, 'l': 3, 'c': 1, 'edge': 1, 'bdir': 0, 'twin': 0, 'extra': 0},
         {'a': 2, 'b': 3, 'l': 0, 'c': 1, 'edge': 0, 'bdir': 1, 'twin': 1, 'extra': 1},
         {'a': 4, 'b': 4, 'l': 1, 'c': 0, 'edge': 1, 'bdir': 0, 'twin': 0, 'extra': 0}]


def all_histories(start, n, limit=None, seed=0):
    """every history of exactly n steps from `start` in which each step changes exactly one coordinate to a different value (z3 AllSAT).
    returns (list of state lists, solver queries)"""
    s = z3.Solver()
    if seed:
        s.set('random_seed', seed)
    names = [c for c, _ in COORDS]
    cur = {c: z3.BitVecVal(start[c], 3) for c in names}
    steps = []
    for i in range(n):
        co = z3.BitVec('coord%d' % i, 4); va = z3.BitVec('val%d' % i, 3)
        s.add(z3.ULT(co, len(COORDS)))
        for j, (c, k) in enumerate(COORDS):
            s.add(z3.Implies(co == j, z3.And(z3.ULT(va, k), va != cur[c])))
        cur = {c: z3.If(co == j, va, cur[c]) for j, (c, _) in enumerate(COORDS)}
        steps.append((co, va))
    out = []; nq = 0
    while True:
        nq += 1
        if s.check() != z3.sat:
            break
        m = s.model()
        vals = [(m.eval(co, model_completion=True).as_long(), m.eval(va, model_completion=True).as_long()) for co, va in steps]
        st = dict(start); states = [dict(st)]
        for co, va in vals:
            st[names[co]] = va
            states.append(dict(st))
        out.append(states)
        s.add(z3.Or([z3.Or(co != c0, va != v0) for (co, va), (c0, v0) in zip(steps, vals)]))
        if limit and len(out) >= limit:
            break
    return out, nq


def describe(states):
    d = []
    for p, q in zip(states, states[1:]):
        ch = [(k, p[k], q[k]) for k in p if p[k] != q[k]]
        d.append('%s: %d -> %d' % ch[0] if ch else 'no change')
    return '%s ; then %s' % (json.dumps(states[0], sort_keys=True), ', '.join(d))


MODES = [('queries after every change', lambda n: [True] * (n + 1), False, False),
         ('no query before the last change', lambda n: [False] * n + [True], False, False),
         ('queries only at the start and at the end, layout re-sent with every change', lambda n: [True] + [False] * (n - 1) + [True] if n else [True], True, False),
         ('queries after every change, every changed text queued twice in its Change (an intermediate text first)', lambda n: [True] * (n + 1), False, True),
         ('queries after every change, every unchanged file edited and restored inside the Change (a draft text, then the text it had)', lambda n: [True] * (n + 1), False, 'undo')]


def run_history(oracle, states):
    """-> (problems, answers compared)"""
    problems = []; answers = 0
    wss = [render(s) for s in states]
    for label, chk, always, double in MODES:
        r = oracle.ask('history', json.dumps({'states': wss, 'check': chk(len(states) - 1), 'always_structure': always, 'double_writes': double}))
        if not isinstance(r, dict) or 'diffs' not in r:
            problems.append('history %s (%s): the oracle answers %s' % (describe(states), label, str(r)[:300]))
            continue
        answers += r['answers']
        for d in r['diffs'][:2]:
            if 'incremental' in d:
                problems.append('history %s (%s): after change %d the answer %s is %s, a freshly started analysis of the same workspace gives %s'
                                % (describe(states), label, d['state'], d['key'], json.dumps(d['incremental'])[:300], json.dumps(d['fresh'])[:300]))
            else:
                problems.append('state %s: two fresh analyses disagree on %s depending on the order of the queries: %s vs %s'
                                % (json.dumps(states[d['state']], sort_keys=True), d['key'], json.dumps(d['fresh'])[:300], json.dumps(d['fresh_reverse'])[:300]))
    return problems, answers
