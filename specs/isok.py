"""C12 native layer: snapshot isolation and prompt changes under real threads, through the PUBLIC ide API (oracle-ide `isolation`).

For every pair (before, after) of workspace states of the C11 history template that differ in one coordinate (z3-enumerated one-step histories
from the four start states) and every delay of a fixed ladder: a fresh AnalysisHost loaded with `before`; three threads, each on its own
snapshot, ask every public query (two in document order, one in reverse); the main thread applies the delta Change to `after` that many
microseconds after they started.  Obligations on what is OBSERVED: every answer a thread got is either the answer of the pre-change
workspace or a cancellation - never the post-change answer, a mixture, another value or a panic; apply_change returns within the stated
bound although the snapshots are busy; a snapshot taken afterwards answers like a fresh analysis of `after`.

Real threads and real timing: the schedules explored are the ones these delays produce on this machine - executed code, not a solver verdict
(Kani has no threads, salsa's runtime is out of reach; the solver-decided part of C12 are the obligations O1-O4)."""
import json
from . import histk

DELAYS = [0, 50, 150, 400, 1000, 2500, 6000, 15000]
APPLY_BOUND_MS = 2000


def pairs():
    out = []; nq = 0
    for st in histk.START:
        hs, q = histk.all_histories(st, 1)
        nq += q
        out += [(h[0], h[1]) for h in hs]
    return out, nq


def run_pair(oracle, before, after, threads=3):
    r = oracle.ask('isolation', json.dumps({'before': histk.render(before), 'after': histk.render(after), 'threads': threads, 'delays_us': DELAYS}))
    if not isinstance(r, dict) or 'problems' not in r:
        return ['the oracle answers %s' % str(r)[:300]], 0, 0, 0
    probs = []
    what = 'workspace %s, change %s' % (json.dumps(before, sort_keys=True), ', '.join('%s: %s -> %s' % (k, before[k], after[k]) for k in before if before[k] != after[k]))
    for p in r['problems'][:3]:
        if p.get('thread') == 'after':
            probs.append('%s applied %d us after 3 snapshots started their queries: a snapshot taken AFTER the change answers %s with %s, a fresh analysis of the new workspace with %s'
                         % (what, p['delay_us'], p['key'], json.dumps(p['got'])[:200], json.dumps(p['fresh'])[:200]))
        else:
            kind = 'the answer of the NEW workspace' if p['got'] == p.get('post_change') and p['got'] != p.get('pre_change') else 'neither the pre-change answer nor a cancellation'
            probs.append('%s applied %d us after the snapshots started: a query running on a pre-change snapshot answers %s with %s - %s (pre-change: %s)'
                         % (what, p['delay_us'], p['key'], json.dumps(p['got'])[:200], kind, json.dumps(p.get('pre_change'))[:200]))
    if r['max_apply_ms'] > APPLY_BOUND_MS:
        probs.append('%s: apply_change took %d ms while snapshots were busy (bound %d ms)' % (what, r['max_apply_ms'], APPLY_BOUND_MS))
    return probs, r['answered'], r['cancelled'], r['max_apply_ms']
