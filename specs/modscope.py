"""Module-level name spaces: kernels over the real MIR with the salsa database havoc'd.

(a) C05 "values and types live in separate namespaces; qualified and unqualified imports (with aliases) reach the exporting module":
    def::scope::module_scope_with_map_query with ONE module import (alias present or absent) and ONE unqualified import whose resolution
    (ModuleScope::resolve_import, havoc'd) yields a symbolic (is_type_import, definition kind) pair.  Obligations on the scope built:
      - the module is registered under its alias if it has one, otherwise under its accessor, and under nothing else;
      - a `type` import of an Adt / TypeAlias lands in the type namespace only; a `type` import of anything else lands nowhere;
      - a value import never lands in the type namespace, and a value import of a function / constructor / constant lands in the values.
(b) C18 "the accessors of imported modules" are offered: ide::completion::complete_expr with one module import: the module is looked up
    under the same local accessor (alias, else accessor) the scope registered it under, and an item is rendered for it."""
import re, json, os
import z3
from mirsym.world import World
from mirsym.values import *
from mirsym import models
from . import scopes

W = None
KINDS = ['FunctionId', 'AdtId', 'VariantId', 'TypeAliasId', 'ModuleConstant']


def strs(v):
    v = models.deref(v)
    if isinstance(v, Agg) and v.name == 'SmolStr':
        v = v.fields[0]
    if isinstance(v, (StrSym, StringV)) and all(not b.sym() for b in v.b):
        return bytes(b.v for b in v.b).decode('utf-8', 'replace')
    return v.s if isinstance(v, StrV) else None


class ModuleScopeSpec:
    def make_interp(self):
        it = W.interp('ide', uc=True)
        it.allow = [r'^def::scope::module_scope_with_map_query$', r'^def::scope::module_scope_with_map_query::\{closure#\d+\}$', r'^def::scope::<impl at [^>]*>::default$',
                    r'^def::module::<impl at [^>]*>::local_name$']
        scopes.install(it)
        self.is_type = z3.Bool('is_type'); self.alias = z3.Bool('alias'); self.unq_alias = z3.Bool('unq_alias')
        self.kind = z3.BitVec('kind', 8)
        it.solver.add(z3.ULT(self.kind, len(KINDS)))
        spec = self

        def module_imports(it_, c, a):
            has = it_.choose([(spec.alias, True), (z3.Not(spec.alias), False)])
            spec.has_alias = has
            mi = Agg('struct', 'ModuleImport', None, [scopes.smol(StrV('pkg/mod')), scopes.smol(StrV('mod')), some(scopes.smol(StrV('ali'))) if has else none(), LazyV('ast_ptr')])
            return PyIter(iter([tup(scopes.idx(0), RefV([mi], 0))]))

        def unqualified_imports(it_, c, a):
            has = it_.choose([(spec.unq_alias, True), (z3.Not(spec.unq_alias), False)])
            spec.local = 'Loc' if has else 'Name'
            imp = Agg('struct', 'ImportData', None, [BoolV(spec.is_type), scopes.idx(0), some(scopes.smol(StrV('Loc'))) if has else none(), scopes.smol(StrV('Name')), LazyV('ast_ptr')])
            return PyIter(iter([tup(scopes.idx(0), RefV([imp], 0))]))

        def resolve_import(it_, c, a):
            k = it_.choose([(spec.kind == i, i) for i in range(len(KINDS))])
            spec.k = KINDS[k]
            val = Agg('enum', 'ModuleDefId', KINDS[k], [LazyV('id')])
            return VecV([tup(BoolV(spec.is_type), val)])
        it.models['ModuleItemData::module_imports'] = module_imports
        it.models['ModuleItemData::unqualified_imports'] = unqualified_imports
        it.models['ModuleScope::resolve_import'] = resolve_import
        it.models['Arc::new'] = lambda it_, c, a: a[0]
        return it

    def run_path(self, it):
        b = W.crates['ide']['def::scope::module_scope_with_map_query']
        self.has_alias = None; self.k = None; self.local = None
        r = it.run_body(b, [LazyV('db'), Agg('struct', 'FileId', None, [IntV(0, 32, 0)])])
        scope = models.deref(r.fields[0])
        if not isinstance(scope, Agg) or len(scope.fields) < 3:
            return {'cls': 'violation', 'ok': False, 'why': ['engine: the module scope is not a concrete value'], 'cex': {}}
        values, types, modules = [models.deref(f) for f in scope.fields[:3]]
        keys = lambda mp: [strs(k) for k, _ in mp.kv]
        bad = []
        fm = [t for t in it.trace if t[0].endswith('file_for_module_name')]
        found = None
        if fm:
            rr, _ = it.check(fm[0][2].discriminant() == 0)
            found = (rr != z3.sat)            # the imported module exists
        if self.has_alias is not None and found:
            want = 'ali' if self.has_alias else 'mod'
            if keys(modules) != [want]:
                bad.append('C05/C18: `import pkg/mod%s` registers the module under %s, Gleam binds it to `%s`' % (' as ali' if self.has_alias else '', keys(modules), want))
        if self.k is not None:
            rt, _ = it.check(self.is_type); rv, _ = it.check(z3.Not(self.is_type))
            if rt == z3.sat and rv == z3.sat:
                bad.append('engine: import flag undecided on the path')
            is_type = (rt == z3.sat)
            inv, int_ = self.local in keys(values), self.local in keys(types)
            what = '`import mod.{%s%s%s}` resolving to a %s' % ('type ' if is_type else '', 'Name', ' as Loc' if self.local == 'Loc' else '', self.k)
            if is_type and self.k in ('AdtId', 'TypeAliasId'):
                if not int_ or inv:
                    bad.append('C05: %s must land in the type namespace only (types %s, values %s)' % (what, keys(types), keys(values)))
            elif is_type:
                if int_ or inv:
                    bad.append('C05: %s must not bind anything: a type import leaks into %s' % (what, 'the value namespace' if inv else 'the type namespace'))
            else:
                if int_:
                    bad.append('C05: %s (a value import) lands in the type namespace' % what)
                if self.k in ('FunctionId', 'VariantId', 'ModuleConstant') and not inv:
                    bad.append('C05: %s is not bound in the value namespace' % what)
                if self.k in ('AdtId', 'TypeAliasId') and inv:
                    bad.append('C05: %s binds a TYPE in the value namespace: when the exporting module also has a constructor of that name (`type Msg { Reset }` + `type Reset { .. }`), '
                               'the type overwrites the constructor and `Reset` resolves to nothing' % what)
            if [k for k in keys(values) + keys(types) if k != self.local]:
                bad.append('C05: %s binds a name other than the local name `%s`: %s / %s' % (what, self.local, keys(values), keys(types)))
        rec = {'cls': 'scope:%s:%s:%s' % ('alias' if self.has_alias else 'plain', self.k, self.local), 'ok': True,
               'sample': {'module_alias': self.has_alias, 'kind': self.k, 'local': self.local, 'modules': keys(modules), 'values': keys(values), 'types': keys(types)}}
        if bad:
            rec.update({'cls': 'violation', 'ok': False, 'why': bad, 'cex': {'module_alias': self.has_alias, 'kind': self.k, 'local': self.local}})
        return rec

    def on_panic(self, it, e):
        return {'cls': 'panic-under-havoc', 'ok': True}


def scope_factory():
    return ModuleScopeSpec()


class CompleteModulesSpec:
    """complete_expr's loop over module imports"""

    def make_interp(self):
        it = W.interp('ide', uc=True)
        it.allow = [r'^ide::completion::complete_expr$', r'^ide::completion::complete_expr::\{closure#\d+\}$']
        scopes.install(it)
        self.alias = z3.Bool('alias')
        spec = self

        def module_imports(it_, c, a):
            has = it_.choose([(spec.alias, True), (z3.Not(spec.alias), False)])
            spec.has_alias = has
            mi = Agg('struct', 'ModuleImport', None, [scopes.smol(StrV('pkg/mod')), scopes.smol(StrV('mod')), some(scopes.smol(StrV('ali'))) if has else none(), LazyV('ast_ptr')])
            return PyIter(iter([tup(scopes.idx(0), RefV([mi], 0))]))

        def resolve_module(it_, c, a):
            name = strs(a[1])
            spec.asked.append(name)
            # the module scope registers the module under its alias, else its accessor (kernel a)
            return some(RefV([Agg('struct', 'FileId', None, [IntV(7, 32, 0)])], 0)) if name == ('ali' if spec.has_alias else 'mod') else none()

        def render_module(it_, c, a):
            spec.rendered.append(a)
            return Agg('struct', 'CompletionItem', None, [LazyV('item')])
        it.models['ModuleItemData::module_imports'] = module_imports
        it.models['Resolver::resolve_module'] = resolve_module
        it.models['render::render_module'] = render_module
        return it

    def run_path(self, it):
        b = W.crates['ide']['ide::completion::complete_expr']
        self.has_alias = None; self.asked = []; self.rendered = []
        acc = VecV([])
        r = it.run_body(b, [RefV([acc], 0), LazyV('ctx')])
        if self.has_alias is None:
            return {'cls': 'no-expression-context', 'ok': True}
        bad = []
        want = 'ali' if self.has_alias else 'mod'
        if self.asked != [want]:
            bad.append('C18: `import pkg/mod%s` is in scope as `%s`, but expression completion looks the module up as %s' % (' as ali' if self.has_alias else '', want, self.asked))
        if len(self.rendered) != 1:
            bad.append('C18: %d completion items are rendered for the imported module `%s` (exactly one expected)' % (len(self.rendered), want))
        rec = {'cls': 'modules:%s' % ('alias' if self.has_alias else 'plain'), 'ok': True, 'sample': {'alias': self.has_alias, 'asked': self.asked, 'rendered': len(self.rendered)}}
        if bad:
            rec.update({'cls': 'violation', 'ok': False, 'why': bad, 'cex': {'alias': self.has_alias}})
        return rec

    def on_panic(self, it, e):
        return {'cls': 'panic-under-havoc', 'ok': True}


def complete_factory():
    return CompleteModulesSpec()


class CompleteNamesSpec:
    """complete_expr's loop over the names in scope: every name is OFFERED and INSERTED under the name it has in this scope (an
    unqualified import `import m.{pubf as g}` is `g` here), whatever the definition calls itself.  The resolver yields one entry
    (scope name `g`, a definition of symbolic kind); render_fn / render_variant answer with the definition's own name `own`."""

    def make_interp(self):
        it = W.interp('ide', uc=True)
        it.allow = [r'^ide::completion::complete_expr$', r'^ide::completion::complete_expr::\{closure#\d+\}$']
        scopes.install(it)
        self.kind = z3.BitVec('defkind', 8)
        src = open(os.path.join(os.environ.get('VERIF_REPO', '/repo'), 'crates/ide/src/ide/completion.rs'), encoding='utf-8').read()
        m = re.search(r'pub struct CompletionItem\s*\{(.*?)\n\}', src, flags=re.S)
        self.fields = re.findall(r'^\s*(?:pub(?:\([^)]*\))?\s+)?(\w+)\s*:', re.sub(r'//[^\n]*', '', m.group(1)), flags=re.M)
        self.kinds = [vn for vn, hf, d in W.enums['ResolveResult']]
        it.solver.add(z3.ULT(self.kind, len(self.kinds)))
        spec = self

        def names_in_scope(it_, c, a):
            k = it_.choose([(spec.kind == i, i) for i in range(len(spec.kinds))])
            spec.k = spec.kinds[k]
            mp = MapV()
            mp.kv.append((scopes.smol(StrV('g')), Agg('enum', 'ResolveResult', spec.k, [LazyV('def')])))
            return mp

        def item(name):
            vals = []
            for f in spec.fields:
                vals.append(scopes.smol(StrV(name)) if f in ('label', 'replace') else LazyV(f))
            return Agg('struct', 'CompletionItem', None, vals)
        base_into = it.trait_models.get(('IntoIterator', 'into_iter'))

        def into_iter(it_, c, a):
            v = a[0]
            if isinstance(v, MapV) and not c.startswith('<&'):
                return PyIter((tup(k, x) for k, x in list(v.kv)))          # by-value map iteration yields owned pairs
            return base_into(it_, c, a)
        it.trait_models[('IntoIterator', 'into_iter')] = into_iter
        it.models['Resolver::values_names_in_scope'] = names_in_scope
        it.models['render::render_fn'] = lambda it_, c, a: item('own')
        it.models['render::render_variant'] = lambda it_, c, a: item('own')
        it.models['fmt::format'] = lambda it_, c, a: StringV([IntV(x, 8, 0) for x in b'g'])          # format!("{}", name)
        it.models['ModuleItemData::module_imports'] = lambda it_, c, a: PyIter(iter([]))
        return it

    def run_path(self, it):
        b = W.crates['ide']['ide::completion::complete_expr']
        self.k = None
        acc = VecV([])
        it.run_body(b, [RefV([acc], 0), LazyV('ctx')])
        if self.k is None:
            return {'cls': 'no-expression-context', 'ok': True}
        li, ri = self.fields.index('label'), self.fields.index('replace')
        got = []
        for x in acc.items:
            x = models.deref(x)
            got.append((strs(x.fields[li]) if isinstance(x, Agg) else None, strs(x.fields[ri]) if isinstance(x, Agg) else None)); self._raw = repr(x.fields[ri]) if isinstance(x, Agg) else repr(x)
        bad = []
        if len(got) != 1:
            bad.append('C18: the name `g` in scope (a %s) yields %d completion items' % (self.k, len(got)))
        elif got[0] != ('g', 'g'):
            bad.append('C18: a %s that is in scope under the name `g` (e.g. `import m.{own as g}`) is offered as `%s` and inserted as `%s`: the offered name is not the one visible here and does not resolve [%s]' % (self.k, got[0][0], got[0][1], getattr(self, '_raw', '')))
        rec = {'cls': 'names:%s' % self.k, 'ok': True, 'sample': {'kind': self.k, 'items': got}}
        if bad:
            rec.update({'cls': 'violation', 'ok': False, 'why': bad, 'cex': {'kind': self.k}})
        return rec

    def on_panic(self, it, e):
        return {'cls': 'panic-under-havoc', 'ok': True}


def names_factory():
    return CompleteNamesSpec()


def native_alias_names(oracle):
    files = [{'path': '/app/src/main.gleam', 'text': 'import foo.{pubf as g, Bar as Qux}\nfn main() { a }\n', 'root': 0},
             {'path': '/app/src/foo.gleam', 'text': 'pub fn pubf() { 1 }\npub type T { Bar }\n', 'root': 0}]
    app = files[0]['text']
    r = oracle.ask('complete', json.dumps({'files': files, 'roots': [{'path': '/app', 'local': True, 'deps': []}], 'file': 0, 'offsets': [app.index('{ a }') + 3]}))
    labels = (r.get('complete') or [None])[0] if isinstance(r, dict) else None
    return labels, r


# ------------------------------------------------------------------------------------------------ public-API probes
DEP = 'pub type Name { Name(i: Int) Other }\npub type Alias = Int\npub fn func() { 1 }\npub const konst = 1\n'
DEP2 = 'pub type Loc { Loc }\npub fn name() { 2 }\n'


def ws(app):
    return {'files': [{'path': '/app/src/main.gleam', 'text': app, 'root': 0}, {'path': '/app/src/mod.gleam', 'text': DEP, 'root': 0}, {'path': '/app/src/mod2.gleam', 'text': DEP2, 'root': 0}],
            'roots': [{'path': '/app', 'local': True, 'deps': []}]}


def goto(oracle, app, needle, delta=0):
    req = ws(app); req.update({'file': 0, 'offsets': [app.index(needle) + delta]})
    r = oracle.ask('goto', json.dumps(req))
    g = (r.get('goto') or [None])[0] if isinstance(r, dict) else None
    return g, r


def native_namespace_probes(oracle):
    """[(what, ok, detail)]: goto-definition on programs where the value and the type namespace must stay apart"""
    out = []
    # a `type` import must not provide the constructor of the same name: `Name(1)` resolves to mod2's?? no: to nothing / not to mod.gleam's constructor
    app = 'import mod2.{Loc as Name}\nimport mod.{type Name}\nfn f(x: Name) { Name }\n'
    g, r = goto(oracle, app, '{ Name }', 2)
    ok = bool(g) and g[0][0] == 2
    out.append(('value `Name` after `import mod2.{Loc as Name}` + `import mod.{type Name}` must still be mod2\'s constructor', ok, g if g is not None else r))
    g, r = goto(oracle, app, 'x: Name', 3)
    ok = bool(g) and g[0][0] == 1
    out.append(('type `Name` must be mod\'s type', ok, g if g is not None else r))
    app2 = 'import mod.{func as Loc2}\nimport mod as ali\nfn f() { ali.func() }\n'
    g, r = goto(oracle, app2, 'ali.func', 4)
    ok = bool(g) and g[0][0] == 1
    out.append(('`ali.func` through `import mod as ali` must reach mod.gleam', ok, g if g is not None else r))
    # values and types are separate namespaces also in the exporting module: a constructor Reset and a later type Reset
    files = [{'path': '/app/src/main.gleam', 'text': 'import msg.{Reset}\nfn f() { Reset }\n', 'root': 0},
             {'path': '/app/src/msg.gleam', 'text': 'pub type Msg { Reset Tick }\npub type Reset { Soft Hard }\n', 'root': 0}]
    app3 = files[0]['text']
    r = oracle.ask('goto', json.dumps({'files': files, 'roots': [{'path': '/app', 'local': True, 'deps': []}], 'file': 0, 'offsets': [app3.index('{ Reset }') + 2]}))
    g = (r.get('goto') or [None])[0] if isinstance(r, dict) else None
    ok = bool(g) and g[0][0] == 1 and g[0][1] == files[1]['text'].index('Reset')
    out.append(('`import msg.{Reset}` where msg has a constructor Reset and, later, a type Reset: the value `Reset` must be the constructor', ok, g if g is not None else r))
    # a module-qualified constant reaches the exporting module like a function does
    files = [{'path': '/app/src/main.gleam', 'text': 'import konst\nfn f() { konst.limit + konst.get() }\n', 'root': 0},
             {'path': '/app/src/konst.gleam', 'text': 'pub const limit = 1\npub fn get() { limit }\n', 'root': 0}]
    app4 = files[0]['text']
    r = oracle.ask('goto', json.dumps({'files': files, 'roots': [{'path': '/app', 'local': True, 'deps': []}], 'file': 0, 'offsets': [app4.index('.limit') + 1]}))
    g = (r.get('goto') or [None])[0] if isinstance(r, dict) else None
    ok = bool(g) and g[0][0] == 1 and g[0][1] == files[1]['text'].index('limit')
    out.append(('`konst.limit` (a module-qualified constant) must reach the constant in konst.gleam', ok, g if g is not None else r))
    return out


def native_alias_completion(oracle):
    app = 'import mod as ali\nimport mod2\nfn f() { a }\n'
    req = ws(app); req.update({'file': 0, 'offsets': [app.index('{ a }') + 3]})
    r = oracle.ask('complete', json.dumps(req))
    labels = (r.get('complete') or [None])[0] if isinstance(r, dict) else None
    return labels, r


def part_c05(chk, tier, jobs, oracle):
    """kernel a + namespace probes through goto_definition"""
    from mirsym import explore
    res, complete = explore.explore(scope_factory, (), jobs=1)
    chk.add_run('module scope: one module import (alias symbolic) + one unqualified import (type flag, alias, definition kind symbolic), database havoc\'d', res, complete,
                {'definition_kinds': KINDS}, nontrivial_classes=lambda c: c.startswith('scope:'))
    probes = native_namespace_probes(oracle)
    failing = [p for p in probes if not p[1]]
    if res.violations:
        why = '; '.join(sorted({w for v in res.violations for w in v['why']}))[:500]
        if failing:
            chk.violation('module-scope:namespaces', 'bounded', 'module scope: %s; public API (goto_definition): %s -> %s' % (why, failing[0][0], failing[0][2]), {'probe': failing[0][0]}, confirmed=True)
        else:
            chk.inconclusive.append('module-scope kernel: %s -- but the %d namespace probes through goto_definition land where Gleam binds them' % (why, len(probes)))
    elif failing:
        chk.inconclusive.append('translator validation FAILED: module-scope kernel finds no problem; goto_definition: %s -> %s' % (failing[0][0], failing[0][2]))
    else:
        chk.validated += len(probes)
        chk.log('module scope: %d namespace / alias probes through goto_definition agree with the kernel' % len(probes))


def part_c18(chk, tier, jobs, oracle):
    from mirsym import explore
    res, complete = explore.explore(complete_factory, (), jobs=1)
    chk.add_run('complete_expr: imported-module accessors (alias symbolic), database havoc\'d', res, complete, {}, nontrivial_classes=lambda c: c.startswith('modules:'))
    labels, raw = native_alias_completion(oracle)
    missing = labels is None or 'ali' not in labels or 'mod2' not in labels
    if res.violations:
        why = '; '.join(sorted({w for v in res.violations for w in v['why']}))[:500]
        if missing:
            chk.violation('complete:module-accessors', 'bounded', 'complete_expr: %s; public API: completions after `import mod as ali` + `import mod2` are %s' % (why, labels if labels is not None else raw),
                          {'program': 'import mod as ali / import mod2'}, confirmed=True)
        else:
            chk.inconclusive.append('complete_expr kernel: %s -- but the public API offers both `ali` and `mod2`' % why)
    elif missing:
        chk.inconclusive.append('translator validation FAILED: complete_expr kernel finds no problem; the public API offers %s' % (labels if labels is not None else raw))
    else:
        chk.validated += 1
        chk.log('complete_expr: the public API offers the aliased and the plain module accessor')


# ------------------------------------------------------------------------------------------------ C18: fields offered after `value.`
class CommonFieldsSpec:
    """def::lower::LowerCtx::lower_custom_type (real MIR; the syntax accessors and lower_constructor are havoc'd / modelled):
    k constructors whose labelled-field sets are symbolic subsets of {a, b} (a constructor may have none).  The ADT's common_fields -
    what `value.` completion and field access offer - must be exactly the labels EVERY constructor has (with the same type)."""

    def __init__(self, k):
        self.k = k

    def make_interp(self):
        it = W.interp('ide', uc=True)
        it.allow = [r'^def::lower::<impl at [^>]*>::(lower_custom_type|lower_constructors|next_constructor_idx)$', r'^def::lower::<impl at [^>]*>::lower_custom_type::\{closure#\d+\}$']
        scopes.install(it)
        self.has = [[z3.Bool('c%d_%s' % (i, l)) for l in 'ab'] for i in range(self.k)]
        spec = self
        tref = Agg('enum', 'def::module::TypeRef', 'Hole', [])

        def constructors(it_, c, a):
            return PyIter(iter([Opaque(('variant', i)) for i in range(spec.k)]))

        def lower_constructor(it_, c, a):
            v = models.deref(a[1]); i = v.tag[1]
            mp = MapV(); labels = []
            for j, l in enumerate('ab'):
                if it_.choose([(spec.has[i][j], True), (z3.Not(spec.has[i][j]), False)]):
                    mp.kv.append((scopes.smol(StrV(l)), dcopy(tref))); labels.append(l)
            spec.sets[i] = labels
            return some(tup(scopes.idx(i), mp))

        def alloc_custom_type(it_, c, a):
            spec.adt = models.deref(a[1])
            return scopes.idx(0)
        it.models['Adt::constructors'] = constructors
        it.models['LowerCtx::lower_constructor'] = lower_constructor
        it.models['LowerCtx::alloc_custom_type'] = alloc_custom_type
        it.models['LowerCtx::next_constructor_idx'] = lambda it_, c, a: scopes.idx(0)
        it.models['HashMap::retain'] = retain
        it.models['<TypeRef as PartialEq>::eq'] = lambda it_, c, a: BoolV(True)
        return it

    def run_path(self, it):
        b = next(bd for n, bd in W.crates['ide'].items() if re.match(r'^def::lower::<impl at [^>]*>::lower_custom_type$', n))
        self.sets = {}; self.adt = None
        it.run_body(b, [LazyV('lowerctx'), LazyV('adt_node')])
        if self.adt is None:
            return {'cls': 'not-lowered', 'ok': True}
        import os
        src = open(os.path.join(os.environ.get('VERIF_REPO', '/repo'), 'crates/ide/src/def/module.rs'), encoding='utf-8').read()
        m = re.search(r'pub struct AdtData\s*\{(.*?)\n\}', src, flags=re.S)
        fields = re.findall(r'^\s*(?:pub(?:\([^)]*\))?\s+)?(\w+)\s*:', re.sub(r'//[^\n]*', '', m.group(1)), flags=re.M)
        cf = models.deref(self.adt.fields[fields.index('common_fields')])
        got = sorted(strs(k) for k, _ in cf.kv)
        want = sorted(set('ab').intersection(*[set(self.sets.get(i, [])) for i in range(self.k)])) if self.k else []
        desc = 'type T { %s }' % ' '.join('C%d%s' % (i, ('(' + ', '.join('%s: Int' % l for l in self.sets.get(i, [])) + ')') if self.sets.get(i) else '') for i in range(self.k))
        rec = {'cls': 'common:%s' % got, 'ok': True, 'sample': {'adt': desc, 'common_fields': got}}
        if got != want:
            rec = {'cls': 'violation', 'ok': False, 'why': ['C18: `%s`: the fields offered after `value.` are %s, the fields every constructor has are %s' % (desc, got, want)], 'cex': {'adt': desc, 'sets': {str(k): v for k, v in self.sets.items()}}}
        return rec

    def on_panic(self, it, e):
        return {'cls': 'panic-under-havoc', 'ok': True}


def retain(it_, c, a):
    mp = models.deref(a[0]); keep = []
    for (k, v) in list(mp.kv):
        cell = [v]
        r = it_.call_closure(a[1], [RefV([k], 0), RefV(cell, 0)])
        if it_.choose_bool(r):
            keep.append((k, cell[0]))
    mp.kv[:] = keep
    return UNIT


def fields_factory(k):
    return CommonFieldsSpec(k)


def native_dot_fields(oracle):
    """`value.` completion on ADTs where not every constructor has the field"""
    out = []
    for adt, want in (('type Pet { Dog(name: String) Stray }', []), ('type Pet { Dog(name: String) Cat(name: String) }', ['name']), ('type Pet { Dog(name: String, age: Int) Cat(name: String) Tagged(Int) }', [])):
        app = adt + '\nfn main(p: Pet) { p. }\n'
        r = oracle.ask('complete', json.dumps({'text': app, 'offsets': [app.index('p. }') + 2], 'trigger': '.'}))
        labels = (r.get('complete') or [None])[0] if isinstance(r, dict) else None
        out.append((adt, want, labels, r))
    return out


def part_c18_names(chk, tier, jobs, oracle):
    from mirsym import explore
    res, complete = explore.explore(names_factory, (), jobs=1)
    chk.add_run('complete_expr: a name in scope (definition kind symbolic) is offered and inserted under its scope name', res, complete, {}, nontrivial_classes=lambda c: c.startswith('names:'))
    labels, raw = native_alias_names(oracle)
    wrong = labels is None or 'g' not in labels or 'Qux' not in labels or 'pubf' in labels or 'Bar' in labels
    if res.violations:
        why = '; '.join(sorted({w for v in res.violations for w in v['why']}))[:500]
        if wrong:
            chk.violation('complete:scope-names', 'bounded', '%s; public API: completions after `import foo.{pubf as g, Bar as Qux}` are %s (g and Qux expected, not pubf / Bar)' % (why, labels if labels is not None else raw),
                          {'program': 'import foo.{pubf as g, Bar as Qux}'}, confirmed=True)
        else:
            chk.inconclusive.append('complete_expr names kernel: %s -- but the public API offers the aliased names (%s)' % (why, labels))
    elif wrong:
        chk.inconclusive.append('translator validation FAILED: complete_expr names kernel finds no problem; the public API offers %s after `import foo.{pubf as g, Bar as Qux}`' % (labels if labels is not None else raw))
    else:
        chk.validated += 1
        chk.log('complete_expr: aliased unqualified imports are offered under their alias through the public API')


def part_c18_fields(chk, tier, jobs, oracle):
    from mirsym import explore
    found = []
    for k in ((1, 2) if tier == 'quick' else (1, 2, 3)):
        res, complete = explore.explore(fields_factory, (k,), jobs=1)
        chk.add_run('lower_custom_type: %d constructors with symbolic labelled-field sets over {a, b}: common fields = labels every constructor has' % k, res, complete, {'constructors': k},
                    nontrivial_classes=lambda c: c.startswith('common:'))
        found += res.violations
    probes = native_dot_fields(oracle)
    wrong = [(a, w, l) for (a, w, l, r) in probes if l is None or sorted(l) != sorted(w)]
    if found:
        if wrong:
            chk.violation('complete:dot-fields', 'bounded', '%s; public API: completion after `p.` for `%s` offers %s, the type has %s' % (found[0]['why'][0][:400], wrong[0][0], wrong[0][2], wrong[0][1]), {'adt': wrong[0][0]}, confirmed=True)
        else:
            chk.inconclusive.append('common-fields kernel: %s -- but `value.` completion offers the expected fields on %d probe types' % (found[0]['why'][0][:300], len(probes)))
    elif wrong:
        chk.inconclusive.append('translator validation FAILED: common-fields kernel finds no problem; `value.` completion on `%s` offers %s, expected %s' % wrong[0])
    else:
        chk.validated += len(probes)
        chk.log('common fields: `value.` completion on %d probe types offers exactly the fields every constructor has' % len(probes))


# ------------------------------------------------------------------------------------------------ C05: qualified type names
class QualifiedTypeSpec:
    """def::semantics::classify_type_name under-constrained.  "qualified ... imports reach the exporting module": a type name written
    `module.Type` must be looked up in that module.  Obligation: a path whose answer comes from the UNQUALIFIED lookup
    (Semantics::resolve_type, the current module's own type scope) must first have established that the name is not qualified or that the
    qualified lookup found nothing - i.e. one of the steps of the qualified lookup returned None on that path."""

    def make_interp(self):
        it = W.interp('ide', uc=True)
        it.allow = [r'^def::semantics::classify_type_name$', r'^def::semantics::classify_type_name::\{closure#\d+\}$']
        return it

    def run_path(self, it):
        from .c08 import derives_from
        b = W.crates['ide']['def::semantics::classify_type_name']
        r = it.run_body(b, [LazyV('sema'), LazyV('type_name')])
        var, pay = models.shape(it, r, ['None', 'Some'])
        if var != 'Some':
            return {'cls': 'unresolved', 'ok': True}
        calls = it.trace
        unq = [i for i, t in enumerate(calls) if t[0].split('(')[0].endswith('Semantics::<\'_>::resolve_type') or re.search(r'Semantics(::<[^>]*>)?::resolve_type$', t[0])]
        from_unq = [i for i in unq if derives_from(pay, calls[i][2], calls)]
        if not from_unq:
            return {'cls': 'resolved:qualified-or-import' + (':unq-called' if unq else ''), 'ok': True, 'sample': {'answer': 'qualified lookup / import', 'trace': [t[0][-60:] for t in calls][-8:]}}
        i = from_unq[0]
        steps = [t for t in calls[:i] if re.search(r'TypeNameRef as .*AstNode>::cast$|TypeNameRef::module$|::text$|Semantics(::<[^>]*>)?::analyze$|Resolver::resolve_module$|Resolver::resolve_type$|Into<std::option::Option<[^=]*>::into$', t[0])]
        none_seen = False
        for t in steps:
            res = t[2]
            if isinstance(res, LazyV):
                rr, _ = it.check(res.discriminant() != 0)
                if rr != z3.sat:
                    none_seen = True; break
        if none_seen:
            return {'cls': 'resolved:unqualified-after-failed-qualified', 'ok': True, 'sample': {'answer': 'own type scope, after the qualified lookup gave nothing'}}
        return {'cls': 'violation', 'ok': False, 'cex': {'fn': 'classify_type_name'},
                'why': ['C05: classify_type_name answers from the current module\'s own type scope without having established that the name is unqualified (or that `module.Type` found nothing): '
                        'a qualified type name `m.T` lands on a local / imported type T of the same name']}

    def on_panic(self, it, e):
        return {'cls': 'panic-under-havoc', 'ok': True}


def qualified_factory():
    return QualifiedTypeSpec()


def native_qualified_type(oracle):
    files = [{'path': '/app/src/main.gleam', 'text': 'import shapes\ntype Wobble { Square }\nfn bla(a: shapes.Wobble, b: Wobble) { a }\n', 'root': 0},
             {'path': '/app/src/shapes.gleam', 'text': 'pub type Wobble { Round }\n', 'root': 0}]
    app = files[0]['text']
    req = {'files': files, 'roots': [{'path': '/app', 'local': True, 'deps': []}], 'file': 0, 'offsets': [app.index('shapes.Wobble') + 7, app.index('b: Wobble') + 3]}
    r = oracle.ask('goto', json.dumps(req))
    g = r.get('goto') if isinstance(r, dict) else None
    okq = bool(g) and bool(g[0]) and g[0][0][0] == 1
    oku = bool(g) and bool(g[1]) and g[1][0][0] == 0
    return okq and oku, g if g is not None else r


def part_c05_types(chk, tier, jobs, oracle):
    from mirsym import explore
    res, complete = explore.explore(qualified_factory, (), jobs=1)
    chk.add_run('classify_type_name (under-constrained): the own type scope answers only after the qualified lookup gave nothing', res, complete, {}, nontrivial_classes=lambda c: c.startswith('resolved'))
    okn, g = native_qualified_type(oracle)
    if res.violations:
        why = res.violations[0]['why'][0]
        if not okn:
            chk.violation('classify:qualified-type', 'bounded', '%s; public API: `shapes.Wobble` next to a local `type Wobble` -> go-to-definition targets %s (file 1 = shapes.gleam expected for the qualified name, file 0 for the plain one)' % (why[:400], g),
                          {'program': 'import shapes / type Wobble / fn bla(a: shapes.Wobble, b: Wobble)'}, confirmed=True)
        else:
            chk.inconclusive.append('classify_type_name kernel: %s -- but the qualified / unqualified probe resolves as expected (%s)' % (why[:300], g))
    elif not okn:
        chk.inconclusive.append('translator validation FAILED: classify_type_name kernel finds no problem; go-to-definition on `shapes.Wobble` / `Wobble`: %s' % (g,))
    else:
        chk.validated += 2
        chk.log('qualified type names: `shapes.Wobble` reaches shapes.gleam and `Wobble` the local type through goto_definition')
