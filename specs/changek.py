"""C13 part (c): what the analysis sees after a batch of changes — ide::Change::apply (kernel, under-constrained database).

The Vfs queues one (FileId, content) entry per content change of a didChange notification (C15b follows that queue); Change::apply
must leave, for every file, the LAST queued content in the database.  Change::apply is executed on its real MIR with the database
havoc'd: k queued entries with symbolic file ids, and the sequence of set_file_content calls is read from the trace.  The solver
decides: is there a file id whose last queued content differs from the content of the last set_file_content call for it?
Counterexamples are replayed against the real `glas --stdio` binary (one didChange with k changes to one document)."""
import re, json
import z3
from mirsym.world import World
from mirsym.values import *
from mirsym import models

W = None


class ChangeApplySpec:
    def __init__(self, k):
        self.k = k

    def make_interp(self):
        it = W.interp('ide', uc=True)
        it.allow = [r'^base::<impl at [^>]*>::apply$', r'^base::<impl at [^>]*>::apply::\{closure#\d+\}$']
        self.fs = [z3.BitVec('f%d' % i, 32) for i in range(self.k)]
        for f in self.fs:
            it.solver.add(z3.ULE(f, 1))
        # sets / maps over file ids a de-duplicating rewrite would use
        for t in ('HashSet', 'FxHashSet', 'IndexSet', 'BTreeSet'):
            it.models['%s::new' % t] = lambda it_, c, a: MapV()
            it.models['<%s as Default>::default' % t] = lambda it_, c, a: MapV()
            it.models['%s::insert' % t] = lambda it_, c, a: BoolV(models._map_insert(it_, models.deref(a[0]), a[1], UNIT).variant == 'None')
            it.models['%s::contains' % t] = lambda it_, c, a: BoolV(models._map_find(it_, models.deref(a[0]), models.deref(a[1])) is not None)
        return it

    def run_path(self, it):
        body = next(b for n, b in W.crates['ide'].items() if re.match(r'^base::<impl at [^>]*>::apply$', n) and 'Change' in b.header)
        fid = lambda f: Agg('struct', 'FileId', None, [IntV(f, 32, 0)])
        entries = [tup(fid(f), IntV(100 + i, 32, 0)) for i, f in enumerate(self.fs)]
        change = Agg('struct', 'Change', None, [none(), none(), VecV(entries), BoolV(False), BoolV(False)])
        it.run_body(body, [change, LazyV('db')])
        calls = [t for t in it.trace if t[0].endswith('set_file_content_with_durability')]
        got = []
        for (callee, args, res, _) in calls:
            f = models.deref(args[1]); c = models.deref(args[2])
            fz = f.fields[0].z() if isinstance(f, Agg) else None
            if fz is None or not isinstance(c, IntV):
                return {'cls': 'violation', 'ok': False, 'why': ['engine: set_file_content called with values the kernel cannot follow'], 'cex': {'k': self.k}}
            got.append((fz, c.z()))
        v = z3.BitVec('v', 32)
        bad_terms = []
        for i in range(self.k):
            last_i = z3.And([self.fs[i] == v] + [self.fs[i2] != v for i2 in range(i + 1, self.k)])
            okj = []
            for j, (g, c) in enumerate(got):
                okj.append(z3.And([g == v, c == 100 + i] + [got[j2][0] != v for j2 in range(j + 1, len(got))]))
            bad_terms.append(z3.And(last_i, z3.Not(z3.Or(okj)) if okj else z3.BoolVal(True)))
        rec = {'cls': '%d-writes' % len(got), 'ok': True, 'sample': {'queued': self.k, 'writes': len(got)}}
        if bad_terms:
            rr, m = it.check(z3.Or(bad_terms))
            if rr == z3.sat:
                ev = lambda t: m.eval(t, model_completion=True).as_long()
                files = [ev(f) for f in self.fs]
                rec = {'cls': 'violation', 'ok': False,
                       'why': ['C13: after Change::apply the database does not hold the last queued content of file %d: queued (file, content#) %s, database writes %s'
                               % (ev(v), [(f, i) for i, f in enumerate(files)], [(ev(g), ev(c) - 100) for g, c in got])],
                       'cex': {'k': self.k, 'files': files}}
        return rec

    def on_panic(self, it, e):
        return {'cls': 'panic-under-havoc', 'ok': True}


def factory(k):
    return ChangeApplySpec(k)


def last_per_file_violation(it, fs, got, tag0=100):
    """z3 condition: some file's last queued content is not the content of the last entry / write for that file"""
    v = z3.BitVec('v', 32)
    bad_terms = []
    k = len(fs)
    for i in range(k):
        last_i = z3.And([fs[i] == v] + [fs[i2] != v for i2 in range(i + 1, k)])
        okj = []
        for j, (g, c) in enumerate(got):
            okj.append(z3.And([g == v, c == tag0 + i] + [got[j2][0] != v for j2 in range(j + 1, len(got))]))
        bad_terms.append(z3.And(last_i, z3.Not(z3.Or(okj)) if okj else z3.BoolVal(True)))
    return v, (z3.Or(bad_terms) if bad_terms else z3.BoolVal(False))


class TakeChangeSpec:
    """glas Vfs::take_change (real MIR, full mode): the change set handed to the analysis must still carry, for every file, its LAST
    queued content as the last entry for that file (k queued entries over 2 symbolic file ids)."""

    def __init__(self, k):
        self.k = k

    def make_interp(self):
        from . import scopes
        it = WG.interp('glas')
        scopes.install(it)
        self.fs = [z3.BitVec('f%d' % i, 32) for i in range(self.k)]
        for f in self.fs:
            it.solver.add(z3.ULE(f, 1))

        def dedup_by_key(it_, c, a):
            v = models.deref(a[0]); xs = v.items
            out = []
            last_key = None
            for i, x in enumerate(list(xs)):
                key = it_.call_closure(a[1], [RefV(xs, i)])
                if out and models._key_eq(it_, last_key, key):
                    continue
                out.append(x); last_key = key
            xs[:] = out
            return UNIT
        it.models['Vec::dedup_by_key'] = dedup_by_key
        it.models['mem::take'] = lambda it_, c, a: self._take(a[0])
        return it

    def _take(self, ref):
        old = ref.get()
        ref.set(self.empty_change())
        return old

    def change_fields(self):
        import os
        src = open(os.path.join(os.environ.get('VERIF_REPO', '/repo'), 'crates/ide/src/base.rs'), encoding='utf-8').read()
        m = re.search(r'pub struct Change\s*\{(.*?)\n\}', src, flags=re.S)
        return re.findall(r'^\s*(?:pub(?:\([^)]*\))?\s+)?(\w+)\s*:\s*([^\n]+?),?\s*$', re.sub(r'//[^\n]*', '', m.group(1)), flags=re.M)

    def empty_change(self, entries=None):
        vals = []
        for f, ty in self.change_fields():
            if f == 'file_changes':
                vals.append(VecV(entries or []))
            elif ty.startswith('Option<'):
                vals.append(none())
            elif ty.startswith('bool'):
                vals.append(BoolV(False))
            else:
                vals.append(Opaque(f))
        return Agg('struct', 'Change', None, vals)

    def run_path(self, it):
        fid = lambda f: Agg('struct', 'FileId', None, [IntV(f, 32, 0)])
        entries = [tup(fid(f), IntV(100 + i, 32, 0)) for i, f in enumerate(self.fs)]
        vfs = Agg('struct', 'Vfs', None, [Opaque('files'), Opaque('local_file_set'), self.empty_change(entries)])
        body = next(b for n, b in WG.crates['glas'].items() if re.match(r'^vfs::<impl at [^>]*>::take_change$', n))
        r = it.run_body(body, [RefV([vfs], 0)])
        ch = models.deref(r)
        idx = [f for f, _ in self.change_fields()].index('file_changes')
        out = models.deref(ch.fields[idx]).items
        got = [(models.deref(e).fields[0].fields[0].z(), models.deref(e).fields[1].z()) for e in out]
        v, cond = last_per_file_violation(it, self.fs, got)
        rec = {'cls': '%d-entries' % len(got), 'ok': True, 'sample': {'queued': self.k, 'handed_over': len(got)}}
        rr, m = it.check(cond)
        if rr == z3.sat:
            ev = lambda t: m.eval(t, model_completion=True).as_long()
            files = [ev(f) for f in self.fs]
            rec = {'cls': 'violation', 'ok': False, 'cex': {'k': self.k, 'files': files},
                   'why': ['C13: Vfs::take_change hands the analysis a change set in which file %d does not end with its last queued content: queued (file, content#) %s, handed over %s'
                           % (ev(v), [(f, i) for i, f in enumerate(files)], [(ev(g), ev(c) - 100) for g, c in got])]}
        left = models.deref(vfs.fields[2])
        if models.deref(left.fields[idx]).items:
            rec = {'cls': 'violation', 'ok': False, 'cex': {'k': self.k}, 'why': ['C13: Vfs::take_change leaves queued entries behind (they are applied again with the next change)']}
        return rec

    def on_panic(self, it, e):
        return {'cls': 'panic:' + e.kind, 'ok': False, 'why': ['C13: Vfs::take_change panics: %s' % e], 'cex': {'k': self.k}}


def take_factory(k):
    return TakeChangeSpec(k)


WG = None


DOC = 'fn a() {}\n'


def native_batch(binary, k):
    """one didChange carrying k single-character insertions into the same document, against the real server"""
    from mirsym import lsp_replay
    changes = []; text = DOC
    for i in range(k):
        col = 4 + i
        ch = 'xyzuvw'[i % 6]
        changes.append({'range': [0, col, 0, col], 'text': ch})
        text = text[:col] + ch + text[col:]
    out = lsp_replay.did_change_scenario(binary, DOC, changes)
    return out, text, changes


def part(chk, tier, jobs):
    global W, WG
    from mirsym import explore, lsp_replay
    W = World(['ide'], 'dev', log=chk.log)
    WG = World(['glas'], 'dev', log=chk.log)
    try:
        found = []
        for k in ((1, 2, 3) if tier == 'quick' else (1, 2, 3, 4)):
            res, complete = explore.explore(take_factory, (k,), jobs=1)
            chk.add_run('Vfs::take_change with %d queued contents over 2 symbolic file ids' % k, res, complete, {'queued_entries': k, 'file_ids': 2}, nontrivial_classes=lambda c: c.endswith('-entries'))
            found += [(max(k, 2), v) for v in res.violations]
        for k in ((1, 2, 3) if tier == 'quick' else (1, 2, 3, 4)):
            res, complete = explore.explore(factory, (k,), jobs=1)
            chk.add_run('Change::apply with %d queued contents over 2 symbolic file ids (under-constrained database)' % k, res, complete, {'queued_entries': k, 'file_ids': 2},
                        nontrivial_classes=lambda c: c.endswith('-writes'))
            found += [(k, v) for v in res.violations]
        binary = lsp_replay.build_binary()
        ks = sorted({k for k, _ in found}) or [2, 3]
        outs = {}
        for k in ks:
            out, expect, changes = native_batch(binary, k)
            outs[k] = (out, expect, changes)
        if found:
            k, v = found[0]
            out, expect, changes = outs[k]
            differs = out.get('text') is not None and out['text'] != expect
            if differs:
                chk.violation('change-apply', 'bounded', '%s; real server: one didChange with %d insertions into %r -> the analysed text is %r, the editor holds %r'
                              % (v['why'][0][:400], k, DOC, out['text'], expect), {'doc': DOC, 'changes': changes}, confirmed=True)
            else:
                chk.inconclusive.append('Change::apply kernel: %s -- but the real server analyses the expected text after a %d-change notification (%r)' % (v['why'][0][:300], k, out.get('text')))
        else:
            for k, (out, expect, changes) in outs.items():
                if out.get('text') == expect:
                    chk.validated += 1
                else:
                    chk.inconclusive.append('translator validation FAILED: Change::apply kernel finds no problem, but the real server analyses %r after %d insertions (editor: %r)' % (out.get('text'), k, expect))
            chk.log('Change::apply: %d multi-change notifications replayed against the real server agree with the kernel' % len(outs))
    finally:
        W.cleanup(); WG.cleanup()
