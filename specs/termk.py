"""C09 term kernel: InferCtx::infer_function (real MIR: infer_stmts, infer_expr, infer_pattern, the unifier, the union-find) on
function bodies built directly as arena data (`Body`), compared with an independent reference type checker of the Gleam fragment.

What is symbolic: every literal's kind (Int / Float / String: one 16-bit discriminant per literal slot, the MIR `match`es on it),
every binary operator (Option<BinaryOpKind>: None or one 16-bit discriminant per operator slot) and a tuple index.  The structure of a
template is concrete.  On each explored path the solver then enumerates EVERY assignment of the slots that the path condition admits
(AllSAT, so an operator that a changed `match` moved into another arm is seen under its own reference typing) and for each of them the
reference checker - Hindley-Milner unification written from Gleam's typing rules, not from infer.rs - gives the principal types of the
parameters, of every binder and of the result; they must equal the types read back from the real table modulo renaming of unknowns.

Environment stubs (part of the claim): `resolver_for_expr` / `Resolver::resolve_name` answer by the binder's (unique) name - scoping
itself is C05's kernel -, `resolve_type` / `resolve_module` find nothing, the database is an opaque value that must not be touched.
Ill-typed assignments (the reference fails to unify) are only required to return without panic and to leave every expression and
pattern with a type entry (C10)."""
import itertools, re
import z3
from mirsym.values import *
from mirsym import models
from . import unifier, scopes
from .unifier import mk_table, body_ctx, infer_ctx, body, uf_find, entry_of, tyvar, install

LITS = ['Int', 'Float', 'String']
LIT_TEXT = {'Int': '1', 'Float': '1.5', 'String': '"s"'}
# Gleam's typing of the binary operators, by BinaryOpKind variant name: (operand type or None = "both sides equal", result type)
OPS_REF = {}
for _n in ('IntAdd', 'IntSub', 'IntMul', 'IntDiv', 'IntMod'):
    OPS_REF[_n] = ('Int', 'Int')
for _n in ('IntGT', 'IntLT', 'IntGTE', 'IntLTE'):
    OPS_REF[_n] = ('Int', 'Bool')
for _n in ('FloatAdd', 'FloatSub', 'FloatMul', 'FloatDiv'):
    OPS_REF[_n] = ('Float', 'Float')
for _n in ('FloatGT', 'FloatLT', 'FloatGTE', 'FloatLTE'):
    OPS_REF[_n] = ('Float', 'Bool')
OPS_REF['Eq'] = (None, 'Bool')
OPS_REF['Concat'] = ('String', 'String')
OP_TEXT = {'IntAdd': '+', 'IntSub': '-', 'IntMul': '*', 'IntDiv': '/', 'IntMod': '%', 'IntGT': '>', 'IntLT': '<', 'IntGTE': '>=', 'IntLTE': '<=',
           'FloatAdd': '+.', 'FloatSub': '-.', 'FloatMul': '*.', 'FloatDiv': '/.', 'FloatGT': '>.', 'FloatLT': '<.', 'FloatGTE': '>=.', 'FloatLTE': '<=.',
           'Eq': '==', 'Concat': '<>'}


def op_variants():
    return [vn for vn, hf, d in unifier.W.enums['BinaryOpKind']]


# ------------------------------------------------------------------------------------------------ templates
# expressions: ('lit', slot) ('var', name) ('bin', slot, l, r) ('tuple', [e]) ('tidx', e, slot) ('list', [e], tail|None) ('lambda', [names], [stmts])
#              ('pipe', l, r) ('call', f, [e]) ('case', [e], [([pat], e)]) ('block', [stmts])
# statements:  ('let', pat, e) ('expr', e) ('use', [pat], e)
# patterns:    ('pvar', name) ('phole',) ('plit', slot) ('ptuple', [pat]) ('plist', [pat], spread: None | '' | name) ('pas', pat, name) ('pconcat', pat) ('palt', [pat])
V = lambda n: ('var', n)
L = lambda s: ('lit', s)
TEMPLATES = {
    'binary': (['p', 'q'], [('expr', ('bin', 'o0', V('p'), V('q')))]),
    'binary-lit': (['p'], [('expr', ('bin', 'o0', V('p'), L('k0')))]),
    'binary-chain': (['p', 'q'], [('let', ('pvar', 'x'), ('bin', 'o0', V('p'), L('k0'))), ('expr', ('bin', 'o1', V('x'), V('q')))]),
    'tuple-index': (['p'], [('let', ('pvar', 't'), ('tuple', [L('k0'), V('p'), L('k1')])), ('let', ('pvar', 'y'), ('tidx', V('t'), 'i0')), ('expr', ('tuple', [V('y'), V('t')]))]),
    'list': (['p', 'q'], [('expr', ('list', [V('p'), L('k0'), V('q')], None))]),
    'list-tail': (['p', 'q'], [('expr', ('list', [L('k0'), V('p')], V('q')))]),
    'lambda-call': (['p'], [('let', ('pvar', 'f'), ('lambda', ['a', 'b'], [('expr', ('bin', 'o0', V('a'), V('b')))])), ('expr', ('call', V('f'), [V('p'), L('k0')]))]),
    'lambda-inner-let': (['p'], [('let', ('pvar', 'f'), ('lambda', ['a'], [('let', ('pvar', 'x'), ('tuple', [V('a'), L('k0')])), ('expr', V('x'))])), ('expr', ('call', V('f'), [V('p')]))]),
    'closure': (['p'], [('expr', ('lambda', ['a'], [('expr', ('lambda', ['b'], [('expr', ('tuple', [V('a'), V('b'), ('bin', 'o0', V('p'), L('k0'))]))]))]))]),
    'pipe': (['p', 'q'], [('expr', ('pipe', ('pipe', L('k0'), V('p')), V('q')))]),
    'call-param': (['p', 'q'], [('expr', ('bin', 'o0', ('call', V('p'), [V('q'), L('k0')]), L('k1')))]),
    'case-lit': (['p', 'q'], [('expr', ('case', [V('p'), V('q')], [([('plit', 'k0'), ('pvar', 'x')], V('x')), ([('phole',), ('pvar', 'y')], L('k1'))]))]),
    'case-list': (['p'], [('expr', ('case', [V('p')], [([('plist', [('pvar', 'a')], 'rest')], ('tuple', [V('a'), V('rest')])), ([('plist', [], None)], ('tuple', [L('k0'), ('list', [], None)]))]))]),
    'let-patterns': (['p', 'q'], [('let', ('ptuple', [('pvar', 'a'), ('pvar', 'b')]), V('p')), ('let', ('plist', [('pvar', 'c')], ''), V('q')), ('let', ('pconcat', ('pvar', 'd')), V('b')),
                                  ('expr', ('tuple', [V('a'), V('c'), V('d')]))]),
    'as-pattern': (['p'], [('expr', ('case', [V('p')], [([('pas', ('ptuple', [('plit', 'k0'), ('pvar', 'a')]), 'w')], ('tuple', [V('w'), V('a')]))]))]),
    # alternatives only at the top of a clause (Gleam does not nest them)
    'alternatives': (['p', 'q'], [('expr', ('case', [V('p')], [([('palt', [('plit', 'k0'), ('plit', 'k1')])], V('q')), ([('phole',)], L('k2'))]))]),
    'use': (['p', 'q'], [('use', [('pvar', 'a')], V('p')), ('expr', ('bin', 'o0', V('a'), V('q')))]),
    'use-call': (['p'], [('let', ('pvar', 'x'), L('k0')), ('use', [('pvar', 'a'), ('ptuple', [('pvar', 'b'), ('phole',)])], ('call', V('p'), [V('x')])), ('expr', ('list', [V('a'), V('b')], None))]),
    'concat-case': (['p'], [('expr', ('case', [L('k0')], [([('pconcat', ('pvar', 'd'))], V('d')), ([('phole',)], V('p'))]))]),
    'concat-param': (['p', 'q'], [('expr', ('case', [V('p'), V('q')], [([('pconcat', ('pvar', 'd')), ('plit', 'k0')], ('tuple', [V('d'), V('q')]))]))]),
    'lambda-case': (['p'], [('let', ('pvar', 'f'), ('lambda', ['a'], [('expr', ('case', [V('a')], [([('plist', [('pvar', 'x')], '')], ('bin', 'o0', V('x'), L('k0'))), ([('phole',)], L('k1'))]))])),
                            ('expr', ('call', V('f'), [V('p')]))]),
    'use-nested': (['p', 'q'], [('use', [('pvar', 'a')], V('p')), ('use', [('pvar', 'b')], V('q')), ('expr', ('tuple', [('bin', 'o0', V('a'), V('b')), L('k0')]))]),
    'pipe-lambda': (['p'], [('expr', ('pipe', L('k0'), ('lambda', ['a'], [('expr', ('bin', 'o0', V('a'), V('p')))])))]),
    'tuple-nested': (['p'], [('let', ('pvar', 't'), ('tuple', [('tuple', [L('k0'), V('p')]), L('k1')])), ('expr', ('tidx', ('tidx', V('t'), 'i0'), 'i1'))]),
    'nested-block': (['p'], [('let', ('pvar', 'x'), ('block', [('let', ('pvar', 'y'), ('bin', 'o0', V('p'), L('k0'))), ('expr', ('tuple', [V('y'), V('p')]))])), ('expr', ('tidx', V('x'), 'i0'))]),
}
THOROUGH = ['lambda-case', 'use-nested', 'pipe-lambda', 'tuple-nested']
QUICK = ['binary', 'binary-lit', 'binary-chain', 'tuple-index', 'list', 'list-tail', 'lambda-call', 'lambda-inner-let', 'closure', 'pipe', 'call-param', 'case-lit', 'case-list', 'let-patterns', 'as-pattern', 'alternatives',
         'use', 'use-call', 'concat-case', 'concat-param', 'nested-block']


def slots_of(t):
    """slot names of a template in first-occurrence order: k* literal kinds, o* operators, i* tuple indices"""
    out = []

    def walk(x):
        if isinstance(x, (list, tuple)):
            if len(x) >= 2 and x[0] in ('lit', 'plit') and isinstance(x[1], str):
                if x[1] not in out:
                    out.append(x[1])
                return
            if len(x) >= 2 and x[0] == 'bin':
                if x[1] not in out:
                    out.append(x[1])
            if len(x) == 3 and x[0] == 'tidx':
                if x[2] not in out:
                    out.append(x[2])
            for y in x:
                walk(y)
    walk(t)
    return out


# ------------------------------------------------------------------------------------------------ reference type checker (Gleam rules)

class IllTyped(Exception):
    pass


class NoReference(Exception):
    """the term uses something Gleam's rules give no answer for in this fragment (an operator the HIR does not model)"""
    pass


class Ref:
    def __init__(self):
        self.node = []        # id -> ('var',) | ('Int',) | ('List', a) | ('Tuple', [a..]) | ('Fn', [a..], r) ; or ('link', id)

    def new(self, n=('var',)):
        self.node.append(n); return len(self.node) - 1

    def find(self, a):
        while self.node[a][0] == 'link':
            a = self.node[a][1]
        return a

    def occurs(self, v, a):
        a = self.find(a)
        if a == v:
            return True
        n = self.node[a]
        if n[0] == 'List':
            return self.occurs(v, n[1])
        if n[0] == 'Tuple':
            return any(self.occurs(v, x) for x in n[1])
        if n[0] == 'Fn':
            return any(self.occurs(v, x) for x in n[1]) or self.occurs(v, n[2])
        return False

    def unify(self, a, b):
        a, b = self.find(a), self.find(b)
        if a == b:
            return
        na, nb = self.node[a], self.node[b]
        if na[0] == 'var':
            if self.occurs(a, b):
                raise IllTyped('occurs check')
            self.node[a] = ('link', b); return
        if nb[0] == 'var':
            if self.occurs(b, a):
                raise IllTyped('occurs check')
            self.node[b] = ('link', a); return
        if na[0] != nb[0]:
            raise IllTyped('%s vs %s' % (na[0], nb[0]))
        if na[0] == 'List':
            self.unify(na[1], nb[1])
        elif na[0] == 'Tuple':
            if len(na[1]) != len(nb[1]):
                raise IllTyped('tuple arity')
            for x, y in zip(na[1], nb[1]):
                self.unify(x, y)
        elif na[0] == 'Fn':
            if len(na[1]) != len(nb[1]):
                raise IllTyped('function arity')
            for x, y in zip(na[1], nb[1]):
                self.unify(x, y)
            self.unify(na[2], nb[2])
        self.node[a] = ('link', b)

    def tree(self, a):
        a = self.find(a); n = self.node[a]
        if n[0] == 'var':
            return ('var', a)
        if n[0] == 'List':
            return ('List', self.tree(n[1]))
        if n[0] == 'Tuple':
            return ('Tuple', tuple(self.tree(x) for x in n[1]))
        if n[0] == 'Fn':
            return ('Fn', tuple(self.tree(x) for x in n[1]), self.tree(n[2]))
        return (n[0],)


def reference(template, assign):
    """principal types by Gleam's rules: {'params': [tree], 'binders': {name: tree}, 'result': tree}; raises IllTyped / NoReference"""
    params, stmts = TEMPLATES[template]
    R = Ref(); env = {}

    def prim(n):
        return R.new((n,))

    def bind(name):
        env[name] = R.new(); return env[name]

    def pat(p, expected):
        k = p[0]
        if k == 'pvar':
            R.unify(bind(p[1]), expected)
        elif k == 'phole':
            pass
        elif k == 'plit':
            R.unify(prim(LITS[assign[p[1]]]), expected)
        elif k == 'ptuple':
            subs = [R.new() for _ in p[1]]
            R.unify(R.new(('Tuple', subs)), expected)
            for s, t in zip(p[1], subs):
                pat(s, t)
        elif k == 'plist':
            of = R.new()
            R.unify(R.new(('List', of)), expected)
            for s in p[1]:
                pat(s, of)
            if p[2]:
                R.unify(bind(p[2]), expected)
        elif k == 'pas':
            pat(p[1], expected); R.unify(bind(p[2]), expected)
        elif k == 'pconcat':
            R.unify(prim('String'), expected); pat(p[1], prim('String'))
        elif k == 'palt':
            for s in p[1]:
                pat(s, expected)
        else:
            raise ValueError(p)

    def block(sts):
        last = R.new()
        for i, s in enumerate(sts):
            if s[0] == 'let':
                t = expr(s[2]); pat(s[1], t); last = t
            elif s[0] == 'expr':
                last = expr(s[1])
            elif s[0] == 'use':
                ps = [R.new() for _ in s[1]]
                for q, t in zip(s[1], ps):
                    pat(q, t)
                tail = block(sts[i + 1:])
                cb = R.new(('Fn', ps, tail)); ret = R.new()
                callee = s[2]
                if callee[0] == 'call':
                    f = expr(callee[1]); args = [expr(a) for a in callee[2]]
                    R.unify(f, R.new(('Fn', args + [cb], ret)))
                else:
                    R.unify(expr(callee), R.new(('Fn', [cb], ret)))
                return ret
        return last

    def expr(e):
        k = e[0]
        if k == 'lit':
            return prim(LITS[assign[e[1]]])
        if k == 'var':
            return env[e[1]]
        if k == 'bin':
            l = expr(e[2]); r = expr(e[3])
            o = assign[e[1]]
            if o is None or o not in OPS_REF:
                raise NoReference('operator %s' % o)
            operand, res = OPS_REF[o]
            if operand is not None:
                R.unify(l, prim(operand))
            R.unify(l, r)
            return prim(res)
        if k == 'tuple':
            return R.new(('Tuple', [expr(x) for x in e[1]]))
        if k == 'tidx':
            b = R.find(expr(e[1])); n = R.node[b]
            if n[0] != 'Tuple':
                raise NoReference('tuple index on a non-tuple')
            i = assign[e[2]]
            if i >= len(n[1]):
                raise IllTyped('tuple index out of range')
            return n[1][i]
        if k == 'list':
            of = R.new()
            for x in e[1]:
                R.unify(expr(x), of)
            lt = R.new(('List', of))
            if e[2] is not None:
                R.unify(expr(e[2]), lt)
            return lt
        if k == 'lambda':
            ps = [bind(n) for n in e[1]]
            return R.new(('Fn', ps, block(e[2])))
        if k == 'pipe':
            l = expr(e[1]); ret = R.new()
            R.unify(expr(e[2]), R.new(('Fn', [l], ret)))
            return ret
        if k == 'call':
            f = expr(e[1]); args = [expr(a) for a in e[2]]; ret = R.new()
            R.unify(f, R.new(('Fn', args, ret)))
            return ret
        if k == 'case':
            subj = [expr(x) for x in e[1]]; ret = R.new()
            for pats, ce in e[2]:
                if len(pats) != len(subj):
                    raise IllTyped('clause arity')
                for q, t in zip(pats, subj):
                    pat(q, t)
                R.unify(expr(ce), ret)
            return ret
        if k == 'block':
            return block(e[1])
        raise ValueError(e)

    pvars = [bind(n) for n in params]
    res = block(stmts)
    return {'params': [R.tree(v) for v in pvars], 'binders': {n: R.tree(v) for n, v in env.items() if n not in params}, 'result': R.tree(res)}


def alpha_eq(pairs):
    """pairs of (observed tree, expected tree): equal modulo ONE consistent bijection between their unknowns"""
    fwd, bwd = {}, {}

    def go(a, b):
        if a[0] == 'var' or b[0] == 'var':
            if a[0] != b[0]:
                return False
            if fwd.setdefault(a[1], b[1]) != b[1] or bwd.setdefault(b[1], a[1]) != a[1]:
                return False
            return True
        if a[0] != b[0]:
            return False
        if a[0] == 'List':
            return go(a[1], b[1])
        if a[0] == 'Tuple':
            return len(a[1]) == len(b[1]) and all(go(x, y) for x, y in zip(a[1], b[1]))
        if a[0] == 'Fn':
            return len(a[1]) == len(b[1]) and all(go(x, y) for x, y in zip(a[1], b[1])) and go(a[2], b[2])
        return True
    return all(go(a, b) for a, b in pairs)


def show(t, names=None):
    names = {} if names is None else names
    if t[0] == 'var':
        if t[1] not in names:
            names[t[1]] = 'abcdefghijklmnopqrstuvwxyz'[len(names) % 26]
        return names[t[1]]
    if t[0] == 'List':
        return 'List(%s)' % show(t[1], names)
    if t[0] == 'Tuple':
        return '#(%s)' % ', '.join(show(x, names) for x in t[1])
    if t[0] == 'Fn':
        return 'fn(%s) -> %s' % (', '.join(show(x, names) for x in t[1]), show(t[2], names))
    return t[0]


# ------------------------------------------------------------------------------------------------ Body construction

class TermBuilder:
    def __init__(self, it, spec):
        self.it = it; self.spec = spec
        self.exprs = []; self.patterns = []
        self.binder = {}          # name -> pattern id
        self.exempt = set()       # expression ids no query can ask the type of (the call of `use x <- f(..)`: inferred piecewise, no entry of its own)
        self.lit_vals = {}        # slot -> python choice made on this path for structure ('some' / 'none' of an operator, tuple index)

    def E(self, variant, fields):
        self.exprs.append(Agg('enum', 'def::module::Expr', variant, fields)); return len(self.exprs) - 1

    def P(self, variant, fields):
        self.patterns.append(Agg('enum', 'def::module::Pattern', variant, fields)); return len(self.patterns) - 1

    def name(self, n):
        return scopes.smol(StrV(n))

    def litkind(self, slot):
        return IntV(self.spec.var[slot], 16, 0)

    def pattern(self, p):
        k = p[0]
        if k == 'pvar':
            pid = self.P('Variable', [self.name(p[1])]); self.binder[p[1]] = pid; return pid
        if k == 'phole':
            return self.P('Hole', [])
        if k == 'plit':
            return self.P('Literal', [self.litkind(p[1])])
        if k == 'ptuple':
            subs = [self.pattern(x) for x in p[1]]
            return self.P('Tuple', [VecV([scopes.idx(s) for s in subs])])
        if k == 'plist':
            subs = [self.pattern(x) for x in p[1]]
            if p[2] is not None:
                if p[2]:
                    sp = self.P('Spread', [some(self.name(p[2]))]); self.binder[p[2]] = sp
                else:
                    sp = self.P('Spread', [none()])
                subs.append(sp)
            return self.P('List', [VecV([scopes.idx(s) for s in subs])])
        if k == 'pas':
            inner = self.pattern(p[1]); asn = self.pattern(('pvar', p[2]))
            return self.P('AsPattern', [scopes.idx(inner), some(scopes.idx(asn))])
        if k == 'pconcat':
            return self.P('Concat', [scopes.idx(self.pattern(p[1]))])
        if k == 'palt':
            subs = [self.pattern(x) for x in p[1]]
            return self.P('AlternativePattern', [VecV([scopes.idx(s) for s in subs])])
        raise ValueError(p)

    def stmts(self, sts):
        out = []
        for s in sts:
            if s[0] == 'let':
                e = self.expr(s[2]); pid = self.pattern(s[1])
                out.append(Agg('enum', 'def::module::Statement', 'Let', [scopes.idx(pid), scopes.idx(e)]))
            elif s[0] == 'use':
                e = self.expr(s[2]); pids = [self.pattern(x) for x in s[1]]
                if s[2][0] == 'call':
                    self.exempt.add(e)
                out.append(Agg('enum', 'def::module::Statement', 'Use', [VecV([scopes.idx(x) for x in pids]), scopes.idx(e)]))
            else:
                out.append(Agg('enum', 'def::module::Statement', 'Expr', [scopes.idx(self.expr(s[1]))]))
        return VecV(out)

    def expr(self, e):
        it, sp = self.it, self.spec
        k = e[0]
        if k == 'lit':
            return self.E('Literal', [self.litkind(e[1])])
        if k == 'var':
            return self.E('Variable', [self.name(e[1])])
        if k == 'bin':
            l = self.expr(e[2]); r = self.expr(e[3])
            v = sp.var[e[1]]
            present = it.choose([(z3.ULT(v, sp.nops), True), (v == sp.nops, False)])
            return self.E('Binary', [scopes.idx(l), scopes.idx(r), some(IntV(v, 16, 0)) if present else none()])
        if k == 'tuple':
            xs = [self.expr(x) for x in e[1]]
            return self.E('Tuple', [VecV([scopes.idx(x) for x in xs])])
        if k == 'tidx':
            b = self.expr(e[1]); v = sp.var[e[2]]
            i = it.choose([(v == j, j) for j in range(4)])
            return self.E('TupleIndex', [scopes.idx(b), self.name('t'), IntV(i, 64, 0)])
        if k == 'list':
            xs = [self.expr(x) for x in e[1]]
            if e[2] is not None:
                xs.append(self.E('Spread', [scopes.idx(self.expr(e[2]))]))
            return self.E('List', [VecV([scopes.idx(x) for x in xs])])
        if k == 'lambda':
            lo = len(self.patterns)
            for n in e[1]:
                self.pattern(('pvar', n))
            hi = len(self.patterns)
            blk = self.E('Block', [self.stmts(e[2])])
            return self.E('Lambda', [scopes.idx(blk), Agg('struct', 'IdxRange', None, [IntV(lo, 32, 0), IntV(hi, 32, 0)])])
        if k == 'pipe':
            l = self.expr(e[1]); r = self.expr(e[2])
            return self.E('Pipe', [scopes.idx(l), scopes.idx(r)])
        if k == 'call':
            f = self.expr(e[1]); args = [self.expr(a) for a in e[2]]
            return self.E('Call', [scopes.idx(f), VecV([tup(none(), scopes.idx(a)) for a in args])])
        if k == 'case':
            subj = [self.expr(x) for x in e[1]]; clauses = []
            for pats, ce in e[2]:
                pids = [self.pattern(x) for x in pats]; cex = self.expr(ce)
                clauses.append(Agg('struct', 'Clause', None, [VecV([scopes.idx(x) for x in pids]), scopes.idx(cex)]))
            return self.E('Case', [VecV([scopes.idx(x) for x in subj]), VecV(clauses)])
        if k == 'block':
            return self.E('Block', [self.stmts(e[1])])
        raise ValueError(e)

    def function(self, params, stmts):
        pids = [self.pattern(('pvar', n)) for n in params]
        be = self.E('Block', [self.stmts(stmts)])
        bodyv = Agg('struct', 'Body', None, [scopes.ArenaV(self.patterns), scopes.ArenaV(self.exprs), VecV([tup(scopes.idx(p), none(), none()) for p in pids]), none(), scopes.idx(be)])
        return bodyv, pids, be


def obs_tree(it, cell, v, depth=0):
    r, e = entry_of(it, cell, v)
    if e is None:
        return ('<taken>',)
    k = e.variant
    if k == 'Unknown':
        return ('var', r)
    if depth > 12:
        return ('<cyclic>',)
    sub = lambda x: obs_tree(it, cell, x.fields[0].v, depth + 1)
    if k == 'List':
        return ('List', sub(e.fields[0]))
    if k == 'Tuple':
        return ('Tuple', tuple(sub(x) for x in e.fields[0].items))
    if k == 'Function':
        return ('Fn', tuple(sub(p.fields[1]) for p in e.fields[0].items), sub(e.fields[1]))
    if k == 'Result':
        return ('Result', sub(e.fields[0]), sub(e.fields[1]))
    return (k,)


class TermSpec:
    def __init__(self, template):
        self.template = template

    def make_interp(self):
        it = unifier.W.interp('ide')
        install(it); scopes.install(it)
        self.ops = op_variants(); self.nops = len(self.ops)
        self.slots = slots_of(TEMPLATES[self.template])
        self.var = {}
        for s in self.slots:
            v = z3.BitVec(s, 16); self.var[s] = v
            it.solver.add(z3.ULT(v, 3) if s[0] == 'k' else z3.ULE(v, self.nops) if s[0] == 'o' else z3.ULT(v, 4))
        spec = self
        M = it.models; TM = it.trait_models

        def resolver_for_expr(it_, c, a):
            return Agg('struct', 'Resolver', None, [Opaque('scopes'), Opaque('module_scope')])

        def resolve_name(it_, c, a):
            nm = models.deref(a[1]).fields[0]
            pid = spec.tb.binder.get(nm.s) if isinstance(nm, StrV) else None
            if pid is None:
                return none()
            return some(Agg('enum', 'ResolveResult', 'Local', [Agg('struct', 'Local', None, [Opaque('fn_id'), scopes.idx(pid)])]))
        M['resolver::resolver_for_expr'] = resolver_for_expr
        M['Resolver::resolve_name'] = resolve_name
        M['Resolver::resolve_type'] = lambda it_, c, a: none()
        M['Resolver::resolve_module'] = lambda it_, c, a: none()
        TM[('Upcast', 'upcast')] = lambda it_, c, a: Opaque('db')
        return it

    def run_path(self, it):
        params, stmts = TEMPLATES[self.template]
        tb = TermBuilder(it, self); self.tb = tb
        bodyv, pids, be = tb.function(params, stmts)
        cell = [mk_table([])]
        bctx, pi, ei = body_ctx()
        ctx = infer_ctx({'body_ctx': bctx, 'idx': IntV(100, 32, 0), 'fn_id': Opaque('fn_id'), 'body': RefV([bodyv], 0), 'table': RefV(cell, 0),
                         'resolver': Agg('struct', 'Resolver', None, [Opaque('scopes'), Opaque('module_scope')])})
        r = it.run_body(body(r'^ty::infer::<impl at [^>]*>::infer_function$'), [RefV([ctx], 0), RefV([bodyv], 0)])
        p2t, e2t = bctx.fields[pi].m, bctx.fields[ei].m
        bad = []
        miss_p = [i for i in range(len(tb.patterns)) if i not in p2t]
        miss_e = [i for i in range(len(tb.exprs)) if i not in e2t and i not in tb.exempt]
        if miss_p or miss_e:
            bad.append('C10: after inferring template %s pattern(s) %s / expression(s) %s have no type entry (ty_for_pattern / ty_for_expr index these maps)' % (self.template, miss_p, miss_e))
        ft = obs_tree(it, cell, r.fields[0].v)
        obs_params = obs_res = None
        if ft[0] != 'Fn' or len(ft[1]) != len(params):
            bad.append('C09: the function type of template %s is %s, not a function of its %d parameters' % (self.template, show(ft), len(params)))
        else:
            obs_params, obs_res = list(ft[1]), ft[2]
        obs_b = {n: obs_tree(it, cell, p2t[pid].fields[0].v) for n, pid in tb.binder.items() if n not in params and pid in p2t}
        obs_p = {n: obs_tree(it, cell, p2t[tb.binder[n]].fields[0].v) for n in params if tb.binder[n] in p2t}
        # every slot assignment the path condition admits
        n_assign = n_ok = n_ill = n_noref = 0
        vs = [self.var[s] for s in self.slots]
        it.solver.push()
        first_bad = None
        try:
            while True:
                it.nq += 1
                if it.solver.check() != z3.sat:
                    break
                m = it.solver.model()
                vals = [m.eval(v, model_completion=True).as_long() for v in vs]
                it.solver.add(z3.Or([v != x for v, x in zip(vs, vals)])) if vs else None
                assign = {}
                for s, x in zip(self.slots, vals):
                    assign[s] = x if s[0] != 'o' else (None if x == self.nops else self.ops[x])
                n_assign += 1
                try:
                    ref = reference(self.template, assign)
                except IllTyped:
                    n_ill += 1; ref = None
                except NoReference:
                    n_noref += 1; ref = None
                if ref is not None and obs_params is not None:
                    pairs = list(zip(obs_params, ref['params'])) + [(obs_res, ref['result'])]
                    pairs += [(obs_p[n], t) for n, t in zip(params, ref['params']) if n in obs_p]
                    pairs += [(obs_b[n], t) for n, t in sorted(ref['binders'].items()) if n in obs_b]
                    if not alpha_eq(pairs):
                        names_o, names_r = {}, {}
                        got = 'fn(%s) -> %s' % (', '.join(show(t, names_o) for t in obs_params), show(obs_res, names_o))
                        want = 'fn(%s) -> %s' % (', '.join(show(t, names_r) for t in ref['params']), show(ref['result'], names_r))
                        bnd_o = {n: show(obs_b[n], names_o) for n in sorted(obs_b)}
                        bnd_r = {n: show(t, names_r) for n, t in sorted(ref['binders'].items())}
                        if first_bad is None:
                            first_bad = (assign, 'C09: %s is typed %s with binders %s; Gleam assigns %s with binders %s' % (render(self.template, assign).replace('\n', ' '), got, bnd_o, want, bnd_r), ref)
                    else:
                        n_ok += 1
                if not vs:
                    break
        finally:
            it.solver.pop()
        cls = 'typed' if n_ok else ('ill-typed' if n_ill else 'no-reference')
        rec = {'cls': cls, 'ok': True, 'sample': {'template': self.template, 'assignments': n_assign, 'agree': n_ok, 'ill_typed': n_ill, 'no_reference': n_noref},
               'extra': {'assignments': n_assign, 'well_typed_agree': n_ok, 'ill_typed': n_ill, 'no_reference': n_noref}}
        if first_bad is not None:
            bad.append(first_bad[1])
        if bad:
            a = first_bad[0] if first_bad else {s: (x if s[0] != 'o' else (None if x == self.nops else self.ops[x])) for s, x in zip(self.slots, [it.get_model().eval(v, model_completion=True).as_long() for v in vs])}
            cex = {'template': self.template, 'assign': a, 'program': render(self.template, a)}
            if first_bad:
                cex['expect'] = expectation(self.template, first_bad[2])
            rec.update({'cls': 'violation', 'ok': False, 'why': bad[:3], 'cex': cex})
        return rec

    def on_panic(self, it, e):
        vs = [self.var[s] for s in self.slots]
        try:
            m = it.get_model(); vals = [m.eval(v, model_completion=True).as_long() for v in vs]
            a = {s: (x if s[0] != 'o' else (None if x == self.nops else self.ops[x])) for s, x in zip(self.slots, vals)}
            prog = render(self.template, a)
        except Exception:
            a, prog = {}, None
        return {'cls': 'panic:' + e.kind, 'ok': False, 'why': ['C10: inference of template %s panics: %s' % (self.template, e)], 'cex': {'template': self.template, 'assign': a, 'program': prog, 'panic': str(e), 'stack': list(e.stack[-3:])}}


def factory(template):
    return TermSpec(template)


# ------------------------------------------------------------------------------------------------ Gleam text and native witness

def render(template, assign):
    params, stmts = TEMPLATES[template]

    def pat(p):
        k = p[0]
        if k == 'pvar':
            return p[1]
        if k == 'phole':
            return '_'
        if k == 'plit':
            return LIT_TEXT[LITS[assign[p[1]]]]
        if k == 'ptuple':
            return '#(%s)' % ', '.join(pat(x) for x in p[1])
        if k == 'plist':
            xs = [pat(x) for x in p[1]]
            if p[2] is not None:
                xs.append('..' + p[2])
            return '[%s]' % ', '.join(xs)
        if k == 'pas':
            return '%s as %s' % (pat(p[1]), p[2])
        if k == 'pconcat':
            return '"s" <> %s' % pat(p[1])
        if k == 'palt':
            return ' | '.join(pat(x) for x in p[1])
        raise ValueError(p)

    def block(sts):
        out = []
        for s in sts:
            if s[0] == 'let':
                out.append('let %s = %s' % (pat(s[1]), expr(s[2])))
            elif s[0] == 'use':
                out.append('use %s <- %s' % (', '.join(pat(x) for x in s[1]), expr(s[2])))
            else:
                out.append(expr(s[1]))
        return '\n  '.join(out)

    def expr(e):
        k = e[0]
        if k == 'lit':
            return LIT_TEXT[LITS[assign[e[1]]]]
        if k == 'var':
            return e[1]
        if k == 'bin':
            o = assign[e[1]]
            return '{ %s %s %s }' % (expr(e[2]), OP_TEXT.get(o, '&&'), expr(e[3]))
        if k == 'tuple':
            return '#(%s)' % ', '.join(expr(x) for x in e[1])
        if k == 'tidx':
            return '%s.%d' % (expr(e[1]), assign[e[2]])
        if k == 'list':
            xs = [expr(x) for x in e[1]]
            if e[2] is not None:
                xs.append('..' + expr(e[2]))
            return '[%s]' % ', '.join(xs)
        if k == 'lambda':
            return 'fn(%s) { %s }' % (', '.join(e[1]), block(e[2]).replace('\n  ', '\n    '))
        if k == 'pipe':
            return '%s |> %s' % (expr(e[1]), expr(e[2]))
        if k == 'call':
            return '%s(%s)' % (expr(e[1]), ', '.join(expr(a) for a in e[2]))
        if k == 'case':
            return 'case %s { %s }' % (', '.join(expr(x) for x in e[1]), '  '.join('%s -> %s' % (', '.join(pat(q) for q in ps), expr(ce)) for ps, ce in e[2]))
        if k == 'block':
            return '{ %s }' % block(e[1])
        raise ValueError(e)
    return 'fn subject(%s) {\n  %s\n}\n' % (', '.join(params), block(stmts))


def expectation(template, ref):
    """JSON-able expected types: the whole signature with ONE naming of the unknowns, and each binder under the same naming"""
    names = {}
    sig = 'fn(%s) -> %s' % (', '.join(show(t, names) for t in ref['params']), show(ref['result'], names))
    return {'signature': sig, 'binders': {n: show(t, names) for n, t in sorted(ref['binders'].items())}, 'params': [show(t, names) for t in ref['params']]}


def parse_ty(s):
    """type as hover prints it -> tree (generic names become ('var', name))"""
    pos = [0]

    def ws():
        while pos[0] < len(s) and s[pos[0]] in ' \n':
            pos[0] += 1

    def items(close):
        out = []
        ws()
        if s[pos[0]] == close:
            pos[0] += 1; return out
        while True:
            out.append(ty()); ws()
            if s[pos[0]] == ',':
                pos[0] += 1; continue
            if s[pos[0]] == close:
                pos[0] += 1; return out
            raise ValueError('parse %r at %d' % (s, pos[0]))

    def ty():
        ws()
        if s.startswith('#(', pos[0]):
            pos[0] += 2; return ('Tuple', tuple(items(')')))
        m = re.match(r'fn\s*\(', s[pos[0]:])
        if m:
            pos[0] += m.end(); ps = items(')'); ws()
            if not s.startswith('->', pos[0]):
                raise ValueError('parse %r' % s)
            pos[0] += 2
            return ('Fn', tuple(ps), ty())
        m = re.match(r'[A-Za-z_][A-Za-z0-9_.]*', s[pos[0]:])
        if not m:
            raise ValueError('parse %r at %d' % (s, pos[0]))
        name = m.group(0); pos[0] += m.end()
        if name[0].islower():
            return ('var', name)
        ws()
        if pos[0] < len(s) and s[pos[0]] == '(':
            pos[0] += 1; args = items(')')
            return ('List', args[0]) if name == 'List' and len(args) == 1 else (name,) + tuple(args)
        return (name,)
    t = ty(); ws()
    if pos[0] != len(s):
        raise ValueError('trailing text in %r' % s)
    return t


def parse_expect(s):
    return parse_ty(s)


def native_witness(oracle, template, assign, ref=None):
    """hover on the function name and on every binder of the rendered program; returns None when the public API shows the types Gleam
    assigns, else a description of the first difference (or of a crash)"""
    import json
    if ref is None:
        try:
            ref = reference(template, assign)
        except (IllTyped, NoReference):
            ref = None
    prog = render(template, assign)
    params, stmts = TEMPLATES[template]
    offs = [prog.index('subject')]
    names = []
    if ref is not None:
        for n in sorted(ref['binders']):
            m = re.search(r'(?<![A-Za-z0-9_."])%s(?![A-Za-z0-9_"])' % re.escape(n), prog[prog.index('{'):])
            if m:
                names.append(n); offs.append(prog.index('{') + m.start())
    if ref is None:
        # ill-typed (or no reference): every position must still answer
        offs = list(range(len(prog)))
    r = oracle.ask('hover', json.dumps({'text': prog, 'offsets': offs}))
    if not isinstance(r, dict) or 'panic' in r or 'died' in r or 'hover' not in r:
        return 'hover on %r: %s' % (prog, str(r)[:300])
    if ref is None:
        return None
    hs = r.get('hover') or []
    if not hs or hs[0] is None:
        return 'hover on the function name of %r gives nothing' % prog
    m = re.search(r'```gleam\n(.*?)\n```', hs[0], flags=re.S)
    try:
        sig = parse_ty(re.sub(r'^fn\s+subject', 'fn', m.group(1).strip()))
        pairs = [(sig, ('Fn', tuple(ref['params']), ref['result']))]
        for n, h in zip(names, hs[1:]):
            if h is None:
                return 'hover on the binder %s of %r gives nothing, Gleam assigns %s' % (n, prog, show(ref['binders'][n]))
            mm = re.search(r'```gleam\n(.*?)\n```', h, flags=re.S)
            pairs.append((parse_ty(mm.group(1).strip()), ref['binders'][n]))
    except (ValueError, AttributeError) as e:
        return 'hover output of %r not understood: %s (%s)' % (prog, hs, e)
    if not alpha_eq(pairs):
        ex = expectation(template, ref)
        return 'hover on %r shows %s / %s; Gleam assigns %s / %s' % (prog, m.group(1).strip(), {n: re.search(r'```gleam\n(.*?)\n```', h, flags=re.S).group(1) for n, h in zip(names, hs[1:])}, ex['signature'], ex['binders'])
    return None
