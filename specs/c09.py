"""C09 — inferred types agree with Gleam's typing (kernel: union-find, unifier with label reordering, freezing)."""
import os, json
from mirsym import explore, native
from . import unifier, kaniuf, termk
from .runner import Check

BOUNDS = {'quick': {'kani': (4, 3), 'labels': 2, 'tables': 2}, 'thorough': {'kani': (5, 4), 'labels': 3, 'tables': 3}}

# programs for the native replay of kernel findings (public API: hover), with the type Gleam assigns
CORPUS = [
    ('fn scale(factor factor: Int, value value: Float) -> Float { value }\nfn capture() { let g = scale(value: 2.5, factor: 1)  g }\n', 'g =', 'Float'),
    ('fn scale(factor factor: Int, value value: Float) -> Float { value }\nfn capture() { let g = scale(2.5, factor: _)  g }\n', 'g =', 'fn(Int) -> Float'),
    ('fn build(name name: String, weight weight: Float, flag flag: Bool) { #(name, weight, flag) }\nfn capture3() { let h = build(1.5, name: _, flag: True)  h }\n', 'h =', 'fn(String) -> #(String, Float, Bool)'),
    ('pub fn a(x) { let y = x + 1  y }\nconst a = 2\n', 'y =', 'Int'),
    ('fn pair(first, second) { #(first, second) }\nfn first() { pair(1, "a") }\nfn other() { let o = pair(1.5, Nil)  o }\n', 'o =', '#(Float, Nil)'),
    ('fn other() { let o = pair(1.5, Nil)  o }\nfn first() { pair(1, "a") }\nfn pair(first, second) { #(first, second) }\n', 'o =', '#(Float, Nil)'),
    ('fn pair(a a: Int, b b: String) { #(a, b) }\nfn use_it() { let r = pair(b: "x", a: 1)  r }\n', 'r =', '#(Int, String)'),
    ('fn apply(f: fn(Int) -> String, x: Int) { f(x) }\nfn main() { let s = apply(fn(i) { "a" }, 1)  s }\n', 's =', 'String'),
    ('fn id(x) { x }\nfn main() { let a = id(1)  let b = id("s")  #(a, b) }\n', 'b =', 'String'),
    ('fn main() { let l = [1, 2]  let t = #(l, "s")  t }\n', 't =', '#(List(Int), String)'),
    ('type T { C(Int, a: String, b: Float) }\nfn f(t: T) { case t { C(p, q, b: r) -> #(p, q, r) } }\n', 'q,', 'String'),
    ('type T { C(Int, a: String, b: Float) }\nfn f(t: T) { case t { C(p, b: r, a: q) -> #(p, q, r) } }\n', 'r,', 'Float'),
    # mutual recursion where one link is a function REFERENCE (bound by let, passed as an argument), not a direct call
    ('fn ping(n: Int) { let h = pong  h(n) }\nfn pong(n: Int) { ping(n) + 1 }\n', 'h =', 'fn(Int) -> Int'),
    ('fn ping(n: Int) { let h = pong  h(n) }\nfn pong(n: Int) { ping(n) + 1 }\n', 'pong(n:', 'fn pong(Int) -> Int'),
    ('fn apply(f, x) { f(x) }\nfn even(n: Int) { case n { 0 -> True  _ -> apply(odd, n - 1) } }\nfn odd(n: Int) { case n { 0 -> False  _ -> even(n - 1) } }\n', 'odd(n:', 'fn odd(Int) -> Bool'),
    ('fn walk(l: List(Int)) { case l { [] -> 0  [h, ..t] -> h + step(t) } }\nfn step(l: List(Int)) { let again = walk  again(l) }\n', 'again =', 'fn(List(Int)) -> Int'),
    # the first mention of the other function's name is a shadowing local, the second the function itself
    ('fn f(x: Int) { let y = { let g = x  g }  g(y) }\nfn g(n: Int) { f(n) + 1 }\n', 'g(n:', 'fn g(Int) -> Int'),
    ('fn f(x: Int) { let y = { let g = x  g }  g(y) }\nfn g(n: Int) { f(n) + 1 }\n', 'f(x:', 'fn f(Int) -> Int'),
] + [
    # a type the module declares under the name of a prelude type IS the annotation (a record of its own: the field access must type)
    ('pub type %s { Mine(inner: Float) }\nfn f(v: %s) { let w = v.inner  w }\n' % (n_, n_), 'w =', 'Float') for n_ in ('Int', 'Float', 'String', 'BitArray', 'Bool', 'Nil', 'List', 'Result')
]


WS_CORPUS = [
    # an alias declared in another module, followed in the same signature by a type that exists only in the current module
    ({'files': [{'path': '/app/src/shop.gleam', 'text': 'import ids.{type Id}\npub type Box { Box(Int) }\nfn pick(id: Id, box: Box) -> Box { let b = box  b }\n', 'root': 0},
                {'path': '/app/src/ids.gleam', 'text': 'pub type Id = Int\n', 'root': 0}],
      'roots': [{'path': '/app', 'local': True, 'deps': []}], 'file': 0}, 'b =', 'Box'),
    # a type imported under the name of a prelude type
    ({'files': [{'path': '/app/src/main.gleam', 'text': 'import other.{type Result}\nfn f(v: Result) { let w = v.inner  w }\n', 'root': 0},
                {'path': '/app/src/other.gleam', 'text': 'pub type Result { Mine(inner: Float) }\n', 'root': 0}],
      'roots': [{'path': '/app', 'local': True, 'deps': []}], 'file': 0}, 'w =', 'Float'),
]


def native_corpus(oracle):
    problems = []
    for req, needle, want in WS_CORPUS:
        src = req['files'][req['file']]['text']
        q = dict(req); q['offsets'] = [src.index(needle)]
        r = oracle.ask('hover', json.dumps(q))
        got = (r.get('hover') or [None])[0] if isinstance(r, dict) else None
        if not isinstance(r, dict) or 'panic' in r or 'died' in r:
            problems.append('hover on the workspace %r: %s' % (src, r))
        elif got is None or want not in got:
            problems.append('hover on %r (workspace with %s) at %r shows %r, Gleam assigns %s' % (src, ', '.join('%s %r' % (f_['path'].split('/')[-1], f_['text']) for f_ in req['files'][1:]), needle, got, want))
    for src, needle, want in CORPUS:
        r = oracle.ask('hover', json.dumps({'text': src, 'offsets': [src.index(needle)]}))
        got = (r.get('hover') or [None])[0] if isinstance(r, dict) else None
        if 'panic' in r or 'died' in r:
            problems.append('hover on %r: %s' % (src, r))
        elif got is None or want not in got:
            problems.append('hover on %r at %r shows %r, Gleam assigns %s' % (src, needle, got, want))
    return problems


def pattern_witness(oracle, cex):
    """hover on the pattern variables of the program a constructor-pattern finding carries; returns a description of the first wrong type"""
    prog = cex['program']
    for var, want in cex['expect'].items():
        off = prog.index(var)
        r = oracle.ask('hover', json.dumps({'text': prog, 'offsets': [off]}))
        got = (r.get('hover') or [None])[0] if isinstance(r, dict) else None
        if not isinstance(r, dict) or 'panic' in r or 'died' in r:
            return 'hover on %r: %s' % (prog, r)
        if want is not None and (got is None or want not in got):
            return 'hover on %s in %r shows %r, Gleam assigns %s' % (var, prog, got, want)
    return None


def run_kernel(chk, tier, jobs, props):
    B = BOUNDS[tier]
    found = []
    for ar in range(1, B['labels'] + 1):
        res, complete = explore.explore(unifier.label_factory, (ar,), jobs=jobs)
        chk.add_run('unify two %d-parameter function types: labels from {none,a,b}, base types from {Unknown,Int,String}' % ar, res, complete,
                    {'arity': ar}, nontrivial_classes=lambda c: c in ('unified', 'mismatch'))
        found += [v for v in res.violations if any(w.startswith(tuple(props)) for w in v['why'])]
    for kk in range(1, 3 if tier == 'quick' else 4):
        res, complete = explore.explore(unifier.call_factory, (kk,), jobs=jobs)
        chk.add_run('infer_expr on a call with %d arguments: labels from {none,a,b}, each argument a capture hole or an Int literal' % kk, res, complete, {'arguments': kk},
                    nontrivial_classes=lambda c: c in ('call', 'capture'))
        found += [v for v in res.violations if any(w.startswith(tuple(props)) for w in v['why'])]
    for mm, kk in ((1, 1), (2, 1), (2, 2), (3, 2)) if tier == 'quick' else ((1, 1), (2, 1), (2, 2), (3, 1), (3, 2), (3, 3)):
        res, complete = explore.explore(unifier.ctorpat_factory, (mm, kk), jobs=1)
        chk.add_run('infer_pattern on a constructor pattern: %d fields (labels from {none,a,b}, unlabelled first), %d sub-patterns (positional first, then labelled)' % (mm, kk), res, complete,
                    {'fields': mm, 'sub_patterns': kk}, nontrivial_classes=lambda c: c.startswith('bound') or c.startswith('ill-formed'))
        found += [v for v in res.violations if any(w.startswith(tuple(props)) for w in v['why'])]
    from . import opk, syn
    syn.load('dev', log=chk.log, need_oracle=False)
    res, complete = explore.explore(opk.factory, (), jobs=1)
    chk.add_run('BinaryOp::op_details (per-token closure) on a token of symbolic kind: the typing class of the BinaryOpKind it maps to vs the class Gleam gives the operator spelled by that token', res, complete,
                {'token_kinds': len(syn.KINDS)}, nontrivial_classes=lambda c: c.startswith('op:'))
    found += [v for v in res.violations if any(w.startswith(tuple(props)) for w in v['why'])]
    syn.W.cleanup()
    from . import termk
    for t in termk.QUICK + (termk.THOROUGH if tier != 'quick' else []):
        res, complete = explore.explore(termk.factory, (t,), jobs=jobs if t in ('binary-chain', 'nested-block', 'call-param', 'lambda-case') else 1)
        chk.add_run('infer_function on the body template %s built as arena data: literal kinds, operators and tuple indices symbolic; every slot assignment a path admits is typed by the reference checker' % t, res, complete,
                    {'template': t, 'slots': termk.slots_of(termk.TEMPLATES[t])}, nontrivial_classes=lambda c: c == 'typed')
        found += [v for v in res.violations if any(w.startswith(tuple(props)) for w in v['why'])]
    from . import deporder
    deporder.W = unifier.W
    for nv in (1, 2) if tier == 'quick' else (1, 2, 3):
        res, complete = explore.explore(deporder.factory, (nv,), jobs=1)
        chk.add_run('dependency_order_query: one function whose body has %d identifier expressions (under-constrained database)' % nv, res, complete, {'identifiers': nv},
                    nontrivial_classes=lambda c: c.startswith('edges:') and c != 'edges:0')
        found += [v for v in res.violations if any(w.startswith(tuple(props)) for w in v['why'])]
    res, complete = explore.explore(deporder.complete_factory, (), jobs=1)
    chk.add_run('dependency_order_query: completeness - every identifier of the body that resolves to a function (callee, argument, let-bound reference; which ones resolve is symbolic) yields an edge', res, complete,
                {'identifiers': 4}, nontrivial_classes=lambda c: c.startswith('edges:') and c != 'edges:0')
    found += [v for v in res.violations if any(w.startswith(tuple(props)) for w in v['why'])]
    res, complete = explore.explore(unifier.shadow_factory, (), jobs=1)
    chk.add_run('make_ty_from_typeref on every unqualified prelude type name: a type of that name in the module scope (presence symbolic) is the annotation, the prelude meaning is the fallback', res, complete,
                {'names': len(unifier.PRELUDE) + 1}, nontrivial_classes=lambda c: c in ('module-type', 'prelude'))
    found += [v for v in res.violations if any(w.startswith(tuple(props)) for w in v['why'])]
    for na in (1, 2):
        res, complete = explore.explore(unifier.alias_factory, (na,), jobs=1)
        chk.add_run('make_ty_from_typeref over every alias graph of %d aliases: the resolver of the function being inferred survives the expansion' % na, res, complete, {'aliases': na},
                    nontrivial_classes=lambda c: c.startswith('expanded'))
        found += [v for v in res.violations if any(w.startswith(tuple(props)) for w in v['why'])]
    for n in range(1, B['tables'] + 1):
        res, complete = explore.explore(unifier.table_factory, (n,), jobs=jobs)
        chk.add_run('arbitrary (also cyclic) type table of %d variables: unify two variables, freeze all' % n, res, complete, {'variables': n, 'shapes': unifier.SHAPES},
                    nontrivial_classes=lambda c: c.startswith('cyclic') or c in ('unified', 'mismatch'))
        found += [v for v in res.violations if any(w.startswith(tuple(props)) for w in v['why'])]
    return found


def main(tier, seed):
    chk = Check('C09', tier, seed)
    jobs = int(os.environ.get('VERIF_JOBS', '16'))
    B = BOUNDS[tier]
    # union-find: Kani / CBMC on the real file
    n, k = B['kani']
    if os.environ.get('VERIF_MATRIX_SKIP_KANI'):
        # only set by seeded/run_against.sh for a seeded change that does not touch union_find.rs (the registered commands never set it)
        kr = {'summary': 'skipped (matrix run, union_find.rs untouched)', 'wall_s': 0.0, 'harnesses': {'skipped': {'successful': True, 'unwinding_failed': False, 'failed_checks': [],
              'covers': [('SATISFIED', 'three elements merged'), ('SATISFIED', 'still separate'), ('SATISFIED', 'unify with an old element')]}}}
    else:
        kr = kaniuf.run(n, k, chk.log, timeout=1500 if tier == 'quick' else 6000)
    chk.log('kani union-find n=%d k=%d: %s (%.0fs)' % (n, k, kr['summary'], kr['wall_s']))
    kani_ok = bool(kr['harnesses']) and all(h['successful'] and not h['unwinding_failed'] for h in kr['harnesses'].values())
    mine = [c for h in kr['harnesses'].values() for c in h['covers'] if c[1] in ('three elements merged', 'still separate', 'unify with an old element')]
    if not kr['harnesses'] or 'no summary' in kr['summary']:
        chk.inconclusive.append('kani did not finish: ' + kr['summary'][:200])
    elif any(c[0] != 'SATISFIED' for c in mine) or len(mine) < 3:
        chk.inconclusive.append('kani reachability witnesses not satisfied (vacuous harness?): %s' % mine)
    failed = [(hn, d) for hn, h in kr['harnesses'].items() for d in h['failed_checks']]
    unifier.load('dev', log=chk.log)
    oracle = native.Oracle(native.build('oracle-ide'))
    try:
        found = run_kernel(chk, tier, jobs, ['C09'])
        corpus_problems = native_corpus(oracle) if (found or failed) else []
        for hn, d in failed[:4]:
            if corpus_problems:
                chk.violation('union-find:' + hn.split('::')[-1], 'bounded', 'kani: %s fails "%s" for some sequence of %d unify calls on %d elements; public API: %s' % (hn, d, k, n, corpus_problems[0][:300]), {'harness': hn, 'check': d}, confirmed=True)
            else:
                chk.inconclusive.append('kani: %s fails "%s" (n=%d,k=%d) but the public-API corpus shows no wrong type' % (hn, d, n, k))
        seen = set()
        for v in found:
            key = v['why'][0][:70]
            if key in seen:
                continue
            seen.add(key)
            if v.get('cex', {}).get('operator'):
                from . import opk
                w = opk.native_witness(oracle, v['cex']['operator'])
                if w:
                    chk.violation('operator-token:' + v['cex']['operator'], 'bounded', '%s; public API: %s' % (v['why'][0][:500], w[:500]), v['cex'], confirmed=True)
                else:
                    chk.inconclusive.append('operator kernel: %s - but hover on %r shows the types Gleam assigns' % (v['why'][0][:300], v['cex'].get('program')))
                continue
            if v.get('cex', {}).get('template'):
                # a term-kernel finding carries its slot assignment: render it, hover on the function and on every binder
                from . import termk
                w = termk.native_witness(oracle, v['cex']['template'], v['cex']['assign'])
                if w:
                    chk.violation('infer-term:' + v['cex']['template'], 'bounded', '%s; public API: %s' % (v['why'][0][:500], w[:500]), v['cex'], confirmed=True)
                else:
                    chk.inconclusive.append('term kernel: %s - but hover on %r shows the types Gleam assigns' % (v['why'][0][:300], v['cex'].get('program')))
                continue
            if v.get('cex', {}).get('expect'):
                # a constructor-pattern finding carries its own program: hover on every pattern variable
                w = pattern_witness(oracle, v['cex'])
                if w:
                    chk.violation('infer-pattern', 'bounded', '%s; public API: %s' % (v['why'][0][:400], w[:400]), v['cex'], confirmed=True)
                else:
                    chk.inconclusive.append('constructor-pattern kernel: %s - but hover on %r shows the expected types' % (v['why'][0][:300], v['cex']['program']))
                continue
            if corpus_problems:
                chk.violation('unifier', 'bounded', '%s; public API: %s' % (v['why'][0][:400], corpus_problems[0][:300]), v['cex'], confirmed=True)
            else:
                chk.inconclusive.append('unifier kernel: %s - the public-API corpus (%d programs) shows no wrong type, not reported as a violation' % (v['why'][0][:300], len(CORPUS)))
        okc = len(CORPUS) - len(native_corpus(oracle)) if not found else 0
        chk.validated += okc
        # native layer (executed, not a solver verdict): every slot assignment of every template as Gleam text through the public API
        from . import termk
        import itertools
        ops = termk.op_variants(); nprog = nbad = 0
        for t in termk.QUICK + (termk.THOROUGH if tier != 'quick' else []):
            slots = termk.slots_of(termk.TEMPLATES[t])
            doms = [range(3) if s_[0] == 'k' else (ops + [None]) if s_[0] == 'o' else range(4) for s_ in slots]
            for vals in itertools.product(*doms):
                a = dict(zip(slots, vals)); nprog += 1
                w = termk.native_witness(oracle, t, a)
                if w:
                    nbad += 1
                    if nbad <= 3:
                        chk.violation('typed-program:' + t, 'enumerated', 'C09: %s' % w[:700], {'template': t, 'assign': a, 'program': termk.render(t, a)}, confirmed=True)
                    if 'died' in w:
                        oracle.close(); oracle = native.Oracle(native.build('oracle-ide'))
                else:
                    chk.validated += 1
        chk.log('native layer: %d rendered programs (every slot assignment of %d templates), hover on the function and every binder vs the reference checker: %d differ' % (nprog, len(termk.QUICK), nbad))
        chk.extra['native_oracle'] = {'typed_programs': nprog, 'differ': nbad}
    finally:
        oracle.close(); unifier.W.cleanup()
    chk.assumptions += [
        'kernel claim: UnionFind (all sequences of k unify on n elements, Kani/CBMC with unwinding assertions), InferCtx::{unify, unify_var_ty, try_unify_var} and Collector over small tables built directly; '
        'InferCtx.db / resolver / body are opaque values the unifier must not touch; the whole-program statement (types of binders in generated programs), make_ty_from_typeref, instantiation and SCC ordering need the salsa database and are outside the claim',
        'call kernel: InferCtx::infer_expr (real MIR, real table and unifier) on calls built directly as arena data: <= 2 (thorough 3) arguments, labels from {none,a,b}, each argument a capture hole or an Int literal, the callee a hole so that the type the call imposes is read back from the table',
        'constructor-pattern kernel: InferCtx::infer_pattern (real MIR, real table) on C(p.., l: p..) built as arena data, resolve_variant answered with m <= 3 fields whose labels the solver chooses (unlabelled first), positional sub-patterns first; reference: the i-th positional sub-pattern binds field i, a labelled one the field of its label',
        'dependency-order kernel: dependency_order_query on its real MIR with the database havoc\'d and one function body of <= 2 (thorough 3) identifier expressions: every non-self edge must come from resolve_name on a resolver built by resolver_for_expr for that very expression; the SCC computation (petgraph) is not executed',
        'reference for label reordering: labelled parameters are paired by label in any order, the remaining ones by position; parameter mismatches do not fail the unification, the return type does (as the code documents)',
        'term kernel: InferCtx::infer_function (real MIR of infer_stmts / infer_expr / infer_pattern, the unifier and the union-find) on %d body templates built as arena data (let / use / case / lambda / pipe / call / tuple / list / spread, patterns: tuple, list + spread, as, string prefix, alternatives); symbolic: each literal\'s kind, each binary operator (None or any BinaryOpKind), tuple indices; per path the solver enumerates every slot assignment the path condition admits and an independent Hindley-Milner checker written from Gleam\'s rules gives the principal types of parameters, binders and result, compared modulo renaming of unknowns; ill-typed assignments must only return and leave every pattern / queried expression with a type entry. Stubs: resolver_for_expr / Resolver::resolve_name answer by unique binder name (scoping is the C05 kernel), resolve_type / resolve_module find nothing, the database is opaque' % len(termk.QUICK + (termk.THOROUGH if tier != 'quick' else [])),
        'operator kernel: syntax::ast::BinaryOp::op_details (closure, real MIR) on a token whose kind is one symbolic SyntaxKind over all kinds: the BinaryOpKind it yields must belong to the typing class Gleam gives that operator spelling (spellings from the #[token] attributes of kind.rs); `!=`, `&&`, `||` may stay unmapped',
        'native layer (executed, not a solver verdict): every slot assignment of every template rendered as Gleam text; hover on the function name and on every binder through ide::Analysis must show the reference types modulo renaming (this runs the parser, lowering, scopes and display as well)',
        'kernel findings are reported only if a public-API corpus of typed programs (hover) shows a wrong type or a crash as well']
    chk.trusted += ['rustc MIR', 'mirsym interpreter + models (Vec, Option, itertools::find_position, HashMap as association list, Arc transparent)', 'z3', 'Kani 0.68 / CBMC 6.11 (union-find)']
    return chk.finish({'kani': {k2: v for k2, v in kr.items() if k2 != 'raw_tail'}, 'native_oracle': chk.extra.get('native_oracle', {})})


def replay(path):
    oracle = native.Oracle(native.build('oracle-ide'))
    print(json.dumps(native_corpus(oracle), indent=1))
    return 0
