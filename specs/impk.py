"""C10 native layer: every import structure over n small modules (z3 AllSAT), every public query at every identifier - none may panic.

For every ordered pair (i, j) of modules - j == i included: a module importing itself - a mode in {none, qualified import + qualified call and
type annotation, unqualified import of the function + plain call, unqualified import of the type and its constructor + pattern}.  The
property names `unresolved, duplicate, self-referential or cyclic imports` explicitly; salsa reports a dependency cycle between queries by
panicking, so any query that follows imports (module scope, inference of a callee in another module) has to be cycle-safe.

Executed code (oracle-ide `answers`: the answers of go-to-definition, references, highlight, hover, completion, prepare-rename
at every identifier, diagnostics and semantic highlighting per file), not a solver verdict; a panic is by construction a native reproduction."""
import json
import z3

MODES = 4


def render(n, mode):
    """mode[i][j] in 0..3"""
    files = []
    for i in range(n):
        imports = []; calls = []; params = 'x'; extra = []
        for j in range(n):
            m = mode[i][j]
            if m == 1:
                imports.append('import m%d' % j)
                calls.append('m%d.f%d(x)' % (j, j))
                extra.append('pub fn g%d_%d(t: m%d.T%d) {\n  t.v\n}\n' % (i, j, j, j))
            elif m == 2:
                imports.append('import m%d.{f%d}' % (j, j))
                calls.append('f%d(x)' % j)
            elif m == 3:
                imports.append('import m%d.{type T%d, T%d}' % (j, j, j))
                extra.append('pub fn h%d_%d(t: T%d) {\n  let T%d(v: w) = t\n  w\n}\n' % (i, j, j, j))
        body = ''.join('  %s\n' % c for c in calls) + '  x\n'
        text = '\n'.join(imports) + ('\n\n' if imports else '') + 'pub type T%d {\n  T%d(v: Int)\n}\n\npub fn f%d(x) {\n%s}\n' % (i, i, i, body)
        if extra:
            text += '\n' + '\n'.join(extra)
        files.append({'id': i, 'path': '/app/src/m%d.gleam' % i, 'text': text, 'root': 0})
    return {'files': files, 'roots': [{'path': '/app', 'local': True, 'deps': [], 'toml': 100}]}


def all_structures(n, limit=None, seed=0, need_cycle=False):
    s = z3.Solver()
    if seed:
        s.set('random_seed', seed)
    v = [[z3.BitVec('m_%d_%d' % (i, j), 2) for j in range(n)] for i in range(n)]
    if need_cycle:
        # at least one import cycle of length 1 or 2 (the interesting region when sampling)
        s.add(z3.Or([v[i][i] != 0 for i in range(n)] + [z3.And(v[i][j] != 0, v[j][i] != 0) for i in range(n) for j in range(i + 1, n)]))
    out = []; nq = 0
    while True:
        nq += 1
        if s.check() != z3.sat:
            break
        m = s.model()
        val = [[m.eval(v[i][j], model_completion=True).as_long() for j in range(n)] for i in range(n)]
        out.append(val)
        s.add(z3.Or([v[i][j] != val[i][j] for i in range(n) for j in range(n)]))
        if limit and len(out) >= limit:
            break
    return out, nq


def probe(oracle, ws):
    """-> (list of panicking answer keys or an error string, number of answers)"""
    r = oracle.ask('answers', json.dumps(ws))
    if not isinstance(r, dict) or 'dump' not in r:
        return ['the oracle answers %s' % str(r)[:300]], 0
    bad = [k for k, a in r['dump'].items() if a == '<panic>']
    return bad, len(r['dump'])
