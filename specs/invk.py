"""Native inverse-view / rename oracles over the PUBLIC ide API (oracle-ide `inverse`, `renameall`), and the workspaces they run on:

* single-file programs rendered from ONE SOLVER MODEL PER EXPLORED PATH of the expression-scope kernel (specs/scopes.py): every path of
  the kernel is an equivalence class of name assignments with identical scope behaviour, the reference resolver says which binder every
  use belongs to;
* multi-module workspaces from a template whose names are drawn from two-letter pools; z3 enumerates EVERY assignment that satisfies the
  well-formedness constraints (distinct top-level values, distinct labels, ...), so that every collision pattern between functions,
  constants, fields, labels, locals, parameters, constructors and types is present.

These are replay / validation layers (natively executed), not solver verdicts: a mismatch is by construction reproduced against the real code."""
import json, re
import z3

LOW = 'xy'
UP = 'AB'

# slots: (name, pool)   -- lower-case value names, labels and locals share one pool so that they collide textually
WS_SLOTS = [('fn1', LOW), ('const1', LOW), ('lab1', LOW), ('lab2', LOW), ('local1', LOW), ('param1', LOW), ('pat1', LOW), ('pat2', LOW),
            ('ty1', UP), ('ctor1', UP), ('ctor2', UP), ('alias1', UP)]


def ws_constraints(v):
    c = []
    c.append(v['fn1'] != v['const1'])            # top-level values of module a are distinct
    c.append(v['lab1'] != v['lab2'])             # labels of one constructor are distinct
    c.append(v['ctor1'] != v['ctor2'])           # constructors of one type are distinct
    c.append(v['ty1'] != v['alias1'])            # types of module a are distinct
    c.append(v['pat1'] != v['pat2'])             # binders of one pattern are distinct
    return c


def ws_render(n):
    """n: slot -> concrete name"""
    a = ('pub type {ty1} {{\n  {ctor1}({lab1}: Int, {lab2}: Int)\n  {ctor2}({lab1}: Int)\n}}\n\n'
         'pub type {alias1} = {ty1}\n\n'
         'pub const {const1} = 1\n\n'
         'pub fn {fn1}({param1}) {{\n  {param1}\n}}\n\n'
         'pub fn get(v: {ty1}) {{\n  v.{lab1}\n}}\n').format(**n)
    b = ('import zq.{{type {ty1}, {ctor1}, {ctor2}, {fn1}, {const1}}}\nimport zq as m\n\n'
         'pub fn main({param1}: {ty1}, w: m.{alias1}) {{\n'
         '  let {local1} = {fn1}({const1})\n'
         '  let {ctor1}({lab1}: {pat1}, {lab2}: {pat2}) = {param1}\n'
         '  let r = case w {{\n'
         '    m.{ctor2}({lab1}: {pat1}) -> {pat1}\n'
         '    {ctor1}({lab2}: {pat2}, ..) -> {pat2}\n'
         '  }}\n'
         '  let u = {ctor1}({lab1}: {local1}, {lab2}: m.{const1})\n'
         '  let t = m.{ctor2}({lab1}: r)\n'
         '  m.{fn1}({pat1}) + {pat2} + r + u.{lab1} + {param1}.{lab1} + t.{lab1} + m.get(w)\n'
         '}}\n').format(**n)
    c = ('import zq\n\npub fn {fn1}({local1}: zq.{ty1}) {{\n  let {const1} = zq.{fn1}(zq.{const1})\n  case {local1} {{\n    zq.{ctor1}({lab2}: {lab1}, ..) -> {lab1}\n    zq.{ctor2}(..) -> {const1}\n  }}\n}}\n\n'
         'pub fn mk() {{\n  zq.{ctor1}({lab1}: 1, {lab2}: 2)\n}}\n').format(**n)
    # d never mentions the declaring module of the record: the field is reached through the inferred type only
    d = ('import c\n\npub fn go() {{\n  c.mk().{lab1} + c.mk().{lab2}\n}}\n').format(**n)
    # two identical modules: their occurrences sit at the same byte offsets
    e = ('import zq\n\npub fn go() {{\n  zq.{fn1}(zq.{const1})\n}}\n').format(**n)
    return {'files': [{'path': '/app/src/zq.gleam', 'text': a, 'root': 0}, {'path': '/app/src/b.gleam', 'text': b, 'root': 0}, {'path': '/app/src/c.gleam', 'text': c, 'root': 0},
                      {'path': '/app/src/d.gleam', 'text': d, 'root': 0}, {'path': '/app/src/e1.gleam', 'text': e, 'root': 0}, {'path': '/app/src/e2.gleam', 'text': e, 'root': 0}],
            'roots': [{'path': '/app', 'local': True, 'deps': []}]}


def ws_all_assignments(limit=None):
    """every assignment of the slots that satisfies the constraints (z3 AllSAT by blocking clauses)"""
    vs = {name: z3.BitVec(name, 2) for name, _ in WS_SLOTS}
    s = z3.Solver()
    for name, pool in WS_SLOTS:
        s.add(z3.ULT(vs[name], len(pool)))
    s.add(ws_constraints(vs))
    out = []
    nq = 0
    while True:
        nq += 1
        if s.check() != z3.sat:
            break
        m = s.model()
        val = {name: m.eval(vs[name], model_completion=True).as_long() for name, _ in WS_SLOTS}
        out.append({name: dict(WS_SLOTS)[name][val[name]] for name in val})
        s.add(z3.Or([vs[name] != val[name] for name in val]))
        if limit and len(out) >= limit:
            break
    return out, nq


# ------------------------------------------------------------------------------------------------ inverse view (C06)

def inverse_entries(oracle, ws):
    r = oracle.ask('inverse', json.dumps(ws))
    if not isinstance(r, dict) or 'inverse' not in r:
        return None, r
    return r['inverse'], None


def check_inverse(entries, expected=None):
    """self-consistency of goto_definition / references / highlight_related over all identifier tokens of a workspace.
    expected (optional): {(file, start): frozenset of (file, start) occurrence starts} for occurrences whose reference set is known by construction.
    returns a list of problem strings"""
    problems = []
    by = {(e['file'], e['start'], e['end']): e for e in entries}
    for e in entries:
        for fld in ('goto', 'refs', 'hl'):
            if e[fld] in ('<panic>', '<cancelled>'):
                problems.append('%s at %d:%d..%d (%r) answers %s' % (fld, e['file'], e['start'], e['end'], e['text'], e[fld]))
    if problems:
        return problems

    def tgt(e):
        return [tuple(t) for t in (e['goto'] or [])]

    def is_decl(e):
        # go-to-definition from a declaration's own name stays on it (the focus range of a spread binder `..rest` contains the name)
        return any(t[0] == e['file'] and t[1] <= e['start'] and e['end'] <= t[2] for t in tgt(e))
    decls = [e for e in entries if e['goto'] and is_decl(e)]
    for d in decls:
        dk = (d['file'], d['start'], d['end'])
        if d['refs'] is None:
            problems.append('the declaration %r at %d:%d has no references answer' % (d['text'], d['file'], d['start'])); continue
        R = [tuple(r) for r in d['refs']]
        if len(set(R)) != len(R):
            problems.append('references of %r (%d:%d) lists an occurrence twice: %s' % (d['text'], d['file'], d['start'], sorted(R)))
        Rs = set(R)
        if dk not in Rs:
            problems.append('references of the declaration %r at %d:%d..%d does not include the declaration\'s own name: %s' % (d['text'], d['file'], d['start'], d['end'], sorted(Rs)))
        for r in Rs:
            if r not in by:
                problems.append('references of %r (%d:%d) lists %s, which is not a whole identifier token' % (d['text'], d['file'], d['start'], r))
            elif by[r]['text'] != d['text']:
                problems.append('references of %r (%d:%d) lists the token %r at %s' % (d['text'], d['file'], d['start'], by[r]['text'], r))
        dt = set(tgt(d))
        for o in entries:
            if o['text'] != d['text']:
                continue
            ok_ = (o['file'], o['start'], o['end'])
            leads = bool(set(tgt(o)) & dt)
            if leads != (ok_ in Rs):
                problems.append('%r at %d:%d..%d: go-to-definition %s the declaration at %d:%d, but references of that declaration %s it' %
                                (o['text'], o['file'], o['start'], o['end'], 'leads to' if leads else 'does not lead to', d['file'], d['start'], 'lists' if ok_ in Rs else 'does not list'))
        for r in Rs:
            if r in by:
                o = by[r]
                if o['refs'] is None or set(tuple(x) for x in o['refs']) != Rs:
                    problems.append('references asked from the listed occurrence %d:%d..%d of %r gives %s, asked from the declaration %s' %
                                    (o['file'], o['start'], o['end'], o['text'], sorted(tuple(x) for x in (o['refs'] or [])), sorted(Rs)))
                hl = sorted(tuple(x) for x in (o['hl'] or []))
                want = sorted((s, e2) for (f, s, e2) in Rs if f == o['file'])
                if hl != want:
                    problems.append('document highlight at %d:%d..%d (%r) gives %s; the references in that file are %s' % (o['file'], o['start'], o['end'], o['text'], hl, want))
    # occurrences that resolve somewhere but are not covered by any declaration we saw (e.g. the target is not an identifier token)
    if expected:
        for (f, s), occ in expected.items():
            e = next((x for x in entries if x['file'] == f and x['start'] == s), None)
            if e is None:
                problems.append('no identifier token at %d:%d' % (f, s)); continue
            got = set((r[0], r[1]) for r in (e['refs'] or []))
            if got != set(occ):
                problems.append('references from %r at %d:%d gives the occurrences %s; by construction the declaration is referenced at %s' % (e['text'], f, s, sorted(got), sorted(occ)))
            hl = set((f, h[0]) for h in (e['hl'] or []))
            if hl != set(o for o in occ if o[0] == f):
                problems.append('document highlight from %r at %d:%d gives %s; by construction %s' % (e['text'], f, s, sorted(hl), sorted(o for o in occ if o[0] == f)))
    return problems


# ------------------------------------------------------------------------------------------------ rename (C07)

def check_rename(oracle, ws, entries, new_lower='zz', new_upper='Zz', only=None):
    """rename from every identifier occurrence at which it is accepted: edits = the references, whole tokens, no overlap; afterwards every
    occurrence resolves to the corresponding declaration, the number of diagnostics is unchanged, renaming back restores the text.
    returns (problems, accepted, refused)"""
    problems = []; accepted = 0; refused = 0
    texts = [f['text'] for f in ws['files']]
    toks = {(e['file'], e['start']): e for e in entries}
    for e in entries:
        if only is not None and (e['file'], e['start']) not in only:
            continue
        if not e['goto']:
            continue
        new = new_upper if e['text'][:1].isupper() else new_lower
        req = dict(ws, file=e['file'], offset=e['start'], old_name=e['text'], new_name=new)
        r = oracle.ask('renameall', json.dumps(req))
        if not isinstance(r, dict) or 'rename' not in r:
            problems.append('rename at %d:%d (%r): %s' % (e['file'], e['start'], e['text'], r)); continue
        if not r['rename'].get('ok'):
            refused += 1
            continue
        accepted += 1
        where = 'rename of %r at %d:%d to %r' % (e['text'], e['file'], e['start'], new)
        eds = [tuple(x) for x in r['rename']['edits']]
        if 'apply_err' in r:
            problems.append('%s: %s (edits %s)' % (where, r['apply_err'], sorted(eds))); continue
        refs = set(tuple(x) for x in (e['refs'] or []))
        if (e['file'], e['start'], e['end']) not in set((f, s, en) for f, s, en, _ in eds):
            problems.append('%s: accepted, but the occurrence under the cursor is not among the edits %s' % (where, sorted((f, s, en) for f, s, en, _ in eds)))
        if set((f, s, en) for f, s, en, _ in eds) != refs or len(eds) != len(refs):
            problems.append('%s: the edits %s do not cover exactly the references %s' % (where, sorted((f, s, en) for f, s, en, _ in eds), sorted(refs)))
        for f, s, en, t in eds:
            if t != new:
                problems.append('%s: an edit inserts %r' % (where, t))
            tk = toks.get((f, s))
            if tk is None or tk['end'] != en or tk['text'] != e['text']:
                problems.append('%s: the edit %d:%d..%d does not replace a whole identifier token spelled %r' % (where, f, s, en, e['text']))
        if r['diag_before'] != r['diag_after']:
            problems.append('%s: diagnostics per file before %s, after %s' % (where, r['diag_before'], r['diag_after']))
        if r.get('back_texts') != texts:
            problems.append('%s: renaming back does not restore the text (%s)' % (where, r.get('back_err') or 'texts differ'))
        # every identifier still resolves to the corresponding declaration
        ws2 = {'files': [dict(f, text=t) for f, t in zip(ws['files'], r['texts'])], 'roots': ws['roots']}
        ent2, err = inverse_entries(oracle, ws2)
        if ent2 is None:
            problems.append('%s: the edited workspace cannot be analysed: %s' % (where, err)); continue
        per_file = {}
        for f, s, en, t in eds:
            per_file.setdefault(f, []).append((s, en))

        def shift(f, off):
            d = 0
            for s, en in per_file.get(f, []):
                if s < off:
                    d += len(new) - (en - s)
            return off + d
        if len(ent2) != len(entries):
            problems.append('%s: the edited workspace has %d identifier tokens, the original %d' % (where, len(ent2), len(entries))); continue
        by2 = {(x['file'], x['start']): x for x in ent2}
        for o in entries:
            o2 = by2.get((o['file'], shift(o['file'], o['start'])))
            if o2 is None:
                problems.append('%s: the identifier %r at %d:%d has no counterpart after the rename' % (where, o['text'], o['file'], o['start'])); break
            g1 = sorted((t[0], shift(t[0], t[1])) for t in (o['goto'] or []))
            g2 = sorted((t[0], t[1]) for t in (o2['goto'] or []))
            if g1 != g2:
                problems.append('%s: %r at %d:%d resolved to %s (in new coordinates), after the rename %r resolves to %s' % (where, o['text'], o['file'], o['start'], g1, o2['text'], g2)); break
    return problems, accepted, refused


def check_rename_loose(oracle, text, entries, new_lower='zz', new_upper='Zz'):
    """the same program as a free-standing document that no package owns: a rename that is accepted edits exactly the references
    (declaration included) - an accepted rename with no or fewer edits silently leaves occurrences behind.  returns (problems, accepted)"""
    problems = []; accepted = 0
    for e in entries:
        if not e['goto']:
            continue
        new = new_upper if e['text'][:1].isupper() else new_lower
        r = oracle.ask('rename', json.dumps({'text': text, 'offset': e['start'], 'new_name': new}))
        if not isinstance(r, dict) or 'rename' not in r:
            problems.append('free-standing document: rename at %d (%r): %s' % (e['start'], e['text'], r)); continue
        if not r['rename'].get('ok'):
            continue
        accepted += 1
        eds = sorted((s_, en) for _, s_, en, _ in r['rename']['edits'])
        refs = sorted((s_, en) for _, s_, en in (e['refs'] or []))
        if (e['start'], e['end']) not in eds:
            problems.append('as a free-standing document without a package: rename of %r at offset %d to %r is accepted but does not edit the occurrence under the cursor (edits: %s)' % (e['text'], e['start'], new, eds))
        elif eds != refs:
            problems.append('as a free-standing document without a package: rename of %r at offset %d to %r is accepted with the edits %s, the references are %s' % (e['text'], e['start'], new, eds, refs))
    return problems, accepted


# a record type whose FIRST variant and a later one share a label that is not common to all variants: by construction the label of a
# constructor call / pattern belongs to the field of THAT variant
LABEL_TEXT = ('pub type Shape { Circle(radius: Int, name: String) Square(side: Int, name: String) Point }\n'
              'pub fn mk() { Square(side: 1, name: "s") }\n'
              'pub fn nm(s: Shape) { case s { Square(name: n, side: _) -> n  Circle(name: m, radius: _) -> m  Point -> "p" } }\n')


def label_expected():
    occ = lambda w: [m.start() for m in re.finditer(r'\b%s\b' % w, LABEL_TEXT)]
    nm = occ('name'); sd = occ('side'); rd = occ('radius')
    groups = [[nm[0], nm[4]], [nm[1], nm[2], nm[3]], sd, rd]
    exp = {}
    for g in groups:
        for o in g:
            exp[(0, o)] = frozenset((0, x) for x in g)
    return exp

