"""C10 native layer: single-token damage of well-formed template programs - every public query at every identifier must still answer.

Texts: the module variants of the C11 history template, the six modules of the C06 workspace template (one naming) and the import-structure
modules.  Damage: every token (identifier, number, string, punctuation; comments and blanks excluded) is, one at a time, deleted, doubled,
or replaced by each of a few hostile spellings.  The damaged module is analysed in its workspace (the other modules intact), so that
cross-module queries run over the broken file as well.  Exhaustive inside that bound; executed code (oracle-ide `answers`), not a solver verdict."""
import json, re
from . import histk, invk, impk

TOK = re.compile(r'\s+|//[^\n]*|"(?:[^"\\]|\\.)*"|[A-Za-z_][A-Za-z0-9_]*|[0-9]+(?:\.[0-9]+)?|->|<-|\|>|<>|==|!=|<=|>=|&&|\|\||\.\.|.', re.S)
HOSTILE = ['', None, '(', '}', 'fn', '99999999999999999999999', '_', '"', 'é']        # None = the token doubled


def tokens(text):
    out = []; pos = 0
    for m in TOK.finditer(text):
        t = m.group(0)
        if not t.strip() or t.startswith('//'):
            continue
        out.append((m.start(), m.end()))
    return out


def workspaces():
    """[(label, workspace state, index of the file to damage)]"""
    out = []
    st = {'a': 3, 'b': 1, 'l': 1, 'c': 1, 'edge': 1, 'bdir': 0}
    base = histk.render(st)
    for i, f in enumerate(base['files']):
        out.append(('history template, %s' % f['path'], base, i))
    for a_ in (0, 1, 4):
        ws = histk.render(dict(st, a=a_, b=4))
        out.append(('history template (a=%d), /app/src/a.gleam' % a_, ws, 0))
    asg, _ = invk.ws_all_assignments(limit=1)
    ws6 = invk.ws_render(asg[0])
    ws6 = {'files': [dict(f, id=i) for i, f in enumerate(ws6['files'])], 'roots': [dict(r, toml=100 + i) for i, r in enumerate(ws6['roots'])]}
    for i, f in enumerate(ws6['files'][:4]):
        out.append(('workspace template, %s' % f['path'], ws6, i))
    wi = impk.render(2, [[0, 1], [3, 0]])
    out.append(('import template, m0', wi, 0)); out.append(('import template, m1', wi, 1))
    return out


def variants(text):
    for (s, e) in tokens(text):
        for h in HOSTILE:
            rep = text[s:e] * 2 if h is None else h
            if rep == text[s:e]:
                continue
            yield (s, e, rep), text[:s] + rep + text[e:]


def probe(oracle, ws, idx, text):
    ws2 = dict(ws, files=[dict(f, text=text) if i == idx else f for i, f in enumerate(ws['files'])])
    r = oracle.ask('answers', json.dumps(ws2))
    if not isinstance(r, dict) or 'dump' not in r:
        return ['the oracle answers %s' % str(r)[:300]], 0
    bad = [k for k, a in r['dump'].items() if a == '<panic>' or (k.endswith('semantic_windows') and isinstance(a, list) and any(w[2] == '<panic>' for w in a))]
    return bad, len(r['dump'])
