"""C18 native layer: what is offered after `module.` and at an expression position without a typed prefix (public API, oracle-ide `complete`).

(a) module surface: a module `m` declares a function, a constant and a custom type with one constructor; their visibilities are enumerated
    by z3 (function / constant: pub or private; type: pub, pub opaque or private).  In a module that imports `m`, completion after `m.` is
    asked three ways: triggered by the `.`; with a typed prefix and no trigger character (the editor re-queries while the user types);
    and with a parameter called `m` of a record type in scope (Gleam tries the record access first and falls back to the module, so the field
    and the module's public items are both valid continuations).  The property: after `module.` exactly that
    module's public functions and the constructors of its public, non-opaque types; after `value.` exactly the fields of the value's type.
(b) prefix independence: on solver models of the scope kernel's paths (rendered programs), completion at the end of the function body with a
    typed identifier and completion at the same place with nothing typed must offer the same names - the kernel decides the former.

Executed code, not a solver verdict."""
import json
import z3

FV = ['pub ', '']                    # function / constant
TV = ['pub ', 'pub opaque ', '']     # type


def surfaces():
    s = z3.Solver()
    f, c, t = z3.BitVec('f', 2), z3.BitVec('c', 2), z3.BitVec('t', 2)
    s.add(z3.ULT(f, 2), z3.ULT(c, 2), z3.ULT(t, 3))
    out = []
    while s.check() == z3.sat:
        m = s.model()
        v = tuple(m.eval(x, model_completion=True).as_long() for x in (f, c, t))
        out.append(v); s.add(z3.Or(f != v[0], c != v[1], t != v[2]))
    return sorted(out)


def module_m(v):
    return '%sfn public() { 1 }\n%sconst k = 1\n%stype T { Made(v: Int) }\nfn helper() { 2 }\n' % (FV[v[0]], FV[v[1]], TV[v[2]])


def expected_module(v):
    exp = set()
    if v[0] == 0:
        exp.add('public')
    if v[2] == 0:
        exp.add('Made')
    return exp


def ask(oracle, files, fi, trigger=None):
    fs = []; off = None
    for i, (n, t) in enumerate(files):
        if i == fi:
            off = len(t[:t.index('$0')].encode('utf-8')); t = t.replace('$0', '')
        fs.append({'path': '/app/src/%s.gleam' % n, 'text': t, 'root': 0})
    req = {'files': fs, 'roots': [{'path': '/app', 'local': True, 'deps': []}], 'file': fi, 'offsets': [off]}
    if trigger:
        req['trigger'] = trigger
    r = oracle.ask('complete', json.dumps(req))
    if not isinstance(r, dict) or 'complete' not in r:
        return None, r
    return set((r['complete'] or [None])[0] or []), r


def check_surface(oracle, v):
    """-> list of (site, problem)"""
    probs = []
    m = ('m', module_m(v)); exp = expected_module(v)
    what = 'module m = %r' % m[1]
    got, raw = ask(oracle, [('a', 'import m\nfn main() { m.$0 }\n'), m], 0, trigger='.')
    if got is None:
        probs.append(('dot:triggered', '%s: completion after `m.` fails: %s' % (what, str(raw)[:200])))
    elif got != exp:
        probs.append(('dot:triggered:' + ('opaque' if v[2] == 1 and 'Made' in got else 'private' if got - exp else 'missing'),
                      '%s: after `m.` (triggered) the items %s are offered; the public functions and constructors of m are %s' % (what, sorted(got), sorted(exp))))
    got, raw = ask(oracle, [('a', 'import m\nfn main() { m.pu$0 }\n'), m], 0)
    if got is None:
        probs.append(('dot:prefix', '%s: completion after `m.pu` fails: %s' % (what, str(raw)[:200])))
    elif got != exp:
        probs.append(('dot:prefix', '%s: after `m.pu` (a typed prefix, no trigger character) the items %s are offered; the public functions and constructors of m are %s' % (what, sorted(got), sorted(exp))))
    got, raw = ask(oracle, [('a', 'import m\ntype R { R(field: Int) }\nfn main(m: R) { m.$0 }\n'), m], 0, trigger='.')
    if got is None:
        probs.append(('dot:shadow', '%s: completion after `m.` with a parameter m fails: %s' % (what, str(raw)[:200])))
    elif 'field' not in got or not got <= ({'field'} | exp):
        # Gleam tries the record access first and falls back to the module of that name: both continuations are valid here
        probs.append(('dot:shadow', '%s: `m.` where m is a parameter of the record type R(field: Int) named like the imported module m offers %s; valid are the field `field` and the public items %s of the module' % (what, sorted(got), sorted(exp))))
    return probs


def prefix_independence(oracle, text_with_marker):
    """text_with_marker contains $0 at an expression position at the end of a function body.  -> problem or None"""
    a = text_with_marker.replace('$0', 'zzq$0')
    off_a = len(a[:a.index('$0')].encode('utf-8')); a = a.replace('$0', '')
    b = text_with_marker
    off_b = len(b[:b.index('$0')].encode('utf-8')); b = b.replace('$0', '')
    ra = oracle.ask('complete', json.dumps({'text': a, 'offsets': [off_a]}))
    rb = oracle.ask('complete', json.dumps({'text': b, 'offsets': [off_b]}))
    if not isinstance(ra, dict) or not isinstance(rb, dict) or 'complete' not in ra or 'complete' not in rb:
        return 'completion fails on %r: %s / %s' % (b, str(ra)[:100], str(rb)[:100])
    ga = set((ra['complete'] or [None])[0] or []); gb = set((rb['complete'] or [None])[0] or [])
    if ga != gb:
        return 'at the end of the body of %r completion offers %s when nothing is typed, and %s when an identifier is being typed there' % (b, sorted(gb), sorted(ga))
    return None


# blank expression position right after a binder-bearing statement: every statement kind x every pattern shape (sub-patterns that lowering
# does not give a source-map entry - literals, the prefix of a string-prefix pattern, discards - included)
BLANK_PATTERNS = [('v1', ['v1']), ('#(v1, _)', ['v1']), ('[v1, ..v2]', ['v1', 'v2']), ('"pre" <> v1', ['v1']), ('C(v1)', ['v1']), ('#(v1, 1) as v2', ['v1', 'v2']),
                  ('#("s", v1)', ['v1']), ('[1, v1]', ['v1']), ('C(_)', []), ('_', []), ('1', [])]
BLANK_STATEMENTS = [('let %s = x', 'let'), ('let assert %s = x', 'let assert'), ('use %s <- g(x)', 'use')]


def blank_after_statement(oracle):
    """-> (programs checked, [problem])"""
    probs = []; n = 0
    for pat, binders in BLANK_PATTERNS:
        for stmt, kind in BLANK_STATEMENTS:
            for tail in ('', '\n  y'):
                text = 'type T { C(Int) }\nfn g(a, k) { k(a) }\nfn f(x) {\n  let y = 1\n  %s\n  $0%s\n}\n' % (stmt % pat, tail)
                n += 1
                pr = prefix_independence(oracle, text)
                if pr:
                    probs.append('after `%s`: %s' % (stmt % pat, pr)); continue
                b = text
                off = len(b[:b.index('$0')].encode('utf-8')); b = b.replace('$0', '')
                r = oracle.ask('complete', json.dumps({'text': b, 'offsets': [off]}))
                got = set(x.split('|')[0] for x in ((r.get('complete') or [None])[0] or [])) if isinstance(r, dict) else set()
                missing = [v for v in binders + ['x', 'y'] if v not in got]
                if missing:
                    probs.append('at the blank position after `%s` in %r completion does not offer %s, which are in scope there (offered: %s)' % (stmt % pat, b, missing, sorted(got)[:12]))
    return n, probs


# a name bound more than once along the scope chain with DIFFERENT types: the item offered is the innermost binding (the one the name denotes there)
REBIND = [('fn f(x: Int) {\n  let x = "s"\n  x$0\n}\n', 'x', 'String', 'a let re-binding a parameter'),
          ('fn f(x: Int) {\n  let y = 1.5\n  let y = "s"\n  y$0\n}\n', 'y', 'String', 'a let re-binding an earlier let'),
          ('fn f(x: Int) {\n  case "s" { x -> x$0 }\n}\n', 'x', 'String', 'a case-clause binder re-using the name of a parameter'),
          ('fn f(x: Int) {\n  let x = "s"\n  $0\n}\n', 'x', 'String', 'a let re-binding a parameter, nothing typed yet')]


def rebinding_probes(oracle):
    probs = []
    for b, name, want, what in REBIND:
        off = len(b[:b.index('$0')].encode('utf-8')); t = b.replace('$0', '')
        r = oracle.ask('complete', json.dumps({'text': t, 'offsets': [off], 'details': True}))
        items = [i for i in ((r.get('complete') or [None])[0] or []) if i[0] == name] if isinstance(r, dict) else None
        if items is None or len(items) != 1 or items[0][1] != want:
            probs.append('%s (%r): completion describes `%s` as %s; at that position the name denotes the innermost binding, of type %s' % (what, t, name, items, want))
    return probs

