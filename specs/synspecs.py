"""Path specs over the syntax crate: token-kind sequences, one lexer step, bytes -> tree."""
import z3
from mirsym.values import *
from mirsym import models
from . import syn


class FuelHook:
    """records the minimum fuel ever stored (= 1024 - look-aheads since the last bump, at its worst)"""
    def __init__(self):
        self.min = None

    def __call__(self, it, callee, args):
        if callee.endswith('::set') and 'Cell' in callee:
            v = args[1]
            if isinstance(v, IntV) and not v.sym():
                self.min = v.v if self.min is None else min(self.min, v.v)


class TokenSpec:
    """n raw tokens with symbolic kinds in [lo, hi] through the real parse_module MIR (lexer call replaced).

    checks per path:  (C02) no panic;  (C01) the builder log is one balanced tree whose tokens are exactly raw
    tokens 0..n-1 in order with their own kind and text;  (C20i) every error range is a token's range or the
    empty range at the end of the text."""

    def __init__(self, n, lo='IDENT', hi='ERROR', exclude=(), prefix=(), suffix=()):
        """token vector = prefix (concrete kind names) + n symbolic kinds + suffix (concrete)"""
        self.nsym = n; self.lo = lo; self.hi = hi; self.exclude = exclude
        self.prefix = list(prefix); self.suffix = list(suffix)
        self.n = len(self.prefix) + n + len(self.suffix)

    def make_interp(self):
        it = syn.W.interp('syntax')
        self.syms = [z3.BitVec('k%d' % i, 16) for i in range(self.nsym)]
        lo, hi = syn.KINDS[self.lo], syn.KINDS[self.hi]
        for k in self.syms:
            it.solver.add(z3.UGE(k, lo), z3.ULE(k, hi))
            for x in self.exclude:
                it.solver.add(k != syn.KINDS[x])
        self.ks = [z3.BitVecVal(syn.KINDS[x], 16) for x in self.prefix] + self.syms + [z3.BitVecVal(syn.KINDS[x], 16) for x in self.suffix]
        self.kiv = [IntV(syn.KINDS[x], 16, 0) for x in self.prefix] + [IntV(k, 16, 0) for k in self.syms] + [IntV(syn.KINDS[x], 16, 0) for x in self.suffix]
        self.fuel = FuelHook()
        it.call_hooks.append(self.fuel)
        return it

    def witness(self, it):
        ks = syn.model_kinds(it, self.ks)
        return [syn.INV.get(k, k) for k in ks]

    def alternatives(self, it, limit=24):
        """other models of the same path (a raw kind sequence may not be producible by the lexer: try several)"""
        out = []
        it.solver.push()
        try:
            for _ in range(limit):
                if it.solver.check() != z3.sat:
                    break
                m = it.solver.model()
                vals = [m.eval(k, model_completion=True).as_long() for k in self.ks]
                out.append({'kinds': [syn.INV.get(k, k) for k in vals]})
                it.solver.add(z3.Or([k != v for k, v in zip(self.syms, vals[len(self.prefix):len(self.prefix) + self.nsym])]) if self.syms else z3.BoolVal(False))
        finally:
            it.solver.pop()
        return out

    def run_path(self, it):
        n = self.n
        self.fuel.min = None
        kinds_iv = [IntV(k.v, 16, 0) for k in self.kiv]
        res, src = syn.parse_tokens(it, kinds_iv)
        log, errors = syn.parse_result(res)
        toks = syn.log_tokens(log)
        bad = []
        rp = syn.root_problem(log)
        if rp:
            bad.append(rp)
        # C01: lossless
        if len(toks) != n:
            bad.append('C01: tree has %d tokens, input has %d' % (len(toks), n))
        else:
            for i, (k, off, ln) in enumerate(toks):
                if off != i or ln != 1:
                    bad.append('C01: token #%d of the tree covers bytes %d..%d, expected %d..%d' % (i, off, off + ln, i, i + 1)); break
                if not k.sym():
                    if not (z3.is_bv_value(self.ks[i]) and self.ks[i].as_long() == k.v):
                        bad.append('C01: token #%d is emitted with a different kind' % i); break
                elif not (k.v.eq(self.ks[i]) or z3.simplify(k.v).eq(self.ks[i])):
                    kz = k.z()
                    r, m = it.check(kz != self.ks[i])
                    if r == z3.sat:
                        bad.append('C01: token #%d is emitted with a different kind' % i); break
        # C20: name-like nodes (what references, rename edits and highlights report the range of) are exactly one token
        for kn, lo, hi, nkids in name_nodes(log):
            if nkids > 1:
                bad.append('C20: a %s node spans tokens %d..%d (%d children): ranges reported for names (references, rename edits, highlights, focus ranges) are no longer one whole identifier token' % (kn, lo, hi, nkids)); break
        # C20(i): error ranges
        einfo = []
        for e in errors:
            (s, t), kn = syn.error_info(e)
            einfo.append((s, t, kn))
            if not ((t == s + 1 and 0 <= s < n) or (s == t == n)):
                bad.append('C20: error range %d..%d is neither a token range nor the empty range at the end (%d)' % (s, t, n))
        rec = {'cls': 'ok', 'ok': True, 'nerr': len(errors), 'depth': it.maxdepth,
               'lookaheads': 1024 - (self.fuel.min if self.fuel.min is not None else 1024)}
        if bad:
            rec.update({'cls': 'violation', 'ok': False, 'why': bad, 'cex': {'kinds': self.witness(it)}, 'cex_alternatives': self.alternatives(it)})
        else:
            rec['cls'] = 'ok-clean' if not errors else 'ok-with-errors'
        rec['_tree'] = (log, einfo)
        return rec

    def on_panic(self, it, e):
        return {'cls': 'panic:' + e.kind, 'ok': False, 'why': ['C02: ' + str(e)], 'panic': {'kind': e.kind, 'msg': e.msg, 'stack': list(e.stack[-5:])},
                'cex': {'kinds': self.witness(it)}, 'cex_alternatives': self.alternatives(it), 'depth': it.maxdepth,
                'lookaheads': 1024 - (self.fuel.min if self.fuel.min is not None else 1024)}

    # aggregation across paths (kept small: maxima + a bounded number of validation samples)
    def accumulate(self, extra, rec, it):
        d = rec.get('depth', 0); l = rec.get('lookaheads', 0)
        if d > extra.get('maxdepth', (0, None))[0]:
            extra['maxdepth'] = (d, self.witness(it))
        if l > extra.get('maxlook', (0, None))[0]:
            extra['maxlook'] = (l, self.witness(it))
        extra['nerr_paths'] = extra.get('nerr_paths', 0) + (1 if rec.get('nerr') else 0)
        vs = extra.setdefault('validate', [])
        # deterministic thinning: keep every path while few, then 1 in 2^k
        extra['seen'] = extra.get('seen', 0) + 1
        thin = {0: 1, 1: 1, 2: 1, 3: 2, 4: 16, 5: 256}.get(self.nsym, 1024)
        if '_tree' in rec and (extra['seen'] % thin == 0):
            log, einfo = rec['_tree']
            m = it.get_model()
            kv = lambda iv: (iv.v if not iv.sym() else m.eval(iv.v, model_completion=True).as_long())
            vs.append({'kinds': syn.model_kinds(it, self.ks), 'tree': syn.tree_from_log(log, kv), 'errors': einfo})
        rec.pop('_tree', None)

    def merge_extra(self, a, b):
        for key in ('maxdepth', 'maxlook'):
            if key in b and b[key][0] > a.get(key, (0, None))[0]:
                a[key] = b[key]
        a['nerr_paths'] = a.get('nerr_paths', 0) + b.get('nerr_paths', 0)
        a['seen'] = a.get('seen', 0) + b.get('seen', 0)
        a.setdefault('validate', []).extend(b.get('validate', []))


NAME_LIKE = ('NAME', 'NAME_REF', 'LABEL', 'TYPE_NAME', 'FIELD_NAME', 'MODULE_NAME_REF')


def name_nodes(log):
    """[(kind name, first token index, last token index, number of children)] of the name-like nodes of a builder log"""
    want = {syn.KINDS[k]: k for k in NAME_LIKE if k in syn.KINDS}
    out = []; stack = []; ntok = 0
    for e in log:
        if e[0] == 'start':
            k = syn.kind_of(e[1])
            stack.append([k.v if not k.sym() else None, ntok, 0])
            if len(stack) > 1:
                stack[-2][2] += 1
        elif e[0] == 'finish':
            k, lo, n = stack.pop()
            if k in want:
                out.append((want[k], lo, ntok - 1, n))
        else:
            ntok += 1
            if stack:
                stack[-1][2] += 1
    return out


def parser_depth_info():
    """(index of the `depth` field in struct Parser, MAX_DEPTH) read from the current source; None if the parser has no depth guard"""
    import os, re
    src = open(os.path.join(os.environ.get('VERIF_REPO', '/repo'), 'crates/syntax/src/parser.rs'), encoding='utf-8').read()
    m = re.search(r'struct Parser(?:<[^>]*>)?\s*\{(.*?)\n\}', src, flags=re.S)
    c = re.search(r'const MAX_DEPTH:\s*u32\s*=\s*(\d+)\s*;', src)
    if not m or not c:
        return None
    fields = re.findall(r'^\s*(?:pub(?:\([^)]*\))?\s+)?(\w+)\s*:', m.group(1), flags=re.M)
    if 'depth' not in fields:
        return None
    return fields.index('depth'), int(c.group(1))


class DeepTokenSpec(TokenSpec):
    """TokenSpec from a symbolic START STATE: the parser's nesting depth starts at an arbitrary d0 <= MAX_DEPTH - margin instead of 0.
    prefix = P + N*j (j copies of a nesting opener).  Depth is only ever compared in Parser::enter, so the run equals the run on
    P + N*(j+d0) + rest from depth 0 (as long as P itself stays below the limit: margin); counterexamples are replayed natively on that
    pumped text.  Covers the depth-limit path of the parser for C01 (lossless) / C02 (no panic) / C20(i) (error ranges)."""

    def __init__(self, n, P, N, j, rest=(), margin=4, lo='IDENT', hi='ERROR'):
        TokenSpec.__init__(self, n, lo=lo, hi=hi, prefix=list(P) + list(N) * j, suffix=rest)
        self.P = list(P); self.N = list(N); self.j = j; self.margin = margin

    def make_interp(self):
        it = TokenSpec.make_interp(self)
        idx, mx = parser_depth_info()
        self.d0 = z3.BitVec('d0', 32)
        it.solver.add(z3.ULE(self.d0, mx - self.margin), z3.UGE(self.d0, mx - self.margin - self.j - 2))
        d0 = self.d0

        def hook(it_, agg):
            f = agg.fields[idx]
            if isinstance(f, IntV) and not f.sym() and f.v == 0 and f.bits == 32:
                agg.fields[idx] = IntV(d0, 32, 0)
            return agg
        it.adt_hooks['Parser'] = hook
        return it

    def witness(self, it):
        ks = TokenSpec.witness(self, it)
        m = it.get_model()
        d = m.eval(self.d0, model_completion=True).as_long()
        return {'P': self.P, 'N': self.N, 'times': self.j + d, 'rest': ks[len(self.prefix):], 'start_depth': d}

    def run_path(self, it):
        rec = TokenSpec.run_path(self, it)
        if 'cex' in rec:
            rec['cex'] = {'deep': self.witness(it)}; rec['cex_alternatives'] = []
        return rec

    def on_panic(self, it, e):
        rec = TokenSpec.on_panic(self, it, e)
        rec['cex'] = {'deep': self.witness(it)}; rec['cex_alternatives'] = []
        return rec

    def accumulate(self, extra, rec, it):
        tree = rec.get('_tree')
        rec.pop('_tree', None)
        TokenSpec.accumulate(self, extra, rec, it)
        extra.pop('maxdepth', None); extra.pop('maxlook', None)
        if tree is not None:
            log, einfo = tree
            ds = extra.setdefault('deep_samples', [])
            if len(ds) < 40:
                ds.append({'deep': self.witness(it), 'errors': [[s_, t_, k_] for (s_, t_, k_) in einfo], 'ntokens': len(syn.log_tokens(log))})

    def merge_extra(self, a, b):
        TokenSpec.merge_extra(self, a, b)
        a.setdefault('deep_samples', []).extend(b.get('deep_samples', []))
        del a['deep_samples'][40:]


class LexStepSpec:
    """one GleamLexer::next() at offset 0 of every valid-UTF-8 string of exactly n bytes"""

    def __init__(self, n):
        self.n = n

    def make_interp(self):
        it = syn.W.interp('syntax')
        self.bs = [z3.BitVec('b%d' % i, 8) for i in range(self.n)]
        it.solver.add(syn.utf8_valid(self.bs))
        self.next = syn.W.find('syntax', '>::next') if False else None
        for nme, b in syn.W.crates['syntax'].items():
            if nme.startswith('lexer::<impl at') and nme.endswith('::next'):
                self.next = b
        return it

    def witness(self, it):
        m = it.get_model()
        return bytes(m.eval(b, model_completion=True).as_long() for b in self.bs)

    def run_path(self, it):
        n = self.n
        src = [IntV(b, 8, 0) for b in self.bs]
        lx = LexerV(src)
        gl = Agg('struct', 'GleamLexer', None, [lx])
        r = it.run_body(self.next, [RefV([gl], 0)])
        bad = []
        rec = {'ok': True}
        if r.variant == 'None':
            if n != 0:
                bad.append('C01: lexer yields no token on a non-empty remainder (bytes dropped)')
            rec['cls'] = 'end'
        else:
            tok = r.fields[0]
            kind, text, rng = tok.fields
            s = models.tsz(rng.fields[0]).v; e = models.tsz(rng.fields[1]).v
            if s != 0:
                bad.append('C01: token starts at %d, not where the previous one ended (0)' % s)
            if not (0 < e <= n):
                bad.append('C01: token range %d..%d is empty or exceeds the text (len %d)' % (s, e, n))
            if text.off != s or len(text.b) != e - s:
                bad.append('C01: token text is not the slice at its range')
            if lx.end != e:
                bad.append('C01: lexer resumes at %d, token ended at %d' % (lx.end, e))
            if not bad and e < n:
                # end must be a char boundary: pc ∧ is_continuation(src[e]) must be unsat
                b = self.bs[e]
                rr, m = it.check(z3.And(z3.UGE(b, 0x80), z3.ULE(b, 0xBF)))
                if rr == z3.sat:
                    bad.append('C01/C20: token ends inside a multi-byte character (offset %d)' % e)
            k = kind
            kn = syn.INV.get(k.v, '?') if not k.sym() else 'sym'
            rec['cls'] = 'tok:' + kn
            rec['end'] = e
        if bad:
            rec.update({'cls': 'violation', 'ok': False, 'why': bad, 'cex': {'bytes': self.witness(it).hex()}})
        else:
            rec['sample'] = {'bytes': self.witness(it).hex(), 'outcome': rec['cls'], 'end': rec.get('end')}
        return rec

    def on_panic(self, it, e):
        return {'cls': 'panic:' + e.kind, 'ok': False, 'why': ['C02: ' + str(e)], 'panic': {'kind': e.kind, 'msg': e.msg, 'stack': list(e.stack[-5:])},
                'cex': {'bytes': self.witness(it).hex()}}


class PipelineSpec:
    """bytes -> real lexer -> real parser -> real build_tree for every valid-UTF-8 string of exactly n bytes"""

    def __init__(self, n):
        self.n = n

    def make_interp(self):
        it = syn.W.interp('syntax')
        self.bs = [z3.BitVec('b%d' % i, 8) for i in range(self.n)]
        it.solver.add(syn.utf8_valid(self.bs))
        return it

    def witness(self, it):
        m = it.get_model()
        return bytes(m.eval(b, model_completion=True).as_long() for b in self.bs)

    def run_path(self, it):
        n = self.n
        res, src = syn.parse_bytes(it, [IntV(b, 8, 0) for b in self.bs])
        log, errors = syn.parse_result(res)
        toks = syn.log_tokens(log)
        bad = []
        rp = syn.root_problem(log)
        if rp:
            bad.append(rp)
        pos = 0
        for (k, off, ln) in toks:
            if off != pos or ln <= 0:
                bad.append('C01: leaf token covers %d..%d but the previous one ended at %d' % (off, off + ln, pos)); break
            pos = off + ln
        if not bad and pos != n:
            bad.append('C01: leaf tokens end at %d, text length is %d' % (pos, n))
        for e in errors:
            (s, t), kn = syn.error_info(e)
            if not (0 <= s <= t <= n):
                bad.append('C20: error range %d..%d outside the text (len %d)' % (s, t, n))
            elif not any(off == s and off + ln == t for (_, off, ln) in toks) and not (s == t == n):
                bad.append('C20: error range %d..%d is not a token range' % (s, t))
        rec = {'ok': True, 'cls': 'ok:%d-tokens' % len(toks)}
        if bad:
            rec.update({'cls': 'violation', 'ok': False, 'why': bad, 'cex': {'bytes': self.witness(it).hex()}})
        else:
            rec['sample'] = {'bytes': self.witness(it).hex(), 'tokens': len(toks), 'errors': len(errors)}
        return rec

    def on_panic(self, it, e):
        return {'cls': 'panic:' + e.kind, 'ok': False, 'why': ['C02: ' + str(e)], 'panic': {'kind': e.kind, 'msg': e.msg, 'stack': list(e.stack[-5:])},
                'cex': {'bytes': self.witness(it).hex()}}
