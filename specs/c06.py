"""C06 — find-references and go-to-definition are inverse views (kernel: usage-search loop, search scope, assembly of the answers;
plus the native inverse-view oracle on one solver model per explored path of the scope kernel and on every z3-enumerated naming of a
three-module workspace template)."""
import os, json
import z3
from mirsym import explore, native
from mirsym.world import World
from mirsym.values import *
from mirsym import models
from . import scopes, searchk, hlk, invk
from .runner import Check

BOUNDS = {
    'quick':    {'search': [(1, 1, False), (1, 2, False), (2, 1, False), (1, 1, True), (1, 2, True)], 'refs': [(1, 1), (2, 1), (0, 2), (2, 2)], 'pool': [2, 3], 'ws': None},
    'thorough': {'search': [(1, 1, False), (1, 2, False), (2, 1, False), (1, 1, True), (1, 2, True), (2, 1, True)], 'refs': [(1, 1), (2, 1), (0, 2), (2, 2), (3, 2), (3, 3)], 'pool': [2, 3, 4], 'ws': None},
}
KINDS = ['Adt', 'Function', 'ModuleConstant', 'Variant', 'Field', 'Local', 'Module', 'BuiltIn', 'TypeAlias']


class HlEqSpec(hlk.HlSpec):
    """highlight_related returns PRECISELY the references of the queried file: hlk.HlSpec decides `nothing else`, this adds `nothing missing`"""

    def run_path(self, it):
        rec = hlk.HlSpec.run_path(self, it)
        if not rec.get('ok', True) or not rec['cls'].startswith('answer'):
            return rec
        n = rec['sample']['highlights']
        if n != self.n_own:
            # the references of the queried file are disjoint ascending ranges (distinct), so a different count means one is missing or doubled
            rec.update({'cls': 'violation', 'ok': False, 'why': ['C06: the usage search finds %d references in the queried file, document highlight returns %d' % (self.n_own, n)],
                        'cex': {'kernel': 'highlight', 'own': self.n_own, 'other': self.n_other}})
        return rec

    def make_interp(self):
        it = hlk.HlSpec.make_interp(self)
        for i, (s, e) in enumerate(self.own):
            it.solver.add(z3.ULT(s, e))
            if i:
                it.solver.add(z3.ULE(self.own[i - 1][1], s))
        return it


def hleq_factory(a, b):
    return HlEqSpec(a, b)


class AllScope(scopes.ScopeSpec):
    """the C05 scope kernel, keeping one solver model (name assignment) per explored path"""

    def accumulate(self, extra, rec, it):
        names = (rec.get('sample') or {}).get('names') or (rec.get('cex') or {}).get('names')
        if names is not None:
            extra.setdefault('models', []).append(list(names))

    def merge_extra(self, a, b):
        a.setdefault('models', []).extend(b.get('models', []))


def allscope_factory(t, pool):
    return AllScope(t, pool)


def expected_sets(template, pool, assign):
    """{(0, occurrence offset): frozenset of (0, offset)} for every binder name and every use bound to a binder, by the reference resolver"""
    from . import c05
    text, binders, uses = scopes.render_program(template, assign)
    exp = c05.reference(template, pool, assign)
    groups = {}
    for pid, off in binders.items():
        groups[pid] = {(0, off)}
    for u, pid in zip(uses, exp):
        if pid is not None and pid in groups:
            groups[pid].add((0, u))
    out = {}
    for pid, occ in groups.items():
        for o in occ:
            out[o] = frozenset(occ)
    return text, out


def single_file_ws(text):
    return {'files': [{'path': '/app/src/test.gleam', 'text': text, 'root': 0}], 'roots': [{'path': '/app', 'local': True, 'deps': []}]}


def native_scope_models(chk, oracle, jobs, pools, what='C06'):
    """one solver model per explored path of the scope kernel -> rendered program -> inverse-view oracle with the by-construction reference sets"""
    total = 0; bad = 0
    for pool in pools:
        for t in scopes.TEMPLATES:
            it0 = scopes.W.interp('ide'); b0 = scopes.build(it0, t, pool)[0]
            s = z3.Solver(); s.add(b0.constraints())
            if s.check() != z3.sat:
                continue
            res, complete = explore.explore(allscope_factory, (t, pool), jobs=jobs)
            name = 'scope kernel, template %s, names from a pool of %d (one model per path goes to the native inverse-view oracle)' % (t, pool)
            chk.add_run(name, res, complete, {'template': t, 'name_pool': pool}, nontrivial_classes=lambda c: c.startswith('resolved') and not c.startswith('resolved:0'))
            seen = set()
            for assign in res.extra.get('models', []):
                key = tuple(assign)
                if key in seen:
                    continue
                seen.add(key)
                text, exp = expected_sets(t, pool, assign)
                ent, err = invk.inverse_entries(oracle, single_file_ws(text))
                total += 1
                if ent is None:
                    chk.inconclusive.append('inverse-view oracle failed on %r: %s' % (text, err)); continue
                probs = invk.check_inverse(ent, exp)
                if not probs:
                    # the same program as a free-standing document that no package owns (untitled buffer, loose .gleam file)
                    ent2, err2 = invk.inverse_entries(oracle, {'text': text})
                    if ent2 is None:
                        chk.inconclusive.append('inverse-view oracle failed on the free-standing document %r: %s' % (text, err2)); continue
                    probs = ['as a free-standing document without a package: ' + p_ for p_ in invk.check_inverse(ent2, exp)]
                if probs:
                    bad += 1
                    if bad <= 3:
                        chk.violation('inverse:' + t, 'path-model', 'program %r (a solver model of an explored path of the scope kernel, template %s): %s' % (text, t, probs[0][:400]),
                                      {'kind': 'scope-model', 'template': t, 'pool': pool, 'names': assign, 'text': text}, confirmed=True)
                else:
                    chk.validated += 1
    chk.log('%d rendered path models through the native inverse-view oracle, %d with problems' % (total, bad))
    return total


def native_workspaces(chk, oracle, limit, rename=False):
    asg, nq = invk.ws_all_assignments()
    chk.extra['workspace_namings'] = len(asg)
    if limit:
        # deterministic spread over the enumeration
        step = max(1, len(asg) // limit)
        asg = asg[(chk.seed % step)::step][:limit]
    nbad = 0; ntok = 0
    for a in asg:
        ws = invk.ws_render(a)
        ent, err = invk.inverse_entries(oracle, ws)
        if ent is None:
            chk.inconclusive.append('inverse-view oracle failed on workspace %s: %s' % (a, err)); continue
        ntok += len(ent)
        probs = invk.check_inverse(ent)
        if probs:
            nbad += 1
            if nbad <= 3:
                chk.violation('inverse:workspace', 'enumerated', 'three-module workspace with the names %s: %s' % (a, probs[0][:500]), {'kind': 'workspace', 'names': a, 'files': [f['text'] for f in ws['files']]}, confirmed=True)
        else:
            chk.validated += 1
    chk.log('%d of %d z3-enumerated namings of the three-module workspace through the native inverse-view oracle (%d identifier occurrences), %d with problems' % (len(asg), chk.extra['workspace_namings'], ntok, nbad))
    return len(asg), nq


TWIN_WS = {'files': [{'path': '/app/src/shapes.gleam', 'text': 'pub type Shape { Dot }\npub const unit = 1\npub fn area(s: Shape) { unit }\n', 'root': 0},
                     {'path': '/app/src/util.gleam', 'text': 'import shapes.{type Shape, Dot}\npub fn a(s: Shape) { shapes.area(Dot) + shapes.unit }\n', 'root': 0},
                     {'path': '/app/test/util.gleam', 'text': 'import shapes.{type Shape, Dot}\npub fn b(s: Shape) { shapes.area(Dot) + shapes.unit }\n', 'root': 0}],
           'roots': [{'path': '/app', 'local': True, 'deps': []}]}
FIX_FIXTURE = 'pub fn f(x) { let #(y, ..rest) = x\n case y { [h, ..t] as w -> #(h, t, w, rest) } }\n'


def main(tier, seed):
    chk = Check('C06', tier, seed)
    B = BOUNDS[tier]
    jobs = int(os.environ.get('VERIF_JOBS', '16'))
    scopes.load('dev', log=chk.log)
    W = scopes.W
    searchk.W = W; hlk.W = W
    searchk.CASTS = searchk.register_ast_enum(W)
    oracle = native.Oracle(native.build('oracle-ide'))
    found = []
    try:
        # (a) the usage search loop
        for (nf, k, ranged) in B['search']:
            res, complete = explore.explore(searchk.search_factory, (nf, k, ranged), jobs=jobs)
            chk.add_run('FindUsages::search: %d file(s) in scope, up to %d match offset(s) per file, %s (token lookup / cast / classify_node answered from symbolic decisions)' %
                        (nf, k, 'symbolic search range' if ranged else 'whole files'), res, complete, {'files': nf, 'matches_per_file': k, 'ranged': ranged},
                        nontrivial_classes=lambda c: c.startswith('reported:') and c != 'reported:0')
            found += [('search', v) for v in res.violations]
        # (b) search scope per definition kind
        for kind in KINDS:
            res, complete = explore.explore(searchk.scope_factory, (kind,), jobs=1)
            chk.add_run('Definition::search_scope for a %s definition (two packages with two module files each; module presence symbolic)' % kind, res, complete, {'kind': kind},
                        nontrivial_classes=lambda c: c.startswith('scope:') and not c.endswith(':0-files'))
            found += [('search_scope', v) for v in res.violations]
        # (c) assembly of references / document highlight
        for (a, b) in B['refs']:
            res, complete = explore.explore(searchk.refs_factory, (a, b), jobs=1)
            chk.add_run('references(): the search found %d range(s) in the queried file and %d in another file (symbolic, may coincide across files)' % (a, b), res, complete, {'own': a, 'other': b},
                        nontrivial_classes=lambda c: c.startswith('answer'))
            found += [('references', v) for v in res.violations]
            res, complete = explore.explore(hleq_factory, (a, b), jobs=1)
            chk.add_run('highlight_related(): %d symbolic references in the queried file, %d in another file' % (a, b), res, complete, {'own': a, 'other': b}, nontrivial_classes=lambda c: c.startswith('answer'))
            found += [('highlight_related', v) for v in res.violations]
        # native layers
        nviol0 = len(chk.viol)
        native_scope_models(chk, oracle, jobs, B['pool'])
        nws, nq = native_workspaces(chk, oracle, B['ws'])
        ent, err = invk.inverse_entries(oracle, single_file_ws(FIX_FIXTURE))
        probs = invk.check_inverse(ent) if ent is not None else [str(err)]
        if probs:
            chk.violation('inverse:spread-binder', 'fixture', 'program %r: %s' % (FIX_FIXTURE, probs[0][:400]), {'kind': 'fixture', 'text': FIX_FIXTURE}, confirmed=True)
        else:
            chk.validated += 1
        # two files of one package with the same module name (src/util.gleam, test/util.gleam): both are searched
        ent, err = invk.inverse_entries(oracle, TWIN_WS)
        probs = invk.check_inverse(ent) if ent is not None else [str(err)]
        if probs:
            chk.violation('inverse:twin-module', 'fixture', 'workspace src/shapes.gleam, src/util.gleam, test/util.gleam (two files with the module name util): %s' % probs[0][:500], {'kind': 'fixture-ws', 'ws': 'twin'}, confirmed=True)
        else:
            chk.validated += 1
        # labels shared by the first variant and a later one: references by construction
        ent, err = invk.inverse_entries(oracle, single_file_ws(invk.LABEL_TEXT))
        probs = invk.check_inverse(ent, invk.label_expected()) if ent is not None else [str(err)]
        if probs:
            chk.violation('inverse:variant-labels', 'fixture', 'program %r: %s' % (invk.LABEL_TEXT, probs[0][:500]), {'kind': 'fixture', 'text': invk.LABEL_TEXT}, confirmed=True)
        else:
            chk.validated += 1
        native_problems = len(chk.viol) - nviol0
        # kernel findings need a native witness (under-constrained execution over-approximates the callees)
        seen = set()
        for site, v in found:
            if site in seen:
                continue
            seen.add(site)
            if native_problems:
                chk.violation('kernel:' + site, 'bounded', '%s (kernel %s); the native inverse-view oracle shows the consequence, see the other violations' % (v['why'][0][:400], site), {'kind': 'kernel', 'kernel': site, 'cex': v.get('cex')}, confirmed=True)
            else:
                w = kernel_witness(oracle, site)
                if w:
                    chk.violation('kernel:' + site, 'bounded', '%s (kernel %s); public API: %s' % (v['why'][0][:400], site, w[:400]), {'kind': 'kernel', 'kernel': site, 'cex': v.get('cex')}, confirmed=True)
                else:
                    chk.inconclusive.append('%s kernel: %s -- but no workspace of the native inverse-view oracle shows a consequence' % (site, v['why'][0][:300]))
    finally:
        oracle.close(); W.cleanup()
    chk.assumptions += [
        'kernel claim (solver-decided, under-constrained database): (a) FindUsages::search reports (file, node range) for a match offset exactly when the offset lies in the file\'s search range, a token at it is spelled with the search name, '
        'its parent casts to Name / NameRef / TypeName / Label and classify_node gives the target definition - at most once, for up to 2 match offsets in one file or 1 in each of two files; '
        '(b) Definition::search_scope: a local is searched in its module\'s file, every other definition in every module file of every package, a definition without module nowhere; '
        '(c) references() lists every found (file, range) exactly once also when ranges coincide across files; highlight_related() returns exactly the found ranges of the queried file',
        'memmem::Finder::find_iter is modelled as an ascending, non-overlapping list of symbolic match offsets; rowan token lookup, the AstNode cast and classify_node are answered from symbolic decision variables drawn before the run '
        '(the classifier itself - name / label / type-name classification over rowan trees and the salsa database - is NOT decided by the solver)',
        'native layers (executed, not solver verdicts): (i) one solver model per explored path of the expression-scope kernel of C05 is rendered to a Gleam program and the by-construction reference sets '
        '(binder + the uses the reference resolver binds to it) are compared with references / highlight_related from every occurrence; (ii) every z3-enumerated naming (quick: a spread of %s; thorough: all) of a three-module workspace template '
        '(type with two constructors and a common field, alias, constant, functions, unqualified + aliased-module imports, labelled patterns and calls, field access, shadowing locals) is checked for self-consistency: '
        'an occurrence spelled with the declaration\'s name is listed exactly when go-to-definition leads to the declaration, the declaration is included, nothing twice, the same set from every listed occurrence, highlight = the part in the file' % BOUNDS['quick']['ws'],
        'outside: broken programs, the repository\'s Gleam corpus, symbol kinds the templates do not contain (use-bound names in multi-module settings, qualified constructors in constants, aliased unqualified imports as rename targets)']
    chk.trusted += ['rustc MIR', 'mirsym interpreter (under-constrained mode) + HashMap / HashSet / iterator models', 'z3', 'derive(PartialEq) on Definition modelled structurally', 'reference scoping rules of specs/scopes.py']
    chk.level = 'model_checking'
    return chk.finish({'workspace_namings_enumerated': chk.extra.get('workspace_namings')})


def kernel_witness(oracle, site):
    """a small two-module probe for kernel findings that the big oracles did not witness"""
    ws = {'files': [{'path': '/app/src/util.gleam', 'text': 'pub fn helper(x) { x }\n', 'root': 0},
                    {'path': '/app/src/one.gleam', 'text': 'import util\npub fn main() { util.helper(1) }\n', 'root': 0},
                    {'path': '/app/src/two.gleam', 'text': 'import util\npub fn main() { util.helper(1) }\n', 'root': 0}],
          'roots': [{'path': '/app', 'local': True, 'deps': []}]}
    ent, err = invk.inverse_entries(oracle, ws)
    if ent is None:
        return 'oracle: %s' % err
    probs = invk.check_inverse(ent)
    return probs[0] if probs else None


def replay(path):
    d = json.load(open(path))
    oracle = native.Oracle(native.build('oracle-ide'))
    cex = d['cex']
    if cex.get('kind') == 'workspace':
        ws = invk.ws_render(cex['names'])
    elif 'text' in cex:
        ws = single_file_ws(cex['text'])
    else:
        print(json.dumps({'kernel_witness': kernel_witness(oracle, cex.get('kernel'))})); return 0
    ent, err = invk.inverse_entries(oracle, ws)
    probs = invk.check_inverse(ent) if ent is not None else [str(err)]
    print(json.dumps({'problems': probs[:5]}, indent=1))
    return 1 if probs else 0
